//! GENERATED. libFuzzer drives the sub-check named by $VP_FUZZ_SUB of check C23 (semantic oracle inside the target).
#![no_main]
#[allow(dead_code, unused_imports)]
#[path = "../../harness/src/bin/c23.rs"]
mod check;
libfuzzer_sys::fuzz_target!(|data: &[u8]| {
    vp::fuzz::one_input(data, check::main);
});
