//! libFuzzer target for the C06 parser entry points: `VP_ENTRY=<name>` selects the entry (see vp::parsers::entries()).
#![no_main]
use std::sync::OnceLock;
static ENTRY: OnceLock<fn(&[u8])> = OnceLock::new();
libfuzzer_sys::fuzz_target!(|data: &[u8]| {
    let run = ENTRY.get_or_init(|| {
        let name = std::env::var("VP_ENTRY").expect("set VP_ENTRY to a parser entry name");
        vp::parsers::entries()
            .into_iter()
            .find(|e| e.name == name)
            .unwrap_or_else(|| panic!("unknown entry {name}"))
            .run
    });
    run(data);
});
