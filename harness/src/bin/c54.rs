//! C54 — connectivity checks report exactly the missing objects.
//!
//! One case = one loose-only object database written by the harness (own tree/commit serialisation, zlib via flate2),
//! with a generated subset of trees and blobs never written ("deleted"). Oracles: a reachability model over the
//! generated object graph (per commit, fresh `Connectivity`; and one instance over all commits), and
//! `git fsck --connectivity-only --no-dangling <commits>` for the union.
use gix_hash::ObjectId;
use gix_object::Kind;
use std::collections::{BTreeMap, BTreeSet, VecDeque};
use std::io::Write;
use vp::*;

#[derive(Clone, Debug, PartialEq, Eq, Hash)]
enum Target {
    Blob(usize),
    Tree(usize),
    /// submodule entry: an id that is not in this repository
    Commit([u8; 20]),
}

#[derive(Clone, Debug, PartialEq, Eq, Hash)]
struct TreeEntry {
    mode: &'static str,
    name: Vec<u8>,
    target: Target,
}

#[derive(Clone, Debug, PartialEq, Eq, Hash)]
struct World {
    blobs: Vec<Vec<u8>>,
    trees: Vec<Vec<TreeEntry>>,
    /// (root tree index, parent commit indices)
    commits: Vec<(usize, Vec<usize>)>,
    deleted_blobs: BTreeSet<usize>,
    deleted_trees: BTreeSet<usize>,
}

fn gen_world(t: &mut Tape) -> World {
    let nb = t.range(1, 8);
    let mut blobs: Vec<Vec<u8>> = Vec::new();
    for i in 0..nb {
        let len = t.range(0, 3);
        let mut data = format!("blob {i}\n").into_bytes();
        data.extend(t.take(len));
        if i == 0 && t.chance(64) {
            data.clear(); // the empty blob
        }
        blobs.push(data);
    }
    let nt = t.range(1, 10);
    let mut trees: Vec<Vec<TreeEntry>> = Vec::new();
    const NAMES: &[&[u8]] = &[b"a", b"b", b"c", b"d", b"a.x", b"a-", b"dir", b"e", b"z"];
    for ti in 0..nt {
        let k = t.range(if ti == 0 { 1 } else { 0 }, 6);
        let mut entries: Vec<TreeEntry> = Vec::new();
        for _ in 0..k {
            let name = t.pick(NAMES).to_vec();
            if entries.iter().any(|e| e.name == name) {
                continue;
            }
            let kind = if ti == 0 { t.weighted(&[5, 1, 1, 0, 1]) } else { t.weighted(&[4, 1, 1, 6, 1]) };
            let (mode, target) = match kind {
                0 => ("100644", Target::Blob(t.below(nb))),
                1 => ("100755", Target::Blob(t.below(nb))),
                2 => ("120000", Target::Blob(t.below(nb))),
                3 => {
                    // prefer recent trees: deeper nesting
                    let idx = if t.bool() { ti - 1 - t.below(ti.min(2)) } else { t.below(ti) };
                    ("40000", Target::Tree(idx))
                }
                _ => {
                    let mut id = [0u8; 20];
                    id[0] = 0xc0;
                    id[19] = t.u8();
                    ("160000", Target::Commit(id))
                }
            };
            entries.push(TreeEntry { mode, name, target });
        }
        entries.sort_by(|a, b| gen::git_tree_cmp(&a.name, a.mode == "40000", &b.name, b.mode == "40000"));
        trees.push(entries);
    }
    let nc = t.range(1, 15);
    let mut commits = Vec::new();
    for ci in 0..nc {
        let root = if t.chance(150) { nt - 1 - t.below(nt.min(3)) } else { t.below(nt) };
        let mut parents = Vec::new();
        if ci > 0 {
            parents.push(ci - 1);
            if ci > 1 && t.chance(50) {
                parents.push(t.below(ci - 1));
            }
        }
        commits.push((root, parents));
    }
    let mut deleted_blobs = BTreeSet::new();
    let mut deleted_trees = BTreeSet::new();
    let rate = *t.pick(&[0u32, 30, 60, 90, 140]);
    for i in 0..nb {
        if t.chance(rate) {
            deleted_blobs.insert(i);
        }
    }
    for i in 0..nt {
        if t.chance(rate) {
            deleted_trees.insert(i);
        }
    }
    // boundary class: a deleted tree together with something directly below it
    if t.chance(90) {
        let ti = t.below(nt);
        if let Some(e) = trees[ti].iter().find(|e| !matches!(e.target, Target::Commit(_))) {
            deleted_trees.insert(ti);
            match e.target {
                Target::Blob(b) => {
                    deleted_blobs.insert(b);
                }
                Target::Tree(s) => {
                    deleted_trees.insert(s);
                }
                Target::Commit(_) => {}
            }
        }
    }
    World {
        blobs,
        trees,
        commits,
        deleted_blobs,
        deleted_trees,
    }
}

struct Built {
    blob_ids: Vec<ObjectId>,
    tree_ids: Vec<ObjectId>,
    tree_bytes: Vec<Vec<u8>>,
    commit_ids: Vec<ObjectId>,
    commit_bytes: Vec<Vec<u8>>,
}

fn oid(kind: &str, data: &[u8]) -> ObjectId {
    ObjectId::from_hex(object_sha1(kind, data).as_bytes()).expect("sha1 hex")
}

fn build(w: &World) -> Built {
    let blob_ids: Vec<ObjectId> = w.blobs.iter().map(|b| oid("blob", b)).collect();
    let mut tree_ids: Vec<ObjectId> = Vec::new();
    let mut tree_bytes = Vec::new();
    for entries in &w.trees {
        let mut buf = Vec::new();
        for e in entries {
            buf.extend_from_slice(e.mode.as_bytes());
            buf.push(b' ');
            buf.extend_from_slice(&e.name);
            buf.push(0);
            match &e.target {
                Target::Blob(i) => buf.extend_from_slice(blob_ids[*i].as_slice()),
                Target::Tree(i) => buf.extend_from_slice(tree_ids[*i].as_slice()),
                Target::Commit(id) => buf.extend_from_slice(id),
            }
        }
        tree_ids.push(oid("tree", &buf));
        tree_bytes.push(buf);
    }
    let mut commit_ids: Vec<ObjectId> = Vec::new();
    let mut commit_bytes = Vec::new();
    for (i, (root, parents)) in w.commits.iter().enumerate() {
        let mut s = format!("tree {}\n", tree_ids[*root]);
        for p in parents {
            s.push_str(&format!("parent {}\n", commit_ids[*p]));
        }
        s.push_str(&format!(
            "author A <a@example.com> {} +0000\ncommitter C <c@example.com> {} +0000\n\ncommit {i}\n",
            1_000_000_000 + i,
            1_000_000_000 + i
        ));
        commit_ids.push(oid("commit", s.as_bytes()));
        commit_bytes.push(s.into_bytes());
    }
    Built {
        blob_ids,
        tree_ids,
        tree_bytes,
        commit_ids,
        commit_bytes,
    }
}

fn write_loose(objects: &std::path::Path, kind: &str, id: &ObjectId, data: &[u8]) -> std::io::Result<()> {
    let hex = id.to_hex().to_string();
    let dir = objects.join(&hex[..2]);
    std::fs::create_dir_all(&dir)?;
    let path = dir.join(&hex[2..]);
    if path.exists() {
        return Ok(());
    }
    let mut enc = flate2::write::ZlibEncoder::new(Vec::new(), flate2::Compression::fast());
    enc.write_all(format!("{} {}\0", kind, data.len()).as_bytes())?;
    enc.write_all(data)?;
    std::fs::write(path, enc.finish()?)
}

/// Walk from the root tree of `commit` through present trees; returns deleted objects met, in discovery order.
/// `seen` carries over between commits when one checker instance is re-used.
fn expected_missing(w: &World, b: &Built, deleted: &BTreeSet<ObjectId>, commit: usize, seen: &mut BTreeSet<ObjectId>) -> Vec<(ObjectId, Kind)> {
    let mut out = Vec::new();
    let by_id: BTreeMap<ObjectId, usize> = b.tree_ids.iter().enumerate().map(|(i, id)| (*id, i)).collect();
    let mut queue = VecDeque::new();
    queue.push_back(b.tree_ids[w.commits[commit].0]);
    while let Some(tid) = queue.pop_front() {
        if !seen.insert(tid) {
            continue;
        }
        if deleted.contains(&tid) {
            out.push((tid, Kind::Tree));
            continue;
        }
        for e in &w.trees[by_id[&tid]] {
            match &e.target {
                Target::Tree(i) => queue.push_back(b.tree_ids[*i]),
                Target::Blob(i) => {
                    let id = b.blob_ids[*i];
                    if seen.insert(id) && deleted.contains(&id) {
                        out.push((id, Kind::Blob));
                    }
                }
                Target::Commit(_) => {}
            }
        }
    }
    out
}

fn sorted(mut v: Vec<(ObjectId, Kind)>) -> Vec<(ObjectId, Kind)> {
    v.sort();
    v
}

fn run(t: &mut Tape, c: &mut Case) {
    let w = gen_world(t);
    c.key(&w);
    let b = build(&w);
    // identical content gives identical ids: deletion is by id
    let empty_tree = ObjectId::empty_tree(gix_hash::Kind::Sha1);
    let mut deleted: BTreeSet<ObjectId> = BTreeSet::new();
    for i in &w.deleted_blobs {
        deleted.insert(b.blob_ids[*i]);
    }
    for i in &w.deleted_trees {
        // git (and only git) synthesises the empty tree when it is absent: never delete it
        if b.tree_ids[*i] != empty_tree {
            deleted.insert(b.tree_ids[*i]);
        }
    }
    c.sample_with(|| {
        format!(
            "{} blobs, {} trees, {} commits, deleted blobs {:?} trees {:?}; trees: {:?}; commits: {:?}",
            w.blobs.len(),
            w.trees.len(),
            w.commits.len(),
            w.deleted_blobs,
            w.deleted_trees,
            w.trees
                .iter()
                .map(|es| es
                    .iter()
                    .map(|e| format!("{} {} {:?}", e.mode, show(&e.name), e.target))
                    .collect::<Vec<_>>())
                .collect::<Vec<_>>(),
            w.commits
        )
    });

    // --- write the object database
    let scratch = infra!(c, Scratch::new("c54"), "scratch");
    let repo = scratch.join("r");
    let objects = repo.join(".git/objects");
    infra!(c, std::fs::create_dir_all(&objects), "objects dir");
    infra!(c, std::fs::create_dir_all(repo.join(".git/refs")), "refs dir");
    infra!(c, std::fs::write(repo.join(".git/HEAD"), "ref: refs/heads/main\n"), "HEAD");
    for (id, data) in b.blob_ids.iter().zip(&w.blobs) {
        if !deleted.contains(id) {
            infra!(c, write_loose(&objects, "blob", id, data), "write blob");
        }
    }
    for (id, data) in b.tree_ids.iter().zip(&b.tree_bytes) {
        if !deleted.contains(id) {
            infra!(c, write_loose(&objects, "tree", id, data), "write tree");
        }
    }
    for (id, data) in b.commit_ids.iter().zip(&b.commit_bytes) {
        infra!(c, write_loose(&objects, "commit", id, data), "write commit");
    }

    // --- labels / non-trivial rule
    let mut parents_of: BTreeMap<ObjectId, BTreeSet<ObjectId>> = BTreeMap::new();
    let mut deleted_tree_with_deleted_child = false;
    for (ti, entries) in w.trees.iter().enumerate() {
        for e in entries {
            let child = match &e.target {
                Target::Blob(i) => b.blob_ids[*i],
                Target::Tree(i) => b.tree_ids[*i],
                Target::Commit(_) => continue,
            };
            parents_of.entry(child).or_default().insert(b.tree_ids[ti]);
            if deleted.contains(&b.tree_ids[ti]) && deleted.contains(&child) {
                deleted_tree_with_deleted_child = true;
            }
        }
    }
    let shared = parents_of.values().any(|p| p.len() >= 2);
    let shared_deleted = parents_of.iter().any(|(id, p)| p.len() >= 2 && deleted.contains(id));
    c.label_if(deleted_tree_with_deleted_child, "deleted-tree-with-deleted-child");
    c.label_if(shared, "object-shared-between-parents");
    c.label_if(shared_deleted, "deleted-object-shared-between-parents");
    c.label_if(deleted.is_empty(), "nothing-deleted");
    c.label_if(w.commits.iter().any(|(_, p)| p.len() > 1), "merge-commit");
    c.label_if(
        w.trees.iter().flatten().any(|e| matches!(e.target, Target::Commit(_))),
        "submodule-entry",
    );
    c.nontrivial(deleted_tree_with_deleted_child && shared);

    let open = || -> Result<gix_odb::Handle, String> {
        let mut db = gix_odb::at(objects.clone()).map_err(|e| e.to_string())?;
        db.refresh_never();
        Ok(db)
    };

    // --- 1. fresh checker per commit: exactly the model's set for that commit, each once, right kind
    let mut any_reported = false;
    let mut any_root_missing = false;
    for ci in 0..w.commits.len() {
        let db = infra!(c, open(), "open odb");
        let mut got: Vec<(ObjectId, Kind)> = Vec::new();
        let mut check = gix_fsck::Connectivity::new(db, |id: &ObjectId, kind: Kind| got.push((*id, kind)));
        let res = check.check_commit(&b.commit_ids[ci]);
        drop(check);
        ensure!(c, res.is_ok(), "check_commit failed for a present commit {}: {:?}", b.commit_ids[ci], res.err());
        let want = expected_missing(&w, &b, &deleted, ci, &mut BTreeSet::new());
        any_reported |= !want.is_empty();
        any_root_missing |= deleted.contains(&b.tree_ids[w.commits[ci].0]);
        let mut once = BTreeSet::new();
        for (id, _) in &got {
            ensure_sig!(
                c,
                "reported-twice",
                once.insert(*id),
                "commit #{ci} {}: {id} reported more than once; all reports: {got:?}",
                b.commit_ids[ci]
            );
        }
        for (id, kind) in &got {
            ensure_sig!(
                c,
                "reported-but-not-missing",
                deleted.contains(id),
                "commit #{ci} {}: {id} ({kind}) reported although it is present or not part of the closure; reports {got:?}",
                b.commit_ids[ci]
            );
        }
        let (g, e) = (sorted(got.clone()), sorted(want.clone()));
        if g != e {
            let gs: BTreeSet<_> = g.iter().map(|x| x.0).collect();
            let es: BTreeSet<_> = e.iter().map(|x| x.0).collect();
            let sig = if gs == es {
                "wrong-kind"
            } else if gs.is_subset(&es) {
                "missing-object-not-reported"
            } else {
                "reported-behind-missing-tree"
            };
            c.fail_sig(
                sig,
                format!(
                    "commit #{ci} {}: reported {g:?}, expected {e:?} (deleted: {deleted:?})",
                    b.commit_ids[ci]
                ),
            );
            return;
        }
    }
    c.label_if(any_reported, "something-reported");
    c.label_if(any_root_missing, "root-tree-missing");

    // --- 2. one checker over all commits: the union, each object once, in commit order
    let mut union_model: Vec<(ObjectId, Kind)> = Vec::new();
    {
        let db = infra!(c, open(), "open odb");
        let mut got: Vec<(usize, ObjectId, Kind)> = Vec::new();
        let cur = std::cell::Cell::new(0usize);
        let mut check = gix_fsck::Connectivity::new(db, |id: &ObjectId, kind: Kind| got.push((cur.get(), *id, kind)));
        // some commits are checked twice: the second time must be silent
        let mut order: Vec<usize> = (0..w.commits.len()).collect();
        order.push(0);
        for ci in order {
            cur.set(ci);
            let res = check.check_commit(&b.commit_ids[ci]);
            ensure!(c, res.is_ok(), "check_commit failed for a present commit (shared instance): {:?}", res.err());
        }
        drop(check);
        let mut seen = BTreeSet::new();
        let mut want: Vec<(usize, ObjectId, Kind)> = Vec::new();
        for ci in 0..w.commits.len() {
            for (id, k) in expected_missing(&w, &b, &deleted, ci, &mut seen) {
                want.push((ci, id, k));
                union_model.push((id, k));
            }
        }
        let mut g = got.clone();
        g.sort();
        want.sort();
        ensure_sig!(
            c,
            "shared-instance-differs",
            g == want,
            "one Connectivity over all commits reported (commit#, id, kind) {g:?}, expected {want:?}"
        );
    }

    // --- 3. real git on the union
    let git = Git::new(&repo, &scratch.path);
    let mut args: Vec<String> = vec!["fsck".into(), "--connectivity-only".into(), "--no-dangling".into(), "--no-progress".into()];
    args.extend(b.commit_ids.iter().map(|id| id.to_string()));
    let (_ok, out, err) = infra!(c, git.try_run(&args, None), "git fsck");
    let mut git_missing: Vec<(ObjectId, Kind)> = Vec::new();
    let text = String::from_utf8_lossy(&out).to_string() + &String::from_utf8_lossy(&err);
    for line in text.lines() {
        if let Some(rest) = line.strip_prefix("missing ") {
            let mut it = rest.split(' ');
            let kind = match it.next() {
                Some("tree") => Kind::Tree,
                Some("blob") => Kind::Blob,
                other => {
                    c.infra(format!("git fsck reports an unexpected missing kind {other:?}: {text}"));
                    return;
                }
            };
            match it.next().and_then(|h| ObjectId::from_hex(h.as_bytes()).ok()) {
                Some(id) => git_missing.push((id, kind)),
                None => {
                    c.infra(format!("unparsable fsck line {line:?}"));
                    return;
                }
            }
        } else if line.starts_with("error") || line.starts_with("fatal") || line.starts_with("bad ") {
            c.infra(format!("git fsck is unhappy with the generated objects: {text}"));
            return;
        }
    }
    let (gm, um) = (sorted(git_missing), sorted(union_model));
    if gm != um {
        // gitoxide agreed with the model above, so this is the model (and gitoxide) against git
        c.fail_sig(
            "union-differs-from-git-fsck",
            format!("git fsck --connectivity-only reports {gm:?}; gitoxide and the model report {um:?}\n{text}"),
        );
    }
}

pub fn main() {
    let mut ck = Check::new("C54", "exploration");
    ck.rule("One case = a loose-only object database: 1..8 blobs, 1..10 trees built bottom-up (0..6 entries each: blobs, executables, symlinks, earlier trees, submodule entries; shared subtrees and blobs arise from index re-use), 1..15 commits (linear history with occasional merges, roots drawn from the tree pool), and a generated subset of trees and blobs absent from disk (rates 0..55 %, plus a forced 'deleted tree + deleted direct child'). Each commit is checked with a fresh Connectivity, then all commits (and the first one again) with one instance. Non-trivial: a deleted tree with a deleted child AND an object referenced from two different trees. Distinct by the decoded world.");
    ck.assume(&format!("{}: `git fsck --connectivity-only --no-dangling <commits>` lists the missing objects reachable from the given commits", Git::version()));
    ck.assume("the empty tree is never deleted (git synthesises it); objects are 'deleted' by never writing them; all commits are present; tree entries have modes matching the kind of their target");
    ck.sub("world", SubCfg::new(4_000, 100_000).max_len(400).max_shrink(100), run);
    ck.finish();
}
