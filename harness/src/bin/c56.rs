//! C56 — streaming compression and hashing do not depend on chunking.
//!
//! Sub-checks
//!  * `deflate-chunking`  data (0..4 MiB; zeros / random / text / repetitive / tape bytes) is pushed through
//!    `gix_features::zlib::stream::deflate::Write` in a generated sequence of write sizes (empty writes, 1-byte writes,
//!    sizes around the 32 KiB internal buffer, one huge write, uniform tiny writes), via `write_all` or via a manual
//!    `write` loop whose return values are summed; then `flush()` (optionally twice). The output must be ONE complete
//!    zlib stream (no trailing bytes) that inflates to the input: inflated with the harness' own flate2 decoder and, for
//!    a subset, with python3's zlib (independent C implementation). A second chunking of the same data must inflate
//!    to the same bytes.
//!  * `hash-consistency`  `hash::Write` (chunked, also over a short-writing inner writer and over the deflate writer
//!    as the loose store stacks them), `compute_hash`, `compute_stream_hash` (reader with short reads), the harness'
//!    own SHA-1, `git hash-object` (subset) and `loose::Store::{write_buf, write_stream}` all name the same id.
use std::io::{Read, Write};

use gix_features::zlib::stream::deflate;
use gix_object::Kind;
use vp::*;

const BUF_SIZE: usize = 4096 * 8;

struct Rng(u64);
impl Rng {
    fn next(&mut self) -> u64 {
        // xorshift64*
        let mut x = self.0;
        x ^= x >> 12;
        x ^= x << 25;
        x ^= x >> 27;
        self.0 = x;
        x.wrapping_mul(0x2545F4914F6CDD1D)
    }
    fn below(&mut self, n: usize) -> usize {
        ((self.next() >> 33) as usize) % n.max(1)
    }
    fn fill(&mut self, n: usize) -> Vec<u8> {
        let mut v = Vec::with_capacity(n + 8);
        while v.len() < n {
            v.extend_from_slice(&self.next().to_le_bytes());
        }
        v.truncate(n);
        v
    }
}

const WORDS: &[&str] = &[
    "the", "pack", "object", "tree", "commit", "delta", "fn", "let", "mut", "return", "0x00ff", "index", "\n", "\n\n", "    ", "// ", "{", "}",
    "gitoxide", "a", "of", "and",
];

fn gen_len(t: &mut Tape, thorough_big: bool) -> (usize, &'static str) {
    match t.weighted(&[2, 3, 4, 3, 4, 2, 1]) {
        0 => (*t.pick(&[0usize, 1, 2]), "len-0..2"),
        1 => (t.range(3, 200), "len-small"),
        2 => {
            // around the 32 KiB buffer and its multiples
            let base = *t.pick(&[BUF_SIZE, BUF_SIZE, 2 * BUF_SIZE, 3 * BUF_SIZE, 65536]);
            let d = t.range(0, 4);
            (base + d - 2, "len-buffer-boundary")
        }
        3 => (t.range(200, 40_000), "len-below-64k"),
        4 => (t.range(40_000, 300_000), "len-40k..300k"),
        5 => (t.range(300_000, 1 << 20), "len-300k..1M"),
        _ => {
            if thorough_big || t.chance(64) {
                (t.range(1 << 20, 4 << 20), "len-1M..4M")
            } else {
                (t.range(1 << 20, (1 << 20) + 200_000), "len-1M..4M")
            }
        }
    }
}

fn gen_data(t: &mut Tape, rng: &mut Rng, len: usize) -> (Vec<u8>, &'static str) {
    if len <= 64 && t.bool() {
        return (t.take(len), "content-tape");
    }
    match t.weighted(&[2, 3, 3, 3, 1]) {
        0 => (vec![0u8; len], "content-zeros"),
        1 => (rng.fill(len), "content-random"),
        2 => {
            let mut v = Vec::with_capacity(len + 16);
            while v.len() < len {
                let w = WORDS[rng.below(WORDS.len())];
                v.extend_from_slice(w.as_bytes());
                v.push(b' ');
            }
            v.truncate(len);
            (v, "content-text")
        }
        3 => {
            let block_len = 1 + rng.below(300);
            let block = rng.fill(block_len);
            let mut v = Vec::with_capacity(len + block.len());
            while v.len() < len {
                v.extend_from_slice(&block);
            }
            v.truncate(len);
            (v, "content-repetitive")
        }
        _ => {
            // incompressible prefix, highly compressible tail (output buffer fills at very different rates)
            let mut v = rng.fill(len / 2);
            v.resize(len, 0x61);
            (v, "content-mixed")
        }
    }
}

#[derive(Debug, Clone, Hash)]
struct Chunking {
    /// sizes of the successive writes; the remainder (if any) goes in one final write
    sizes: Vec<usize>,
    manual_write: bool,
    double_flush: bool,
}

fn gen_chunking(t: &mut Tape, len: usize) -> Chunking {
    let manual_write = t.bool();
    let double_flush = t.chance(64);
    let mut sizes = Vec::new();
    match t.weighted(&[6, 1, 1]) {
        0 => {
            let n = t.range(0, 40);
            let mut left = len;
            for _ in 0..n {
                let s = match t.weighted(&[3, 3, 3, 2, 2, 2, 2, 3, 1]) {
                    0 => 0,
                    1 => 1,
                    2 => t.range(2, 100),
                    3 => BUF_SIZE - 1,
                    4 => BUF_SIZE,
                    5 => BUF_SIZE + 1,
                    6 => 2 * BUF_SIZE + t.range(0, 2) - 1,
                    7 => t.range(100, 10_000),
                    _ => left,
                };
                let s = s.min(left);
                sizes.push(s);
                left -= s;
            }
        }
        1 => {
            // uniform writes of a fixed size over (a prefix of) the data
            let c = *t.pick(&[1usize, 1, 7, 4096, BUF_SIZE - 1, BUF_SIZE + 1]);
            let budget = if c == 1 { 60_000 } else { 400_000 };
            let mut left = len.min(budget);
            while left > 0 {
                let s = c.min(left);
                sizes.push(s);
                left -= s;
            }
        }
        _ => {} // a single huge write
    }
    Chunking {
        sizes,
        manual_write,
        double_flush,
    }
}

/// Writer accepting at most `max` bytes per call (and at least one).
struct ShortWriter<W> {
    inner: W,
    pattern: Vec<usize>,
    pos: usize,
}
impl<W: Write> Write for ShortWriter<W> {
    fn write(&mut self, buf: &[u8]) -> std::io::Result<usize> {
        let max = self.pattern[self.pos % self.pattern.len()].max(1);
        self.pos += 1;
        let n = buf.len().min(max);
        self.inner.write(&buf[..n])
    }
    fn flush(&mut self) -> std::io::Result<()> {
        self.inner.flush()
    }
}

/// Reader returning at most `pattern[i]` bytes per call.
struct ShortReader<'a> {
    data: &'a [u8],
    pattern: Vec<usize>,
    pos: usize,
}
impl Read for ShortReader<'_> {
    fn read(&mut self, buf: &mut [u8]) -> std::io::Result<usize> {
        let max = self.pattern[self.pos % self.pattern.len()].max(1);
        self.pos += 1;
        let n = buf.len().min(max).min(self.data.len());
        buf[..n].copy_from_slice(&self.data[..n]);
        self.data = &self.data[n..];
        Ok(n)
    }
}

fn gen_pattern(t: &mut Tape) -> Vec<usize> {
    let n = t.range(1, 6);
    (0..n)
        .map(|_| match t.weighted(&[3, 2, 2, 2, 1]) {
            0 => 1,
            1 => t.range(2, 64),
            2 => t.range(64, 5000),
            3 => *t.pick(&[BUF_SIZE - 1, BUF_SIZE, BUF_SIZE + 1, 65535, 65536]),
            _ => usize::MAX,
        })
        .collect()
}

/// Run the data through deflate::Write with the given chunking. Returns the compressed bytes.
fn deflate_chunked(data: &[u8], ch: &Chunking) -> Result<Vec<u8>, (&'static str, String)> {
    let mut w = deflate::Write::new(Vec::new());
    let mut rest = data;
    let mut total_reported = 0usize;
    let mut pieces: Vec<&[u8]> = Vec::with_capacity(ch.sizes.len() + 1);
    for s in &ch.sizes {
        let (a, b) = rest.split_at((*s).min(rest.len()));
        pieces.push(a);
        rest = b;
    }
    if !rest.is_empty() {
        pieces.push(rest);
    }
    for piece in pieces {
        if ch.manual_write {
            let mut p = piece;
            let mut zero_returns = 0;
            loop {
                let n = w.write(p).map_err(|e| ("write-error", format!("write({} bytes) failed: {e}", p.len())))?;
                if n > p.len() {
                    return Err(("write-count", format!("write({} bytes) returned {n}", p.len())));
                }
                total_reported += n;
                p = &p[n..];
                if p.is_empty() {
                    break;
                }
                if n == 0 {
                    zero_returns += 1;
                    if zero_returns >= 3 {
                        return Err((
                            "write-count",
                            format!("write() returned 0 three times in a row with {} bytes still to write", p.len()),
                        ));
                    }
                } else {
                    zero_returns = 0;
                }
            }
        } else {
            w.write_all(piece)
                .map_err(|e| ("write-error", format!("write_all({} bytes) failed: {e}", piece.len())))?;
            total_reported += piece.len();
        }
    }
    if total_reported != data.len() {
        return Err(("write-count", format!("write() return values sum to {total_reported}, input has {} bytes", data.len())));
    }
    w.flush().map_err(|e| ("write-error", format!("flush failed: {e}")))?;
    if ch.double_flush {
        w.flush().map_err(|e| ("write-error", format!("second flush failed: {e}")))?;
    }
    Ok(w.into_inner())
}

/// Independent inflation (harness flate2 decoder): whole stream must be consumed and end properly.
fn inflate_all(z: &[u8], expect_len: usize) -> Result<Vec<u8>, String> {
    let mut d = flate2::Decompress::new(true);
    let mut out: Vec<u8> = Vec::with_capacity(expect_len + 64);
    loop {
        let before_in = d.total_in();
        let before_out = d.total_out();
        let st = d
            .decompress_vec(&z[d.total_in() as usize..], &mut out, flate2::FlushDecompress::Finish)
            .map_err(|e| format!("not a valid zlib stream after {} input bytes: {e}", d.total_in()))?;
        match st {
            flate2::Status::StreamEnd => break,
            _ => {
                if out.len() == out.capacity() {
                    out.reserve(out.capacity().max(4096));
                    continue;
                }
                if d.total_in() == before_in && d.total_out() == before_out {
                    return Err(format!(
                        "zlib stream is incomplete: {} of {} input bytes consumed, {} bytes inflated, no end-of-stream marker",
                        d.total_in(),
                        z.len(),
                        out.len()
                    ));
                }
            }
        }
    }
    if d.total_in() as usize != z.len() {
        return Err(format!("{} trailing bytes after the end of the zlib stream", z.len() - d.total_in() as usize));
    }
    Ok(out)
}

fn first_diff(a: &[u8], b: &[u8]) -> Option<usize> {
    a.iter().zip(b.iter()).position(|(x, y)| x != y).or(if a.len() != b.len() { Some(a.len().min(b.len())) } else { None })
}

const PY_INFLATE: &str = "import sys,zlib,hashlib\nz=open(sys.argv[1],'rb').read()\nd=zlib.decompressobj()\no=d.decompress(z)\nprint(hashlib.sha1(o).hexdigest(),len(o),int(d.eof),len(d.unused_data))\n";

fn python_inflate_digest(path: &std::path::Path) -> Result<String, String> {
    let out = std::process::Command::new("/usr/bin/python3")
        .env_clear()
        .arg("-c")
        .arg(PY_INFLATE)
        .arg(path)
        .output()
        .map_err(|e| format!("spawn python3: {e}"))?;
    if out.status.code().is_none() {
        return Err(format!("python3 killed: {}", out.status));
    }
    if !out.status.success() {
        // zlib.error => the stream is invalid according to python's zlib
        return Ok(format!("error: {}", String::from_utf8_lossy(&out.stderr).lines().last().unwrap_or("")));
    }
    Ok(String::from_utf8_lossy(&out.stdout).trim().to_string())
}

fn kind_name(k: Kind) -> &'static str {
    match k {
        Kind::Commit => "commit",
        Kind::Tree => "tree",
        Kind::Blob => "blob",
        Kind::Tag => "tag",
    }
}

pub fn main() {
    let mut ck = Check::new("C56", "exploration");
    let thorough = ck.is_thorough();
    ck.rule("deflate-chunking: data length from {0..2, small, 32 KiB buffer multiples +-2, <64k, <300k, <1M, 1..4M} x content {zeros, random, text, repetitive, mixed, tape bytes} x chunking {up to 40 writes from {empty, 1 byte, small, BUF-1, BUF, BUF+1, 2*BUF+-1, medium, rest}; uniform writes of 1/7/4096/BUF+-1 bytes; one huge write} x {write_all, manual write loop} x {single, double flush}; a second independent chunking of the same data. hash-consistency: kind x data x write chunking x short-write/short-read patterns. Non-trivial: data > 32 KiB written in >= 3 writes of which one is empty or within 1 of a multiple of the 32 KiB buffer. Distinct by (data hash, chunking).");
    ck.assume("independent inflaters: flate2 decoder driven by the harness (complete stream, no trailing bytes) for every case; python3 zlib (C zlib) for ~1/8 of the cases");
    ck.assume(&format!("hash oracle: harness SHA-1 (sha1_smol) for every case, {} hash-object for ~1/8 of the cases", Git::version()));

    ck.sub("deflate-chunking", SubCfg::new(1_500, 40_000).max_len(420), move |t, c| {
        let mut rng = Rng(t.u64() | 1);
        let (len, lclass) = gen_len(t, thorough);
        let (data, cclass) = gen_data(t, &mut rng, len);
        let ch1 = gen_chunking(t, len);
        let ch2 = gen_chunking(t, len);
        let use_python = t.chance(32);
        c.label(lclass);
        c.label(cclass);
        c.label(if ch1.manual_write { "write-loop" } else { "write_all" });
        c.label_if(ch1.double_flush, "double-flush");
        c.label_if(ch1.sizes.iter().any(|s| *s == 0), "has-empty-write");
        let boundary = |s: &usize| *s > 0 && ((*s + 1) % BUF_SIZE <= 2);
        c.label_if(ch1.sizes.iter().any(boundary), "has-buffer-sized-write");
        c.label_if(ch1.sizes.len() > 100, "uniform-small-writes");
        c.label_if(ch1.sizes.is_empty(), "single-write");
        let nwrites = ch1.sizes.len() + 1;
        c.nontrivial(len > BUF_SIZE && nwrites >= 3 && ch1.sizes.iter().any(|s| *s == 0 || boundary(s)));
        c.key(&(sha1_hex(&data), &ch1, &ch2));
        c.sample_with(|| {
            format!(
                "{len} bytes {cclass}; writes {:?}{} manual={} double_flush={}",
                &ch1.sizes[..ch1.sizes.len().min(12)],
                if ch1.sizes.len() > 12 { format!(".. ({} writes)", ch1.sizes.len()) } else { String::new() },
                ch1.manual_write,
                ch1.double_flush
            )
        });

        let mut outputs = Vec::new();
        for ch in [&ch1, &ch2] {
            let z = match deflate_chunked(&data, ch) {
                Ok(z) => z,
                Err((sig, msg)) => {
                    c.fail_sig(sig, msg);
                    return;
                }
            };
            let back = match inflate_all(&z, data.len()) {
                Ok(b) => b,
                Err(e) => {
                    c.fail_sig("stream-invalid", format!("output of {} bytes for {} input bytes: {e}", z.len(), data.len()));
                    return;
                }
            };
            ensure_sig!(
                c,
                "roundtrip-differs",
                back == data,
                "inflating the output gives {} bytes, input had {} bytes; first difference at {:?}",
                back.len(),
                data.len(),
                first_diff(&back, &data)
            );
            outputs.push(z);
        }
        if use_python {
            c.label("python-zlib");
            let scratch = infra!(c, Scratch::new("c56"), "scratch");
            let p = scratch.join("z");
            infra!(c, std::fs::write(&p, &outputs[0]), "write compressed file");
            let got = infra!(c, python_inflate_digest(&p), "python3 zlib");
            let want = format!("{} {} 1 0", sha1_hex(&data), data.len());
            ensure_sig!(c, "python-zlib-disagrees", got == want, "python3 zlib reports {got:?} for the output, expected {want:?} (sha1 len eof unused)");
        }
    });

    ck.sub("hash-consistency", SubCfg::new(1_500, 40_000).max_len(420).max_shrink(120), move |t, c| {
        let mut rng = Rng(t.u64() | 1);
        let kind = *t.pick(&[Kind::Blob, Kind::Blob, Kind::Tree, Kind::Commit, Kind::Tag]);
        let (len, lclass) = match t.weighted(&[5, 1]) {
            0 => gen_len(t, false),
            _ => {
                // lengths whose decimal representation changes width (header length changes)
                let k = t.range(1, 6) as u32;
                let p = 10usize.pow(k);
                (p + t.range(0, 2) - 1, "len-pow10")
            }
        };
        let len = len.min(1_300_000);
        let (data, cclass) = gen_data(t, &mut rng, len);
        let ch = gen_chunking(t, len);
        let wpat = gen_pattern(t);
        let rpat = gen_pattern(t);
        let use_git = t.chance(32);
        c.label(lclass);
        c.label(cclass);
        c.label(kind_name(kind));
        c.key(&(kind, sha1_hex(&data), &ch, &wpat, &rpat));
        let boundary = |s: &usize| *s > 0 && ((*s + 1) % BUF_SIZE <= 2);
        c.nontrivial(len > BUF_SIZE && ch.sizes.len() + 1 >= 3 && ch.sizes.iter().any(|s| *s == 0 || boundary(s)));
        c.sample_with(|| format!("{} of {len} bytes {cclass}; {} writes; write pattern {wpat:?}; read pattern {rpat:?}", kind_name(kind), ch.sizes.len() + 1));

        let expected = object_sha1(kind_name(kind), &data);
        let header = gix_object::encode::loose_header(kind, data.len() as u64);

        // one call
        let one = gix_object::compute_hash(gix_hash::Kind::Sha1, kind, &data);
        ensure_sig!(c, "compute-hash", one.to_hex().to_string() == expected, "compute_hash = {one}, independent SHA-1 = {expected}");

        // hashing a stream (short reads)
        let mut rd = ShortReader {
            data: &data,
            pattern: rpat.clone(),
            pos: 0,
        };
        let interrupt = std::sync::atomic::AtomicBool::new(false);
        match gix_object::compute_stream_hash(gix_hash::Kind::Sha1, kind, &mut rd, data.len() as u64, &mut gix_features::progress::Discard, &interrupt) {
            Ok(id) => ensure_sig!(c, "stream-hash", id == one && rd.data.is_empty(), "compute_stream_hash = {id} ({} bytes left unread), compute_hash = {one}", rd.data.len()),
            Err(e) => {
                c.fail_sig("stream-hash", format!("compute_stream_hash failed on a reader with short reads: {e}"));
                return;
            }
        }

        // hashing while writing: chunked writes into a sink
        let pieces = |data: &'_ [u8]| -> Vec<(usize, usize)> {
            let mut v = Vec::new();
            let mut pos = 0;
            for s in &ch.sizes {
                let s = (*s).min(data.len() - pos);
                v.push((pos, pos + s));
                pos += s;
            }
            if pos < data.len() {
                v.push((pos, data.len()));
            }
            v
        };
        {
            let mut w = gix_features::hash::Write::new(std::io::sink(), gix_hash::Kind::Sha1);
            let r = w.write_all(&header).and_then(|_| {
                for (a, b) in pieces(&data) {
                    if ch.manual_write {
                        let mut p = &data[a..b];
                        while !p.is_empty() {
                            let n = w.write(p)?;
                            if n == 0 {
                                return Err(std::io::Error::new(std::io::ErrorKind::WriteZero, "write returned 0"));
                            }
                            p = &p[n..];
                        }
                    } else {
                        w.write_all(&data[a..b])?;
                    }
                }
                w.flush()
            });
            ensure!(c, r.is_ok(), "hash::Write over a sink failed: {r:?}");
            let id = gix_hash::ObjectId::from(w.hash.digest());
            ensure_sig!(c, "hash-write", id == one, "hash::Write digest = {id}, compute_hash = {one}");
        }
        // ... into a writer that accepts only part of every write: only accepted bytes may be hashed
        {
            let inner = ShortWriter {
                inner: Vec::new(),
                pattern: wpat.clone(),
                pos: 0,
            };
            let mut w = gix_features::hash::Write::new(inner, gix_hash::Kind::Sha1);
            let r = w.write_all(&header).and_then(|_| {
                for (a, b) in pieces(&data) {
                    w.write_all(&data[a..b])?;
                }
                Ok(())
            });
            ensure!(c, r.is_ok(), "hash::Write over a short writer failed: {r:?}");
            let gix_features::hash::Write { hash, inner } = w;
            let id = gix_hash::ObjectId::from(hash.digest());
            let written = inner.inner;
            ensure_sig!(
                c,
                "hash-write-short",
                written.len() == header.len() + data.len() && written[header.len()..] == data[..],
                "short writer received {} bytes, expected {}",
                written.len(),
                header.len() + data.len()
            );
            ensure_sig!(c, "hash-write-short", id == one, "hash::Write over a short writer: digest = {id}, compute_hash = {one}");
        }
        // ... stacked on the deflate writer, as the loose object store does
        {
            let mut w = gix_features::hash::Write::new(deflate::Write::new(Vec::new()), gix_hash::Kind::Sha1);
            let r = w.write_all(&header).and_then(|_| {
                for (a, b) in pieces(&data) {
                    w.write_all(&data[a..b])?;
                }
                w.flush()
            });
            ensure!(c, r.is_ok(), "hash::Write over deflate::Write failed: {r:?}");
            let gix_features::hash::Write { hash, inner } = w;
            let id = gix_hash::ObjectId::from(hash.digest());
            ensure_sig!(c, "hash-write-deflate", id == one, "hash::Write over deflate::Write: digest = {id}, compute_hash = {one}");
            let z = inner.into_inner();
            match inflate_all(&z, header.len() + data.len()) {
                Ok(back) => ensure_sig!(
                    c,
                    "roundtrip-differs",
                    back.len() == header.len() + data.len() && back[..header.len()] == header[..] && back[header.len()..] == data[..],
                    "hash+deflate stack: inflated {} bytes, expected header {} + {} bytes; first difference at {:?}",
                    back.len(),
                    header.len(),
                    data.len(),
                    first_diff(&back[header.len().min(back.len())..], &data)
                ),
                Err(e) => {
                    c.fail_sig("stream-invalid", format!("hash+deflate stack: {e}"));
                    return;
                }
            }
        }
        // loose store: buffered and streamed writes name the same object
        if len <= 400_000 || use_git {
            use gix_odb::Write as _;
            let scratch = infra!(c, Scratch::new("c56"), "scratch");
            let objects = scratch.join("objects");
            infra!(c, std::fs::create_dir_all(&objects), "mkdir objects");
            let store = gix_odb::loose::Store::at(&objects, gix_hash::Kind::Sha1);
            let mut rd = ShortReader {
                data: &data,
                pattern: rpat.clone(),
                pos: 0,
            };
            let streamed = store.write_stream(kind, data.len() as u64, &mut rd);
            let buffered = store.write_buf(kind, &data);
            match (&streamed, &buffered) {
                (Ok(a), Ok(b)) => {
                    ensure_sig!(c, "loose-write-id", a == b && *a == one, "write_stream id = {a}, write_buf id = {b}, compute_hash = {one}");
                }
                _ => {
                    c.fail(format!("loose store write failed: write_stream {streamed:?}, write_buf {buffered:?}"));
                    return;
                }
            }
            if use_git {
                c.label("git-hash-object");
                let git = Git::new(&scratch.path, &scratch.path);
                let out = infra!(c, git.run_in(["hash-object", "--literally", "-t", kind_name(kind), "--stdin"], Some(&data)), "git hash-object");
                let line = String::from_utf8_lossy(&out).trim().to_string();
                ensure_sig!(c, "git-id", line == one.to_hex().to_string(), "git hash-object = {line}, gitoxide = {one}");
            }
        }
    });

    ck.finish();
}
