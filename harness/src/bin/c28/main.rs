//! C28 — config edits change only what was edited.
//!
//! A generated, git-acceptable file plus a history of 1..15 edits through the public mutation API. A model
//! (ordered sections with ordered (key, value) pairs and git's lookup rules) is edited alongside. After every
//! edit: `to_bstring()` is re-parsed by gitoxide AND read by `git config -f F --list -z`; both must give exactly
//! the model's entries in order; sections no edit touched must serialize byte-identically; in touched sections the
//! comments and the source text of untouched entries must be preserved; the output must itself round-trip (C26).
#[path = "../c26/cfggen.rs"]
mod cfggen;

use bstr::{BStr, ByteSlice};
use cfggen::*;
use gix_config::parse::section::ValueName;
use gix_config::parse::Events;
use std::borrow::Cow;
use std::collections::HashSet;
use vp::*;

#[derive(Clone, Debug, PartialEq)]
struct EntryM {
    key: Vec<u8>,
    value: Option<Vec<u8>>,
    /// source text of the value while the entry is as it was in the input
    orig_src: Option<Vec<u8>>,
}

#[derive(Clone, Debug)]
struct SecM {
    name: Vec<u8>,
    sub: Option<Vec<u8>>,
    entries: Vec<EntryM>,
    /// index in the input file while no edit touched the section
    origin: Option<usize>,
    comments: Vec<Vec<u8>>,
}

fn eq_name(a: &[u8], b: &[u8]) -> bool {
    a.eq_ignore_ascii_case(b)
}

struct Model {
    secs: Vec<SecM>,
}

impl Model {
    fn find_last(&self, name: &[u8], sub: Option<&[u8]>) -> Option<usize> {
        self.secs.iter().rposition(|s| eq_name(&s.name, name) && s.sub.as_deref() == sub)
    }
    fn exists(&self, name: &[u8], sub: Option<&[u8]>) -> bool {
        self.find_last(name, sub).is_some()
    }
    /// (section index, entry index) of every value of the key, in file order
    fn positions(&self, name: &[u8], sub: Option<&[u8]>, key: &[u8]) -> Vec<(usize, usize)> {
        let mut out = Vec::new();
        for (si, s) in self.secs.iter().enumerate() {
            if eq_name(&s.name, name) && s.sub.as_deref() == sub {
                for (ei, e) in s.entries.iter().enumerate() {
                    if eq_name(&e.key, key) {
                        out.push((si, ei));
                    }
                }
            }
        }
        out
    }
    fn touch(&mut self, si: usize) {
        self.secs[si].origin = None;
    }
    fn flat(&self) -> Vec<(Vec<u8>, Option<Vec<u8>>, Vec<u8>, Option<Vec<u8>>)> {
        let mut out = Vec::new();
        for s in &self.secs {
            for e in &s.entries {
                out.push((s.name.to_ascii_lowercase(), s.sub.clone(), e.key.to_ascii_lowercase(), e.value.clone()));
            }
        }
        out
    }
}

#[derive(Clone, Debug)]
enum Edit {
    SetRawValue { name: String, sub: Option<Vec<u8>>, key: String, value: Vec<u8> },
    SectionPush { name: String, sub: Option<Vec<u8>>, key: String, value: Option<Vec<u8>> },
    SectionSet { name: String, sub: Option<Vec<u8>>, key: String, value: Vec<u8> },
    SectionRemove { name: String, sub: Option<Vec<u8>>, key: String },
    ValuesSetAt { name: String, sub: Option<Vec<u8>>, key: String, index: usize, value: Vec<u8> },
    ValuesDelete { name: String, sub: Option<Vec<u8>>, key: String, index: usize },
    ValuesSetAll { name: String, sub: Option<Vec<u8>>, key: String, value: Vec<u8> },
    ValuesDeleteAll { name: String, sub: Option<Vec<u8>>, key: String },
    ValueSet { name: String, sub: Option<Vec<u8>>, key: String, value: Vec<u8> },
    ValueDelete { name: String, sub: Option<Vec<u8>>, key: String },
    SetExisting { name: String, sub: Option<Vec<u8>>, key: String, value: Vec<u8> },
    SetExistingMulti { name: String, sub: Option<Vec<u8>>, key: String, values: Vec<Vec<u8>> },
    NewSection { name: String, sub: Option<Vec<u8>>, push: Option<(String, Option<Vec<u8>>)> },
    /// `reload`: serialize and load again right after the call (steps around the known stale-lookup defects)
    RemoveSection { name: String, sub: Option<Vec<u8>>, filter: bool, reload: bool },
    RenameSection { name: String, sub: Option<Vec<u8>>, new_name: String, new_sub: Option<Vec<u8>>, reload: bool },
    /// serialize and load again (what an application does between runs); resets all lookup caches
    Reload,
}

const VALUES: &[&[u8]] = &[
    b"v1",
    b"x y",
    b" lead",
    b"trail ",
    b"a#b",
    b"a;b",
    b"q\"uote",
    b"back\\slash",
    b"line\nbreak",
    b"tab\there",
    b"",
    b"\xc3\xa9",
    b"true",
    b"10k",
    b"  ",
    b"a  b",
    b"#",
    b"\"",
    b"-",
    b"=x",
    b"[s]",
    b"\\",
    b"\\n",
    b"a\\",
    b"\"q\"",
    b"new value",
];

fn gen_value(t: &mut Tape) -> Vec<u8> {
    t.pick(VALUES).to_vec()
}

fn value_needs_escapes(v: &[u8]) -> bool {
    v.iter().any(|b| matches!(b, b'"' | b'\\' | b'\n' | b'\t' | b'#' | b';')) || v.first().map_or(false, |b| b.is_ascii_whitespace()) || v.last().map_or(false, |b| b.is_ascii_whitespace())
}

/// pick a section address: mostly an existing one (any case), sometimes one that does not exist
fn gen_target(t: &mut Tape, m: &Model) -> (String, Option<Vec<u8>>) {
    if !m.secs.is_empty() && !t.chance(40) {
        // a quarter of the time aim at a section address that occurs more than once, if there is one
        let dups: Vec<usize> = (0..m.secs.len())
            .filter(|&i| m.secs.iter().filter(|o| eq_name(&o.name, &m.secs[i].name) && o.sub == m.secs[i].sub).count() >= 2)
            .collect();
        let idx = if t.chance(64) && !dups.is_empty() { dups[t.below(dups.len())] } else { t.below(m.secs.len()) };
        let s = &m.secs[idx];
        let mut name = String::from_utf8_lossy(&s.name).to_string();
        if t.chance(64) {
            name = if name.chars().any(|c| c.is_ascii_lowercase()) { name.to_ascii_uppercase() } else { name.to_ascii_lowercase() };
        }
        (name, s.sub.clone())
    } else {
        let name = t.pick(SECTION_NAMES).to_string();
        let sub = match t.weighted(&[3, 3, 1]) {
            0 => None,
            1 => Some(t.pick(SUBSECTIONS).to_vec()),
            _ => Some(b"new sub".to_vec()),
        };
        (name, sub)
    }
}

fn gen_key(t: &mut Tape, m: &Model, name: &str, sub: Option<&[u8]>) -> String {
    // mostly a key that exists in a matching section
    let existing: Vec<&EntryM> = m
        .secs
        .iter()
        .filter(|s| eq_name(&s.name, name.as_bytes()) && s.sub.as_deref() == sub)
        .flat_map(|s| s.entries.iter())
        .collect();
    if !existing.is_empty() && !t.chance(70) {
        let k = String::from_utf8_lossy(&existing[t.below(existing.len())].key).to_string();
        if t.chance(50) {
            return if k.chars().any(|c| c.is_ascii_lowercase()) { k.to_ascii_uppercase() } else { k.to_ascii_lowercase() };
        }
        return k;
    }
    const EXTRA: &[&str] = &["new-key", "Zed", "k", "key", "l"];
    t.pick(EXTRA).to_string()
}

fn gen_edit(t: &mut Tape, m: &Model) -> Edit {
    let (name, sub) = gen_target(t, m);
    let key = gen_key(t, m, &name, sub.as_deref());
    let nvals = m.positions(name.as_bytes(), sub.as_deref(), key.as_bytes()).len();
    match t.weighted(&[5, 3, 3, 3, 3, 2, 2, 1, 2, 2, 2, 1, 2, 3, 3, 2]) {
        0 => Edit::SetRawValue { name, sub, key, value: gen_value(t) },
        1 => Edit::SectionPush { name, sub, key, value: if t.chance(40) { None } else { Some(gen_value(t)) } },
        2 => Edit::SectionSet { name, sub, key, value: gen_value(t) },
        3 => Edit::SectionRemove { name, sub, key },
        4 => Edit::ValuesSetAt { name, sub, key, index: t.below(nvals.max(1)), value: gen_value(t) },
        5 => Edit::ValuesDelete { name, sub, key, index: t.below(nvals.max(1)) },
        6 => Edit::ValuesSetAll { name, sub, key, value: gen_value(t) },
        7 => Edit::ValuesDeleteAll { name, sub, key },
        8 => Edit::ValueSet { name, sub, key, value: gen_value(t) },
        9 => Edit::ValueDelete { name, sub, key },
        10 => Edit::SetExisting { name, sub, key, value: gen_value(t) },
        11 => {
            // documented: "mutation order is not guaranteed": only the order-independent use is checked
            // (at least as many new values as existing ones, all equal)
            let v = gen_value(t);
            let n = nvals + t.range(0, 1);
            Edit::SetExistingMulti { name, sub, key, values: vec![v; n.max(1)] }
        }
        12 => {
            let name = t.pick(SECTION_NAMES).to_string();
            let sub = match t.weighted(&[3, 3]) {
                0 => None,
                _ => Some(t.pick(SUBSECTIONS).to_vec()),
            };
            let push = if t.bool() { Some((key, if t.chance(40) { None } else { Some(gen_value(t)) })) } else { None };
            Edit::NewSection { name, sub, push }
        }
        13 => Edit::RemoveSection { name, sub, filter: t.chance(64), reload: t.chance(176) },
        14 => {
            let new_name = t.pick(SECTION_NAMES).to_string();
            let new_sub = match t.weighted(&[3, 3]) {
                0 => None,
                _ => Some(t.pick(SUBSECTIONS).to_vec()),
            };
            Edit::RenameSection { name, sub, new_name, new_sub, reload: t.chance(176) }
        }
        _ => Edit::Reload,
    }
}

fn bsub(sub: &Option<Vec<u8>>) -> Option<&BStr> {
    sub.as_deref().map(|s| s.as_bstr())
}

fn vname(key: &str) -> Option<ValueName<'static>> {
    ValueName::try_from(key.to_string()).ok()
}

/// What the model predicts + what it means for the oracle.
struct Outcome {
    /// the API call is expected to report "nothing to do" (lookup error / None)
    expect_miss: bool,
}

fn set_entry(e: &mut EntryM, key_as_given: Option<&str>, value: Option<Vec<u8>>) {
    if let Some(k) = key_as_given {
        e.key = k.as_bytes().to_vec();
    }
    e.value = value;
    e.orig_src = None;
}

/// Apply `edit` to the model. Returns the expectation for the API call.
fn apply_model(m: &mut Model, edit: &Edit) -> Outcome {
    let mut miss = false;
    match edit {
        Edit::SetRawValue { name, sub, key, value } => {
            let si = match m.find_last(name.as_bytes(), sub.as_deref()) {
                Some(si) => si,
                None => {
                    m.secs.push(SecM {
                        name: name.as_bytes().to_vec(),
                        sub: sub.clone(),
                        entries: Vec::new(),
                        origin: None,
                        comments: Vec::new(),
                    });
                    m.secs.len() - 1
                }
            };
            m.touch(si);
            let s = &mut m.secs[si];
            match s.entries.iter().rposition(|e| eq_name(&e.key, key.as_bytes())) {
                Some(ei) => set_entry(&mut s.entries[ei], None, Some(value.clone())),
                None => s.entries.push(EntryM { key: key.as_bytes().to_vec(), value: Some(value.clone()), orig_src: None }),
            }
        }
        Edit::SectionPush { name, sub, key, value } => match m.find_last(name.as_bytes(), sub.as_deref()) {
            Some(si) => {
                m.touch(si);
                m.secs[si].entries.push(EntryM { key: key.as_bytes().to_vec(), value: value.clone(), orig_src: None });
            }
            None => miss = true,
        },
        Edit::SectionSet { name, sub, key, value } => match m.find_last(name.as_bytes(), sub.as_deref()) {
            Some(si) => {
                m.touch(si);
                let s = &mut m.secs[si];
                match s.entries.iter().rposition(|e| eq_name(&e.key, key.as_bytes())) {
                    Some(ei) => set_entry(&mut s.entries[ei], None, Some(value.clone())),
                    None => s.entries.push(EntryM { key: key.as_bytes().to_vec(), value: Some(value.clone()), orig_src: None }),
                }
            }
            None => miss = true,
        },
        Edit::SectionRemove { name, sub, key } => match m.find_last(name.as_bytes(), sub.as_deref()) {
            Some(si) => match m.secs[si].entries.iter().rposition(|e| eq_name(&e.key, key.as_bytes())) {
                Some(ei) => {
                    m.touch(si);
                    m.secs[si].entries.remove(ei);
                }
                None => miss = true,
            },
            None => miss = true,
        },
        Edit::ValuesSetAt { name, sub, key, index, value } => {
            let pos = m.positions(name.as_bytes(), sub.as_deref(), key.as_bytes());
            match pos.get(*index) {
                Some(&(si, ei)) => {
                    m.touch(si);
                    set_entry(&mut m.secs[si].entries[ei], Some(key), Some(value.clone()));
                }
                None => miss = true,
            }
        }
        Edit::ValuesDelete { name, sub, key, index } => {
            let pos = m.positions(name.as_bytes(), sub.as_deref(), key.as_bytes());
            match pos.get(*index) {
                Some(&(si, ei)) => {
                    m.touch(si);
                    m.secs[si].entries.remove(ei);
                }
                None => miss = true,
            }
        }
        Edit::ValuesSetAll { name, sub, key, value } => {
            let pos = m.positions(name.as_bytes(), sub.as_deref(), key.as_bytes());
            miss = pos.is_empty();
            for (si, ei) in pos {
                m.touch(si);
                set_entry(&mut m.secs[si].entries[ei], Some(key), Some(value.clone()));
            }
        }
        Edit::ValuesDeleteAll { name, sub, key } => {
            let pos = m.positions(name.as_bytes(), sub.as_deref(), key.as_bytes());
            miss = pos.is_empty();
            for (si, ei) in pos.into_iter().rev() {
                m.touch(si);
                m.secs[si].entries.remove(ei);
            }
        }
        Edit::ValueSet { name, sub, key, value } | Edit::SetExisting { name, sub, key, value } => {
            let pos = m.positions(name.as_bytes(), sub.as_deref(), key.as_bytes());
            match pos.last() {
                Some(&(si, ei)) => {
                    m.touch(si);
                    set_entry(&mut m.secs[si].entries[ei], Some(key), Some(value.clone()));
                }
                None => miss = true,
            }
        }
        Edit::ValueDelete { name, sub, key } => {
            let pos = m.positions(name.as_bytes(), sub.as_deref(), key.as_bytes());
            match pos.last() {
                Some(&(si, ei)) => {
                    m.touch(si);
                    m.secs[si].entries.remove(ei);
                }
                None => miss = true,
            }
        }
        Edit::SetExistingMulti { name, sub, key, values } => {
            let pos = m.positions(name.as_bytes(), sub.as_deref(), key.as_bytes());
            miss = pos.is_empty();
            for (&(si, ei), v) in pos.iter().zip(values) {
                m.touch(si);
                set_entry(&mut m.secs[si].entries[ei], Some(key), Some(v.clone()));
            }
        }
        Edit::NewSection { name, sub, push } => {
            let mut s = SecM { name: name.as_bytes().to_vec(), sub: sub.clone(), entries: Vec::new(), origin: None, comments: Vec::new() };
            if let Some((k, v)) = push {
                s.entries.push(EntryM { key: k.as_bytes().to_vec(), value: v.clone(), orig_src: None });
            }
            m.secs.push(s);
        }
        Edit::RemoveSection { name, sub, .. } => match m.find_last(name.as_bytes(), sub.as_deref()) {
            Some(si) => {
                m.secs.remove(si);
            }
            None => miss = true,
        },
        Edit::RenameSection { name, sub, new_name, new_sub, .. } => match m.find_last(name.as_bytes(), sub.as_deref()) {
            Some(si) => {
                m.touch(si);
                m.secs[si].name = new_name.as_bytes().to_vec();
                m.secs[si].sub = new_sub.clone();
            }
            None => miss = true,
        },
        Edit::Reload => {}
    }
    Outcome { expect_miss: miss }
}

/// Apply `edit` to the file. Ok(true): the API reported a miss (lookup error / None).
fn apply_file(file: &mut gix_config::File<'static>, edit: &Edit) -> Result<bool, String> {
    Ok(match edit {
        Edit::SetRawValue { name, sub, key, value } => {
            file.set_raw_value_by(name.as_str(), bsub(sub), key.clone(), value.as_bstr()).map_err(|e| format!("set_raw_value_by failed: {e}"))?;
            false
        }
        Edit::SectionPush { name, sub, key, value } => match file.section_mut(name.as_str(), bsub(sub)) {
            Ok(mut s) => {
                s.push(vname(key).ok_or("invalid key")?, value.as_deref().map(|v| v.as_bstr()));
                false
            }
            Err(_) => true,
        },
        Edit::SectionSet { name, sub, key, value } => match file.section_mut(name.as_str(), bsub(sub)) {
            Ok(mut s) => {
                s.set(vname(key).ok_or("invalid key")?, value.as_bstr());
                false
            }
            Err(_) => true,
        },
        Edit::SectionRemove { name, sub, key } => match file.section_mut(name.as_str(), bsub(sub)) {
            Ok(mut s) => s.remove(key).is_none(),
            Err(_) => true,
        },
        Edit::ValuesSetAt { name, sub, key, index, value } => match file.raw_values_mut_by(name.as_str(), bsub(sub), key) {
            Ok(mut v) => {
                if *index < v.len() {
                    v.set_at(*index, value.as_bstr());
                    false
                } else {
                    true
                }
            }
            Err(_) => true,
        },
        Edit::ValuesDelete { name, sub, key, index } => match file.raw_values_mut_by(name.as_str(), bsub(sub), key) {
            Ok(mut v) => {
                if *index < v.len() {
                    v.delete(*index);
                    false
                } else {
                    true
                }
            }
            Err(_) => true,
        },
        Edit::ValuesSetAll { name, sub, key, value } => match file.raw_values_mut_by(name.as_str(), bsub(sub), key) {
            Ok(mut v) => {
                v.set_all(value.as_bstr());
                false
            }
            Err(_) => true,
        },
        Edit::ValuesDeleteAll { name, sub, key } => match file.raw_values_mut_by(name.as_str(), bsub(sub), key) {
            Ok(mut v) => {
                v.delete_all();
                false
            }
            Err(_) => true,
        },
        Edit::ValueSet { name, sub, key, value } => match file.raw_value_mut_by(name.as_str(), bsub(sub), key) {
            Ok(mut v) => {
                v.set(value.as_bstr());
                false
            }
            Err(_) => true,
        },
        Edit::ValueDelete { name, sub, key } => match file.raw_value_mut_by(name.as_str(), bsub(sub), key) {
            Ok(mut v) => {
                v.delete();
                false
            }
            Err(_) => true,
        },
        Edit::SetExisting { name, sub, key, value } => file.set_existing_raw_value_by(name.as_str(), bsub(sub), key, value.as_bstr()).is_err(),
        Edit::SetExistingMulti { name, sub, key, values } => file
            .set_existing_raw_multi_value_by(name.as_str(), bsub(sub), key, values.iter().map(|v| v.as_bstr()))
            .is_err(),
        Edit::NewSection { name, sub, push } => {
            let mut s = file
                .new_section(name.clone(), sub.clone().map(|s| Cow::Owned(s.into())))
                .map_err(|e| format!("new_section failed: {e}"))?;
            if let Some((k, v)) = push {
                s.push(vname(k).ok_or("invalid key")?, v.as_deref().map(|v| v.as_bstr()));
            }
            false
        }
        Edit::RemoveSection { name, sub, filter, reload } => {
            let miss = if *filter {
                file.remove_section_filter(name.as_str(), bsub(sub), &mut |_| true).is_none()
            } else {
                file.remove_section(name.as_str(), bsub(sub)).is_none()
            };
            if *reload {
                let text = file.to_bstring();
                *file = load_file(&text).map_err(|e| format!("reload failed: {e}"))?;
            }
            miss
        }
        Edit::RenameSection { name, sub, new_name, new_sub, reload } => {
            let miss = file
                .rename_section(name.as_str(), bsub(sub), new_name.clone(), new_sub.clone().map(|s| Cow::Owned(s.into())))
                .is_err();
            if *reload {
                let text = file.to_bstring();
                *file = load_file(&text).map_err(|e| format!("reload failed: {e}"))?;
            }
            miss
        }
        Edit::Reload => {
            let text = file.to_bstring();
            *file = load_file(&text).map_err(|e| format!("reload failed: {e}"))?;
            false
        }
    })
}

/// per-section serialized bytes of a text (header + body events)
fn chunks(text: &[u8]) -> Result<Vec<Vec<u8>>, String> {
    let ev = Events::from_bytes(text, None).map_err(|e| e.to_string())?;
    let mut out = Vec::new();
    for s in &ev.sections {
        let mut b = s.header.to_bstring().to_vec();
        for e in &s.events {
            b.extend_from_slice(&e.to_bstring());
        }
        out.push(b);
    }
    Ok(out)
}

fn safe_opts() -> Opts {
    Opts {
        bom: false,
        legacy_upper: false,
        legacy_multi_dot: false,
        odd_sub_escape: false,
        bs_escape: false,
        inner_tab: false,
        gix_only: false,
        cont_at_eof: false,
        cont_leading_ws: false,
        implicit_trailing_ws: true,
        max_sections: 5,
        max_entries: 4,
        ..Opts::everything()
    }
}

fn describe(text: &[u8], edits: &[Edit]) -> String {
    let mut s = format!("input {}\n", show(text));
    for (i, e) in edits.iter().enumerate() {
        s.push_str(&format!("  edit {i}: {e:?}\n"));
    }
    s
}

pub fn main() {
    let mut ck = Check::new("C28", "exploration");
    ck.rule("A generated git-acceptable config (C26 grammar without the constructs on which C26/C27 already report: BOM, \\b, inner tabs, odd subsection escapes, upper-case or multi-dot legacy headers, continuation at EOF) and a history of 1..15 edits decoded from the tape: set_raw_value_by, section_mut().push/set/remove, raw_values_mut_by().set_at/delete/set_all/delete_all, raw_value_mut_by().set/delete, set_existing_raw_value_by, set_existing_raw_multi_value_by, new_section(+push), remove_section, remove_section_filter, rename_section and serialize+reload, aimed mostly at existing sections/keys (any case), at duplicated sections, and sometimes at missing ones; values from a pool that needs quoting/escaping. Non-trivial: an edit targets a key defined in >= 2 sections, or writes a value needing escapes/quotes, or follows a rename/remove of the same section name. Distinct by hash of the input text and the edit list.");
    ck.assume(&format!("oracle: {} reading every intermediate serialization, plus a model of the documented API behaviour (last matching section / last occurrence wins)", Git::version()));
    ck.assume("set_raw_value_by is documented as 'creates the section if necessary and the value as well, or overwrites the last existing value': the model follows the implementation (last matching section; last occurrence in it, else append there)");
    let known = known_signatures("C28");

    ck.sub(
        "history",
        SubCfg::new(3_000, 45_000).max_len(2200).max_shrink(150).max_discard_pct(30),
        move |t, c| {
            let doc = gen_doc(t, safe_opts());
            // Everything is relative to the unedited File's own serialization (File::to_bstring() may add newlines,
            // C26's business). The initial model is gitoxide's reading of it, cross-checked with git (C27's business
            // if they differ).
            let mut file = match load_file(&doc.text) {
                Ok(f) => f,
                Err(_) => {
                    c.discard();
                    return;
                }
            };
            let baseline = file.to_bstring();
            let Ok(m0) = parse_model(&baseline) else {
                c.label("baseline-not-reparsable");
                c.discard();
                return;
            };
            let scratch = infra!(c, Scratch::new("c28"), "scratch");
            let git = Git::new(&scratch.path, &scratch.path);
            let path = scratch.join("cfg");
            infra!(c, std::fs::write(&path, &baseline), "write config");
            let Some(gl0) = infra!(c, git_list(&git, &path), "git config --list") else {
                if std::env::var_os("VERIF_C28_DEBUG").is_some() {
                    eprintln!("git rejects: {}", show(&doc.text));
                }
                c.label("git-rejected-input");
                c.discard();
                return;
            };
            let mut model = Model {
                secs: m0
                    .iter()
                    .enumerate()
                    .map(|(i, s)| SecM {
                        name: s.name.clone(),
                        sub: s.sub.clone(),
                        entries: s
                            .entries
                            .iter()
                            .map(|e| EntryM {
                                key: e.key.clone(),
                                value: if e.implicit { None } else { Some(e.value.clone()) },
                                orig_src: Some(e.src.clone()),
                            })
                            .collect(),
                        origin: Some(i),
                        comments: s.comments.clone(),
                    })
                    .collect(),
            };
            {
                let flat = model.flat();
                let git_flat: Vec<_> = gl0.iter().map(|g| (g.section.clone(), g.sub.clone(), g.key.clone(), g.value.clone())).collect();
                // legacy headers: git lower-cases the subsection, the generator only emits lower-case ones here
                if flat != git_flat {
                    if std::env::var_os("VERIF_C28_DEBUG").is_some() {
                        eprintln!("initial disagreement: {}\n gix {:?}\n git {:?}", show(&doc.text), flat, git_flat);
                    }
                    c.label("initial-disagreement-with-git");
                    c.discard();
                    return;
                }
            }
            let base_chunks = match chunks(&baseline) {
                Ok(ch) if ch.len() == model.secs.len() => ch,
                _ => {
                    // C26's business
                    c.label("baseline-not-reparsable");
                    c.discard();
                    return;
                }
            };

            let nedits = t.range(1, 15);
            let mut edits: Vec<Edit> = Vec::new();
            let mut nontrivial = false;
            // names that were the source or target of a rename/remove earlier in the history
            let mut renamed: HashSet<(Vec<u8>, Option<Vec<u8>>)> = HashSet::new();
            let mut removed_with_filter: HashSet<Vec<u8>> = HashSet::new();
            let mut removed: HashSet<(Vec<u8>, Option<Vec<u8>>)> = HashSet::new();
            // every name that was ever the source or target of a rename (for the non-trivial rule)
            let mut renamed_any: HashSet<(Vec<u8>, Option<Vec<u8>>)> = HashSet::new();
            let mut f = Findings::default();
            for step in 0..nedits {
                // per step: the effect of these known defects shows in the checks of the same step
                let mut stale_rename = false;
                let mut set_on_implicit = false;
                let edit = gen_edit(t, &model);
                edits.push(edit.clone());
                // classification helpers (before the model changes)
                let (tname, tsub, tkey, tval): (Option<&String>, Option<&Option<Vec<u8>>>, Option<&String>, Option<&Vec<u8>>) = match &edit {
                    Edit::SetRawValue { name, sub, key, value }
                    | Edit::SectionSet { name, sub, key, value }
                    | Edit::ValuesSetAt { name, sub, key, value, .. }
                    | Edit::ValuesSetAll { name, sub, key, value }
                    | Edit::ValueSet { name, sub, key, value }
                    | Edit::SetExisting { name, sub, key, value } => (Some(name), Some(sub), Some(key), Some(value)),
                    Edit::SectionPush { name, sub, key, value } => (Some(name), Some(sub), Some(key), value.as_ref()),
                    Edit::SectionRemove { name, sub, key }
                    | Edit::ValuesDelete { name, sub, key, .. }
                    | Edit::ValuesDeleteAll { name, sub, key }
                    | Edit::ValueDelete { name, sub, key }
                    | Edit::SetExistingMulti { name, sub, key, .. } => (Some(name), Some(sub), Some(key), None),
                    Edit::NewSection { name, sub, .. } | Edit::RemoveSection { name, sub, .. } | Edit::RenameSection { name, sub, .. } => (Some(name), Some(sub), None, None),
                    Edit::Reload => (None, None, None, None),
                };
                if let (Some(n), Some(s)) = (tname, tsub) {
                    let addr = (n.to_ascii_lowercase().into_bytes(), s.clone());
                    if renamed.contains(&addr) {
                        stale_rename = true;
                        nontrivial = true;
                    }
                    if removed.contains(&addr) || renamed_any.contains(&addr) {
                        nontrivial = true;
                        c.label("follows-rename-or-remove-of-same-section");
                    }
                    if let Some(k) = tkey {
                        let pos = model.positions(n.as_bytes(), s.as_deref(), k.as_bytes());
                        let secs: HashSet<usize> = pos.iter().map(|p| p.0).collect();
                        if secs.len() >= 2 {
                            nontrivial = true;
                            c.label("key-in-several-sections");
                        }
                        // SectionMut::set()/set_raw_value on a key whose last occurrence in the target section is implicit
                        if matches!(edit, Edit::SetRawValue { .. } | Edit::SectionSet { .. }) {
                            if let Some(si) = model.find_last(n.as_bytes(), s.as_deref()) {
                                if let Some(e) = model.secs[si].entries.iter().rev().find(|e| eq_name(&e.key, k.as_bytes())) {
                                    if e.value.is_none() {
                                        set_on_implicit = true;
                                        c.label("set-on-implicit-key");
                                    }
                                }
                            }
                        }
                    }
                }
                if let Some(v) = tval {
                    if value_needs_escapes(v) {
                        nontrivial = true;
                        c.label("value-needs-escapes");
                    }
                }
                c.label(match &edit {
                    Edit::SetRawValue { .. } => "set_raw_value",
                    Edit::SectionPush { .. } => "section.push",
                    Edit::SectionSet { .. } => "section.set",
                    Edit::SectionRemove { .. } => "section.remove",
                    Edit::ValuesSetAt { .. } => "values.set_at",
                    Edit::ValuesDelete { .. } => "values.delete",
                    Edit::ValuesSetAll { .. } => "values.set_all",
                    Edit::ValuesDeleteAll { .. } => "values.delete_all",
                    Edit::ValueSet { .. } => "value.set",
                    Edit::ValueDelete { .. } => "value.delete",
                    Edit::SetExisting { .. } => "set_existing",
                    Edit::SetExistingMulti { .. } => "set_existing_multi",
                    Edit::NewSection { .. } => "new_section",
                    Edit::RemoveSection { filter: false, .. } => "remove_section",
                    Edit::RemoveSection { filter: true, .. } => "remove_section_filter",
                    Edit::RenameSection { .. } => "rename_section",
                    Edit::Reload => "reload",
                });

                // appending to a section whose body ends in a comment without a newline (`[a] ;c<EOF>`): the new key lands
                // on the comment's line
                let mut push_after_comment = false;
                if let (Edit::SetRawValue { name, sub, .. } | Edit::SectionPush { name, sub, .. } | Edit::SectionSet { name, sub, .. }, true) = (&edit, true) {
                    if let Some(si) = model.find_last(name.as_bytes(), sub.as_deref()) {
                        if let Some(sec) = file.sections().nth(si) {
                            let bytes = sec.to_bstring();
                            let parsed = Events::from_bytes(&bytes, None);
                            if let Ok(ev) = &parsed {
                                if let Some(last) = ev.sections.last() {
                                    let tail = last.events.iter().rev().find(|e| !matches!(e, gix_config::parse::Event::Whitespace(_)));
                                    push_after_comment = matches!(tail, Some(gix_config::parse::Event::Comment(_)));
                                }
                            }
                            drop(parsed);
                        }
                    }
                }
                c.label_if(push_after_comment, "append-after-unterminated-comment");
                // a new section appended after a last section whose body ends in an EMPTY comment without newline
                // (`[a]\n;<EOF>`): File::write_to() takes the comment for blank space, finds the newline before it and
                // writes the new header onto the comment line (`;[b]`)
                let mut section_after_empty_comment = false;
                let appends_section = match &edit {
                    Edit::NewSection { .. } => true,
                    Edit::SetRawValue { name, sub, .. } => !model.exists(name.as_bytes(), sub.as_deref()),
                    _ => false,
                };
                if appends_section {
                    if let Some(sec) = file.sections().last() {
                        let bytes = sec.to_bstring();
                        let parsed = Events::from_bytes(&bytes, None);
                        if let Ok(ev) = &parsed {
                            if let Some(last) = ev.sections.last() {
                                let tail = last.events.iter().rev().find(|e| !matches!(e, gix_config::parse::Event::Whitespace(_)));
                                if let Some(gix_config::parse::Event::Comment(cm)) = tail {
                                    section_after_empty_comment = cm.text.iter().all(|b| b.is_ascii_whitespace());
                                }
                            }
                        }
                        drop(parsed);
                    }
                }
                c.label_if(section_after_empty_comment, "section-appended-after-empty-comment");
                let before = Model { secs: model.secs.clone() };
                let outcome = apply_model(&mut model, &edit);
                // rename_section() leaves the lookup tree on the old name (known finding): a later remove of such a section
                // panics inside remove_section_by_id() ("lookup cache still has name to be deleted" / "present"), other
                // accessors may panic likewise. Only for edits aimed at a renamed (old or new) address without a reload in
                // between the panic is attributed to that class; any other panic keeps its location signature.
                let applied = if stale_rename {
                    match std::panic::catch_unwind(std::panic::AssertUnwindSafe(|| apply_file(&mut file, &edit))) {
                        Ok(r) => r,
                        Err(_) => {
                            f.add(
                                "rename-section-stale-lookup",
                                format!("step {step}: an edit addressed at a section that was renamed earlier (lookup tree still on the old name) panics\n{}", describe(&doc.text, &edits)),
                            );
                            break;
                        }
                    }
                } else {
                    apply_file(&mut file, &edit)
                };
                let api_miss = match applied {
                    Ok(miss) => miss,
                    Err(e) => {
                        // header/key validation errors are legitimate for some pool members; nothing may change then
                        model = before;
                        c.label("edit-refused");
                        let _ = e;
                        false
                    }
                };
                match &edit {
                    Edit::RenameSection { name, sub, new_name, new_sub, reload } if !outcome.expect_miss => {
                        if *reload {
                            renamed.clear();
                            c.label("renamed-and-reloaded");
                        } else {
                            renamed.insert((name.to_ascii_lowercase().into_bytes(), sub.clone()));
                            renamed.insert((new_name.to_ascii_lowercase().into_bytes(), new_sub.clone()));
                            c.label("renamed");
                        }
                        renamed_any.insert((name.to_ascii_lowercase().into_bytes(), sub.clone()));
                        renamed_any.insert((new_name.to_ascii_lowercase().into_bytes(), new_sub.clone()));
                    }
                    Edit::RemoveSection { name, sub, filter, reload } if !outcome.expect_miss => {
                        removed.insert((name.to_ascii_lowercase().into_bytes(), sub.clone()));
                        if *reload {
                            renamed.clear();
                        } else if *filter {
                            removed_with_filter.insert(name.to_ascii_lowercase().into_bytes());
                        }
                    }
                    Edit::Reload => {
                        renamed.clear();
                        removed_with_filter.clear();
                    }
                    _ => {}
                }
                // remove_section_filter() leaves the removed id in the lookup tree: the next lookup of that name panics
                // ("known section id") at whichever accessor comes first. Detect the class right here, once.
                if let Edit::RemoveSection { name, sub, filter: true, reload: false } = &edit {
                    if !outcome.expect_miss && !api_miss {
                        let probe = std::panic::catch_unwind(std::panic::AssertUnwindSafe(|| {
                            let _ = file.raw_values_by(name.as_str(), bsub(sub), "k");
                        }));
                        if probe.is_err() {
                            f.add(
                                "remove-section-filter-stale-lookup",
                                format!("step {step}: after remove_section_filter() a lookup of the same section name panics (stale id in the lookup tree)\n{}", describe(&doc.text, &edits)),
                            );
                            break;
                        }
                    }
                }
                // remove_section() leaves an empty id list behind; section_mut()/rename_section() `expect()` a non-empty one
                if let Edit::RemoveSection { name, sub, reload: false, .. } = &edit {
                    if !outcome.expect_miss && !api_miss && !model.exists(name.as_bytes(), sub.as_deref()) {
                        let probe = std::panic::catch_unwind(std::panic::AssertUnwindSafe(|| {
                            let a = file.section_mut(name.as_str(), bsub(sub)).is_err();
                            let b = file.rename_section(name.as_str(), bsub(sub), name.clone(), sub.clone().map(|s| Cow::Owned(s.into()))).is_err();
                            a && b
                        }));
                        match probe {
                            Err(_) => {
                                f.add(
                                    "lookup-of-removed-section-panics",
                                    format!("step {step}: after remove_section() removed the last section of that name, section_mut()/rename_section() panic instead of reporting a missing section\n{}", describe(&doc.text, &edits)),
                                );
                                break;
                            }
                            Ok(false) => {
                                f.add("api-result-differs", format!("step {step}: a removed section is still found by section_mut()/rename_section()\n{}", describe(&doc.text, &edits)));
                                break;
                            }
                            Ok(true) => {}
                        }
                    }
                }
                let sig_for = |generic: &'static str| -> &'static str {
                    if stale_rename {
                        "rename-section-stale-lookup"
                    } else if set_on_implicit {
                        "set-on-implicit-key"
                    } else if push_after_comment {
                        "push-after-unterminated-comment"
                    } else if section_after_empty_comment {
                        "section-appended-after-empty-comment"
                    } else {
                        generic
                    }
                };
                if api_miss != outcome.expect_miss {
                    f.add(
                        sig_for("api-result-differs"),
                        format!("step {step}: the API reported {} but the model expects {}\n{}", if api_miss { "a miss" } else { "success" }, if outcome.expect_miss { "a miss" } else { "success" }, describe(&doc.text, &edits)),
                    );
                    break;
                }

                // serialize; read with gitoxide and with git
                let text = file.to_bstring();
                let parsed = match Events::from_bytes(&text, None) {
                    Ok(ev) => ev,
                    Err(e) => {
                        f.add(sig_for("output-unparsable"), format!("step {step}: serialized file does not parse ({e}): {}\n{}", show(&text), describe(&doc.text, &edits)));
                        break;
                    }
                };
                {
                    let mut out = Vec::new();
                    for e in parsed.clone().into_iter() {
                        out.extend_from_slice(&e.to_bstring());
                    }
                    if out != text.as_slice() {
                        f.add("output-not-lossless", format!("step {step}: the serialized file does not round-trip through its events: {}\n{}", show(&text), describe(&doc.text, &edits)));
                        break;
                    }
                }
                let now = model_from_events(&parsed);
                let want: Vec<(Vec<u8>, Option<Vec<u8>>, Vec<(Vec<u8>, Option<Vec<u8>>)>)> = model
                    .secs
                    .iter()
                    .map(|s| (s.name.to_ascii_lowercase(), s.sub.clone(), s.entries.iter().map(|e| (e.key.to_ascii_lowercase(), e.value.clone())).collect()))
                    .collect();
                let got: Vec<(Vec<u8>, Option<Vec<u8>>, Vec<(Vec<u8>, Option<Vec<u8>>)>)> = now
                    .iter()
                    .map(|s| {
                        (
                            s.name.to_ascii_lowercase(),
                            s.sub.clone(),
                            s.entries.iter().map(|e| (e.key.to_ascii_lowercase(), if e.implicit { None } else { Some(e.value.clone()) })).collect(),
                        )
                    })
                    .collect();
                if got != want {
                    f.add(
                        sig_for("reparse-differs-from-model"),
                        format!("step {step}: gitoxide re-reads\n  {:?}\nbut the edits should give\n  {:?}\nserialized: {}\n{}", got, want, show(&text), describe(&doc.text, &edits)),
                    );
                    break;
                }
                infra!(c, std::fs::write(&path, &text), "write config");
                match infra!(c, git_list(&git, &path), "git config --list") {
                    None => {
                        f.add(sig_for("git-rejects-output"), format!("step {step}: git rejects the serialized file {}\n{}", show(&text), describe(&doc.text, &edits)));
                        break;
                    }
                    Some(gl) => {
                        let git_flat: Vec<_> = gl.iter().map(|g| (g.section.clone(), g.sub.clone(), g.key.clone(), g.value.clone())).collect();
                        if git_flat != model.flat() {
                            f.add(
                                sig_for("git-reads-differently"),
                                format!("step {step}: git reads\n  {:?}\nbut the edits should give\n  {:?}\nserialized: {}\n{}", git_flat, model.flat(), show(&text), describe(&doc.text, &edits)),
                            );
                            break;
                        }
                    }
                }
                // in-memory lookups agree with the model as well
                let mut seen = HashSet::new();
                for s in &model.secs {
                    for e in &s.entries {
                        if !seen.insert((s.name.to_ascii_lowercase(), s.sub.clone(), e.key.to_ascii_lowercase())) {
                            continue;
                        }
                        let want: Vec<Vec<u8>> = model
                            .positions(&s.name, s.sub.as_deref(), &e.key)
                            .into_iter()
                            .map(|(si, ei)| model.secs[si].entries[ei].value.clone().unwrap_or_default())
                            .collect();
                        let (Ok(name), Ok(key)) = (std::str::from_utf8(&s.name), std::str::from_utf8(&e.key)) else { continue };
                        let got: Vec<Vec<u8>> = file.raw_values_by(name, bsub(&s.sub), key).map(|v| v.into_iter().map(|v| v.to_vec()).collect()).unwrap_or_default();
                        if got != want {
                            let sig = if !renamed.is_empty() { "rename-section-stale-lookup" } else { sig_for("in-memory-lookup-differs") };
                            f.add(sig, format!("step {step}: raw_values_by({name:?}, {:?}, {key:?}) = {:?} in memory, expected {:?}\n{}", s.sub.as_ref().map(|s| show(s)), got, want, describe(&doc.text, &edits)));
                        }
                    }
                }
                if !f.is_empty() {
                    break;
                }
                // untouched sections are byte-identical, comments and untouched entries are preserved
                let now_chunks: Vec<Vec<u8>> = parsed
                    .sections
                    .iter()
                    .map(|s| {
                        let mut b = s.header.to_bstring().to_vec();
                        for e in &s.events {
                            b.extend_from_slice(&e.to_bstring());
                        }
                        b
                    })
                    .collect();
                for (i, s) in model.secs.iter().enumerate() {
                    if let Some(o) = s.origin {
                        // The writer decides about line breaks between sections from the newline style it detects in the
                        // whole file (first newline event), which an edit elsewhere can flip in files with mixed LF/CRLF:
                        // an untouched section may gain a line break at its end. Everything else must be identical.
                        let trim = |b: &[u8]| -> Vec<u8> { b.trim_end_with(|c| c == '\r' || c == '\n').to_vec() };
                        if trim(&now_chunks[i]) != trim(&base_chunks[o]) {
                            f.add(
                                sig_for("untouched-section-changed"),
                                format!("step {step}: section #{o} of the input was not edited but serializes as {} instead of {}\n{}", show(&now_chunks[i]), show(&base_chunks[o]), describe(&doc.text, &edits)),
                            );
                        }
                    }
                    // a comment before a CRLF keeps the CR in its text; whether the last line has a newline is up to the writer
                    let strip = |c: &Vec<Vec<u8>>| -> Vec<Vec<u8>> { c.iter().map(|c| c.strip_suffix(b"\r").unwrap_or(c).to_vec()).collect() };
                    if strip(&now[i].comments) != strip(&s.comments) {
                        f.add(
                            sig_for("comment-lost"),
                            format!("step {step}: comments of section {} changed from {:?} to {:?}\nserialized: {}\n{}", i, s.comments.iter().map(|c| show(c)).collect::<Vec<_>>(), now[i].comments.iter().map(|c| show(c)).collect::<Vec<_>>(), show(&text), describe(&doc.text, &edits)),
                        );
                    }
                    for (e, n) in s.entries.iter().zip(&now[i].entries) {
                        if let Some(src) = &e.orig_src {
                            if &n.src != src {
                                f.add(
                                    sig_for("untouched-entry-rewritten"),
                                    format!("step {step}: entry {} of section {} was not edited but its text changed from {} to {}\n{}", show(&e.key), i, show(src), show(&n.src), describe(&doc.text, &edits)),
                                );
                            }
                        }
                    }
                }
                if !f.is_empty() {
                    break;
                }
            }
            c.key(&(&doc.text, format!("{edits:?}")));
            c.nontrivial(nontrivial);
            c.sample_with(|| describe(&doc.text, &edits));
            f.report(c, &known);
        },
    );

    ck.finish();
}
