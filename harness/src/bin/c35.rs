//! C35 — credential helper messages cannot be forged: `Context::write_to` either refuses or writes exactly one
//! `key=value` line per set field, and `Context::from_bytes` gives the same fields back.
use bstr::{BString, ByteSlice};
use gix_credentials::protocol::Context;
use vp::*;

#[derive(Clone, Copy, PartialEq, Eq, Debug)]
enum Class {
    Plain,
    Equals,
    Spaces,
    Empty,
    CrEmbedded,
    CrTrailing,
    CrOnly,
    Unicode,
    RawBytes,
    Lf,
    Nul,
    InjectLf,
    InjectCr,
    InjectCrLf,
    InjectNul,
}

const KEYS: &[&str] = &["protocol", "host", "path", "username", "password", "url", "quit", "capability[]", "x"];

fn token(t: &mut Tape) -> Vec<u8> {
    match t.weighted(&[5, 2, 1]) {
        0 => t.string_of(b"abcxyz019.-_/:@", 1, 8),
        1 => t.pick(&["https", "example.com", "example.com:8088", "user", "s3cret", "repo.git", "https://u:p@h/p"]).as_bytes().to_vec(),
        _ => t.string_of(b"ab =\t#%&;!'\"\\", 1, 8),
    }
}

fn attribute(t: &mut Tape) -> Vec<u8> {
    let mut v = t.pick(KEYS).as_bytes().to_vec();
    v.push(b'=');
    v.extend(token(t));
    v
}

/// A field value. `clean_only`: never LF/NUL. `bytes_ok`: field is a byte string (url, path), else it must be UTF-8.
fn gen_value(t: &mut Tape, clean_only: bool, trailing_cr_ok: bool, bytes_ok: bool) -> (Vec<u8>, Class) {
    use Class::*;
    let classes: &[(Class, u32)] = &[
        (Plain, 8),
        (Equals, 3),
        (Spaces, 2),
        (Empty, 1),
        (CrEmbedded, 2),
        (CrTrailing, 2),
        (CrOnly, 1),
        (Unicode, 2),
        (RawBytes, 2),
        (Lf, 2),
        (Nul, 2),
        (InjectLf, 3),
        (InjectCr, 2),
        (InjectCrLf, 2),
        (InjectNul, 1),
    ];
    let n = if clean_only { 9 } else { classes.len() };
    let weights: Vec<u32> = classes[..n].iter().map(|c| c.1).collect();
    let mut class = classes[t.weighted(&weights)].0;
    if class == RawBytes && !bytes_ok {
        class = Unicode;
    }
    if (class == CrTrailing || class == CrOnly) && !trailing_cr_ok {
        class = CrEmbedded;
    }
    let v = match class {
        Plain => token(t),
        Equals => {
            let mut v = t.string_of(b"ab=", 0, 4);
            v.push(b'=');
            v.extend(token(t));
            if t.bool() {
                v.push(b'=');
            }
            v
        }
        Spaces => {
            let mut v = t.string_of(b" \t", 0, 2);
            v.extend(token(t));
            v.extend(t.string_of(b" \t", 0, 2));
            v
        }
        Empty => vec![],
        CrEmbedded => {
            let mut v = token(t);
            v.push(b'\r');
            v.extend(token(t));
            v
        }
        CrTrailing => {
            let mut v = token(t);
            v.push(b'\r');
            if t.chance(64) {
                v.push(b'\r');
            }
            v
        }
        CrOnly => vec![b'\r'],
        Unicode => {
            let mut v = token(t);
            v.extend(t.pick(&["é", "日本", "\u{85}", "\u{2028}", "😀"]).as_bytes());
            v
        }
        RawBytes => {
            let mut v = t.bytes(8);
            v.retain(|b| *b != 0 && *b != b'\n');
            v.push(0xff);
            v
        }
        Lf => {
            let mut v = t.string_of(b"ab\n", 0, 5);
            v.insert(t.below(v.len() + 1), b'\n');
            v
        }
        Nul => {
            let mut v = t.string_of(b"ab\0", 0, 5);
            v.insert(t.below(v.len() + 1), 0);
            v
        }
        InjectLf | InjectCr | InjectCrLf | InjectNul => {
            let mut v = if t.bool() { token(t) } else { vec![] };
            let sep: &[u8] = match class {
                InjectLf => b"\n",
                InjectCr => b"\r",
                InjectCrLf => b"\r\n",
                _ => b"\0",
            };
            for _ in 0..t.range(1, 2) {
                v.extend_from_slice(sep);
                v.extend(attribute(t));
            }
            if t.chance(64) {
                v.extend_from_slice(sep);
            }
            v
        }
    };
    (v, class)
}

fn class_label(c: Class) -> &'static str {
    use Class::*;
    match c {
        Plain => "v:plain",
        Equals => "v:equals",
        Spaces => "v:spaces",
        Empty => "v:empty",
        CrEmbedded => "v:cr-embedded",
        CrTrailing => "v:cr-trailing",
        CrOnly => "v:cr-only",
        Unicode => "v:unicode",
        RawBytes => "v:raw-bytes",
        Lf => "v:lf",
        Nul => "v:nul",
        InjectLf => "v:inject-lf",
        InjectCr => "v:inject-cr",
        InjectCrLf => "v:inject-crlf",
        InjectNul => "v:inject-nul",
    }
}

/// (key, value) of every set field in a fixed order (the order is irrelevant to the oracle).
fn fields(ctx: &Context) -> Vec<(&'static str, Vec<u8>)> {
    let mut v = Vec::new();
    let mut s = |k: &'static str, x: &Option<String>| {
        if let Some(x) = x {
            v.push((k, x.as_bytes().to_vec()));
        }
    };
    s("protocol", &ctx.protocol);
    s("host", &ctx.host);
    s("username", &ctx.username);
    s("password", &ctx.password);
    let mut b = |k: &'static str, x: &Option<BString>| {
        if let Some(x) = x {
            v.push((k, x.to_vec()));
        }
    };
    b("path", &ctx.path);
    b("url", &ctx.url);
    v
}

fn line_of(k: &str, v: &[u8]) -> Vec<u8> {
    let mut l = k.as_bytes().to_vec();
    l.push(b'=');
    l.extend_from_slice(v);
    l
}

/// `written` must be a sequence of complete `key=value\n` lines, each one the exact line of a distinct set field that
/// contains neither LF nor NUL. Returns the number of lines or a description of the first foreign line.
fn only_own_lines(written: &[u8], own: &[(&'static str, Vec<u8>)]) -> Result<usize, String> {
    if written.is_empty() {
        return Ok(0);
    }
    if written.last() != Some(&b'\n') {
        return Err(format!("output does not end with LF: {}", show(written)));
    }
    let mut used = vec![false; own.len()];
    let mut n = 0;
    for line in written[..written.len() - 1].split(|b| *b == b'\n') {
        let hit = own
            .iter()
            .enumerate()
            .position(|(i, (k, v))| !used[i] && line_of(k, v) == line && !v.contains(&0) && !v.contains(&b'\n'));
        match hit {
            Some(i) => used[i] = true,
            None => return Err(format!("line {} is not a field of the context", show(line))),
        }
        n += 1;
    }
    Ok(n)
}

pub fn main() {
    let mut ck = Check::new("C35", "exploration");
    ck.rule("Contexts with each of protocol/host/username/password (UTF-8) and path/url (bytes) unset (25 %) or drawn from value classes: plain tokens, '=' inside/leading/trailing, leading/trailing blanks, empty, CR embedded/trailing/alone, multi-byte UTF-8 incl. U+0085/U+2028, non-UTF-8 bytes (path/url), LF, NUL, and injection payloads `<LF|CR|CRLF|NUL>key=value` for real attribute names; quit set at random. Half the contexts are free of LF/NUL by construction. Non-trivial: some value contains '=', CR, LF or NUL. Distinct by the context value.");
    ck.assume("a helper reads the message as LF-terminated `key=value` lines (git-credential(1)); `quit` is a helper-to-git attribute that write_to never sends, so it is excluded from the field comparison (the decoded message must not contain it)");
    ck.assume("refusing to send a value that contains CR but neither LF nor NUL is accepted (git >= 2.48.1 does so by default); refusing any other value is reported");

    ck.sub("write-decode", SubCfg::new(400_000, 8_000_000).max_len(400), |t, c| {
        let clean_only = t.bool();
        // values ending in CR are a known finding (trailing-cr-lost): keep them to a third of the contexts
        let trailing_cr_ok = t.chance(85);
        let mut classes: Vec<Class> = Vec::new();
        let text = |t: &mut Tape, classes: &mut Vec<Class>| -> Option<String> {
            if t.chance(64) {
                return None;
            }
            let (v, cl) = gen_value(t, clean_only, trailing_cr_ok, false);
            classes.push(cl);
            Some(String::from_utf8(v).expect("generator yields UTF-8 for text fields"))
        };
        let protocol = text(t, &mut classes);
        let host = text(t, &mut classes);
        let username = text(t, &mut classes);
        let password = text(t, &mut classes);
        let bytes = |t: &mut Tape, classes: &mut Vec<Class>| -> Option<BString> {
            if t.chance(64) {
                return None;
            }
            let (v, cl) = gen_value(t, clean_only, trailing_cr_ok, true);
            classes.push(cl);
            Some(v.into())
        };
        let path = bytes(t, &mut classes);
        let url = bytes(t, &mut classes);
        let quit = *t.pick(&[None, None, Some(true), Some(false)]);
        let ctx = Context {
            protocol,
            host,
            path,
            username,
            password,
            url,
            quit,
        };
        let own = fields(&ctx);
        c.key(&(&own, quit));
        for cl in &classes {
            c.label(class_label(*cl));
        }
        let has = |b: u8| own.iter().any(|(_, v)| v.contains(&b));
        let dirty = has(b'\n') || has(0);
        let has_cr = has(b'\r');
        c.label(if dirty { "ctx:must-refuse" } else { "ctx:sendable" });
        c.label_if(own.is_empty(), "ctx:no-fields");
        c.label_if(own.len() == 6, "ctx:all-fields");
        c.nontrivial(dirty || has_cr || has(b'='));
        c.sample_with(|| format!("{ctx:?}"));

        let mut buf = Vec::new();
        let res = ctx.write_to(&mut buf);
        // the same through the call the helper invocation uses
        let mut buf2 = Vec::new();
        let res2 = gix_credentials::helper::Action::Get(ctx.clone()).send(&mut buf2);
        ensure!(
            c,
            res.is_ok() == res2.is_ok() && buf == buf2,
            "Action::Get(ctx).send() wrote {} ({}), write_to wrote {} ({})",
            show(&buf2),
            res2.is_ok(),
            show(&buf),
            res.is_ok()
        );

        // whatever was written (completely or before the refusal) consists of the context's own lines only
        let lines = match only_own_lines(&buf, &own) {
            Ok(n) => n,
            Err(e) => {
                c.fail_sig(
                    "foreign-line-written",
                    format!("{e}; context {ctx:?}; written {}; write_to returned {res:?}", show(&buf)),
                );
                return;
            }
        };

        if dirty {
            ensure_sig!(
                c,
                "lf-or-nul-not-refused",
                res.is_err(),
                "a value contains LF or NUL but write_to succeeded: {ctx:?} -> {}",
                show(&buf)
            );
            return;
        }
        if let Err(e) = &res {
            ensure_sig!(
                c,
                "refused-clean-value",
                has_cr,
                "no value contains LF, NUL or CR but write_to refused: {e}; {ctx:?}"
            );
            c.label("ctx:cr-refused");
            return;
        }
        ensure_sig!(
            c,
            "line-count",
            lines == own.len(),
            "{} fields are set but {} lines were written: {ctx:?} -> {}",
            own.len(),
            lines,
            show(&buf)
        );
        // an empty line would end the message early for any reader
        ensure!(c, !buf.starts_with(b"\n") && buf.find(b"\n\n").is_none(), "empty line in {}", show(&buf));

        let decoded = match Context::from_bytes(&buf) {
            Ok(d) => d,
            Err(e) => {
                c.fail_sig("own-message-undecodable", format!("from_bytes({}) failed: {e}; context {ctx:?}", show(&buf)));
                return;
            }
        };
        let expected = Context { quit: None, ..ctx.clone() };
        if decoded != expected {
            // known class: the decoder splits lines with CRLF awareness, so a value ending in CR loses it
            let strip = |v: &[u8]| -> Vec<u8> { v.strip_suffix(b"\r").unwrap_or(v).to_vec() };
            let stripped_own: Vec<(&'static str, Vec<u8>)> = own.iter().map(|(k, v)| (*k, strip(v))).collect();
            let sig = if fields(&decoded) == stripped_own && decoded.quit.is_none() {
                "trailing-cr-lost"
            } else {
                "decoded-fields-differ"
            };
            c.fail_sig(
                sig,
                format!("wrote {ctx:?} as {}; decoded {decoded:?}", show(&buf)),
            );
            return;
        }
        // to_bstring is the same serialization
        ensure!(c, ctx.to_bstring().as_slice() == buf.as_slice(), "to_bstring differs from write_to for {ctx:?}");
    });

    ck.finish();
}
