//! C53 — mailmap resolution agrees with `git check-mailmap`.
//!
//! One case = one generated mailmap file + up to 30 identities; oracle: one `git check-mailmap --stdin` call.
use gix_actor::SignatureRef;
use gix_object::bstr::{BStr, ByteSlice};
use vp::*;

const NAMES: &[&str] = &[
    "Joe",
    "joe",
    "JOE",
    "Jane Doe",
    "jane doe",
    "Jane  Doe",
    "A",
    "a",
    "Zoë",
    "ZOë",
    "Øl Ünï",
    "J. R. Dev, Jr.",
    "#hash",
    "x",
];
const EMAILS: &[&str] = &[
    "a@x",
    "A@x",
    "a@X",
    "b@x",
    "B@X",
    "c@y.z",
    "joe@example.com",
    "Joe@Example.COM",
    "zoë@x",
    "ZOë@x",
    "bugs@x",
    "d",
];

#[derive(Clone, Debug, Hash, PartialEq, Eq)]
struct Entry {
    new_name: Option<Vec<u8>>,
    new_email: Option<Vec<u8>>,
    old_name: Option<Vec<u8>>,
    old_email: Vec<u8>,
}

#[derive(Clone, Debug, Hash, PartialEq, Eq)]
enum Line {
    Entry(Entry, Vec<u8>),
    /// comment, blank or otherwise inert text
    Inert(Vec<u8>),
    /// a line in git's lenient syntax that is not one of the documented entry forms
    Odd(&'static str, Entry, Vec<u8>),
}

fn name(t: &mut Tape) -> Vec<u8> {
    if t.chance(40) {
        let mut v = t.string_of(b"abAB .-\xc3\xa9", 1, 6);
        while v.first().map_or(false, |b| *b == b' ') {
            v.remove(0);
        }
        while v.last().map_or(false, |b| *b == b' ') {
            v.pop();
        }
        if v.is_empty() || std::str::from_utf8(&v).is_err() {
            v = b"n".to_vec();
        }
        v
    } else {
        t.pick(NAMES).as_bytes().to_vec()
    }
}

fn email(t: &mut Tape) -> Vec<u8> {
    if t.chance(30) {
        let v = t.string_of(b"abAB@.-", 1, 6);
        v
    } else {
        t.pick(EMAILS).as_bytes().to_vec()
    }
}

fn ws(t: &mut Tape, allow_empty: bool) -> &'static str {
    let opts: &[&'static str] = if allow_empty { &["", " ", "  ", "\t", " \t "] } else { &[" ", "  ", "\t", " \t "] };
    if t.chance(60) {
        *t.pick(opts)
    } else if allow_empty {
        ""
    } else {
        " "
    }
}

fn case_flip(t: &mut Tape, v: &[u8]) -> Vec<u8> {
    match t.below(3) {
        0 => v.to_ascii_uppercase(),
        1 => v.to_ascii_lowercase(),
        _ => v
            .iter()
            .enumerate()
            .map(|(i, b)| if i % 2 == 0 { b.to_ascii_uppercase() } else { b.to_ascii_lowercase() })
            .collect(),
    }
}

/// earlier entries are re-used often so that duplicates, overrides and name-specific + generic entries meet
fn gen_entry(t: &mut Tape, earlier: &[Entry]) -> Entry {
    let form = t.weighted(&[3, 2, 3, 3, 2]);
    let (old_email, mut old_name) = if !earlier.is_empty() && t.chance(150) {
        let e = &earlier[t.below(earlier.len())];
        let em = if t.chance(80) { case_flip(t, &e.old_email) } else { e.old_email.clone() };
        let on = match &e.old_name {
            Some(n) if t.chance(160) => Some(if t.chance(80) { case_flip(t, n) } else { n.clone() }),
            _ => None,
        };
        (em, on)
    } else {
        (email(t), None)
    };
    if old_name.is_none() {
        old_name = Some(name(t));
    }
    // keep most worlds out of the recorded class "later generic entry lacks a field an earlier one had"
    let mut form = form;
    if form < 2 {
        let (mut have_name, mut have_email) = (false, false);
        for e in earlier.iter().filter(|e| e.old_name.is_none() && eq_icase(&e.old_email, &old_email)) {
            have_name |= e.new_name.is_some();
            have_email |= e.new_email.is_some();
        }
        if ((form == 0 && have_email) || (form == 1 && have_name)) && t.chance(224) {
            form = 2;
        }
    }
    match form {
        0 => Entry {
            new_name: Some(name(t)),
            new_email: None,
            old_name: None,
            old_email,
        },
        1 => Entry {
            new_name: None,
            new_email: Some(email(t)),
            old_name: None,
            old_email,
        },
        2 => Entry {
            new_name: Some(name(t)),
            new_email: Some(email(t)),
            old_name: None,
            old_email,
        },
        3 => Entry {
            new_name: Some(name(t)),
            new_email: Some(email(t)),
            old_name,
            old_email,
        },
        _ => Entry {
            new_name: None,
            new_email: Some(email(t)),
            old_name,
            old_email,
        },
    }
}

fn render_entry(t: &mut Tape, e: &Entry) -> Vec<u8> {
    let mut l: Vec<u8> = Vec::new();
    l.extend_from_slice(ws(t, true).as_bytes());
    let two = e.new_email.is_some();
    // first pair
    if let Some(n) = &e.new_name {
        l.extend_from_slice(n);
        l.extend_from_slice(ws(t, true).as_bytes());
    }
    l.push(b'<');
    l.extend_from_slice(if two { e.new_email.as_ref().unwrap() } else { &e.old_email });
    l.push(b'>');
    if two {
        l.extend_from_slice(ws(t, true).as_bytes());
        if let Some(n) = &e.old_name {
            l.extend_from_slice(n);
            l.extend_from_slice(ws(t, true).as_bytes());
        }
        l.push(b'<');
        l.extend_from_slice(&e.old_email);
        l.push(b'>');
    }
    l.extend_from_slice(ws(t, true).as_bytes());
    l
}

fn gen_map(t: &mut Tape, odd: bool) -> Vec<Line> {
    // one kind of oddity per world, so that a deviation can be attributed
    let odd_kind = if odd { t.below(5) } else { 0 };
    let n = if odd { t.range(1, 7) } else { t.range(1, 12) };
    let mut lines = Vec::new();
    let mut earlier: Vec<Entry> = Vec::new();
    for _ in 0..n {
        match t.weighted(&[12, 1, 1, 1, if odd { 6 } else { 0 }]) {
            0 => {
                let e = gen_entry(t, &earlier);
                let text = render_entry(t, &e);
                earlier.push(e.clone());
                lines.push(Line::Entry(e, text));
            }
            1 => {
                // comment: whole line, possibly looking like an entry
                let e = gen_entry(t, &earlier);
                let mut text = b"#".to_vec();
                text.extend(render_entry(t, &e));
                lines.push(Line::Inert(text));
            }
            2 => lines.push(Line::Inert(t.pick(&["", " ", "\t", "   "]).as_bytes().to_vec())),
            3 => {
                // text without any email
                lines.push(Line::Inert(t.pick(&["just a name", "no email here  ", "x"]).as_bytes().to_vec()));
            }
            _ => {
                let e = gen_entry(t, &earlier);
                let mut text = render_entry(t, &e);
                let (kind, as_git_sees_it): (&'static str, Entry) = match odd_kind {
                    0 => {
                        // git ignores everything after the second email
                        while text.last().map_or(false, |b| b.is_ascii_whitespace()) {
                            text.pop();
                        }
                        if e.new_email.is_none() {
                            text.extend_from_slice(b" <second@x>");
                        }
                        text.extend_from_slice(*t.pick(&[&b" trailing"[..], b" T <t@x>", b" <u@x>", b"x"]));
                        let mut g = e.clone();
                        if e.new_email.is_none() {
                            g.new_email = Some(e.old_email.clone());
                            g.old_email = b"second@x".to_vec();
                        }
                        ("trailing-text", g)
                    }
                    1 => {
                        // whitespace inside the brackets belongs to the email for git
                        let mut g = e.clone();
                        let pos = text.iter().rposition(|b| *b == b'<').unwrap();
                        text.insert(pos + 1, b' ');
                        g.old_email.insert(0, b' ');
                        ("space-in-brackets", g)
                    }
                    2 => {
                        // comment marker after leading whitespace is not a comment
                        let mut g = e.clone();
                        let mut l = b" #".to_vec();
                        l.extend_from_slice(text.trim_start());
                        text = l;
                        if g.new_name.is_some() {
                            let mut n = b"#".to_vec();
                            n.extend_from_slice(g.new_name.as_ref().unwrap());
                            g.new_name = Some(n);
                        } else {
                            g.new_name = Some(b"#".to_vec());
                        }
                        ("indented-hash", g)
                    }
                    3 => {
                        // form-feed / vertical tab / NBSP around a name are part of the name for git
                        let mut g = e.clone();
                        let pad: &[u8] = *t.pick(&[&b"\x0c"[..], b"\x0b", b"\xc2\xa0", b"\xe2\x80\x83"]);
                        let base = g.new_name.clone().unwrap_or_else(|| b"N".to_vec());
                        let mut n = pad.to_vec();
                        n.extend_from_slice(&base);
                        g.new_name = Some(n.clone());
                        let mut l = n;
                        l.extend_from_slice(b" <");
                        if let Some(ne) = &g.new_email {
                            l.extend_from_slice(ne);
                            l.extend_from_slice(b"> ");
                            if let Some(on) = &g.old_name {
                                l.extend_from_slice(on);
                                l.push(b' ');
                            }
                            l.push(b'<');
                        }
                        l.extend_from_slice(&g.old_email);
                        l.push(b'>');
                        text = l;
                        ("exotic-whitespace", g)
                    }
                    _ => {
                        // invalid UTF-8 in the old name or old email: git folds ASCII case bytewise all the same
                        let mut g = e.clone();
                        g.old_email = t.pick(&[&b"\xffa@x"[..], b"\xffA@x", b"b\xfe@x", b"B\xfe@x"]).to_vec();
                        if g.new_email.is_none() && g.new_name.is_none() {
                            g.new_name = Some(b"N".to_vec());
                        }
                        if g.old_name.is_some() {
                            g.old_name = Some(t.pick(&[&b"J\xffoe"[..], b"j\xffOE"]).to_vec());
                        }
                        let mut l = Vec::new();
                        if let Some(n) = &g.new_name {
                            l.extend_from_slice(n);
                            l.push(b' ');
                        }
                        l.push(b'<');
                        if let Some(ne) = &g.new_email {
                            l.extend_from_slice(ne);
                            l.extend_from_slice(b"> ");
                            if let Some(on) = &g.old_name {
                                l.extend_from_slice(on);
                                l.push(b' ');
                            }
                            l.push(b'<');
                        }
                        l.extend_from_slice(&g.old_email);
                        l.push(b'>');
                        text = l;
                        ("non-utf8", g)
                    }
                };
                earlier.push(as_git_sees_it.clone());
                lines.push(Line::Odd(kind, as_git_sees_it, text));
            }
        }
    }
    lines
}

fn gen_queries(t: &mut Tape, lines: &[Line]) -> Vec<(Vec<u8>, Vec<u8>)> {
    let entries: Vec<&Entry> = lines
        .iter()
        .filter_map(|l| match l {
            Line::Entry(e, _) | Line::Odd(_, e, _) => Some(e),
            Line::Inert(_) => None,
        })
        .collect();
    let n = t.range(4, 30);
    let mut out = Vec::new();
    for _ in 0..n {
        let (mut qn, mut qe) = if !entries.is_empty() && t.chance(200) {
            let e = entries[t.below(entries.len())];
            if t.chance(200) {
                // the old side
                let qn = match &e.old_name {
                    Some(n) if t.chance(200) => n.clone(),
                    _ => name(t),
                };
                (qn, e.old_email.clone())
            } else {
                // the new side (must not be mapped again unless it is an old side, too)
                (
                    e.new_name.clone().unwrap_or_else(|| name(t)),
                    e.new_email.clone().unwrap_or_else(|| e.old_email.clone()),
                )
            }
        } else {
            (name(t), email(t))
        };
        if t.chance(70) {
            qe = case_flip(t, &qe);
        }
        if t.chance(50) {
            qn = case_flip(t, &qn);
        }
        // what `git check-mailmap` can take on a line and echo unambiguously
        qn.retain(|b| !matches!(b, b'<' | b'>' | b'\n' | 0));
        qe.retain(|b| !matches!(b, b'<' | b'>' | b'\n' | 0));
        let qn = qn.trim_with(|c| matches!(c, ' ' | '\t' | '\r')).to_vec();
        if qn.is_empty() {
            continue;
        }
        out.push((qn, qe));
    }
    out
}

fn eq_icase(a: &[u8], b: &[u8]) -> bool {
    a.eq_ignore_ascii_case(b)
}

/// Why gitoxide may legitimately (as far as recorded findings go) differ for this query; `None` = core behaviour.
fn classify(lines: &[Line], qname: &[u8], qemail: &[u8]) -> Option<&'static str> {
    // a single entry with an invalid-UTF-8 key disturbs the (mixed-comparator) order of the whole table
    let any_non_utf8 = lines.iter().any(|l| matches!(l, Line::Odd("non-utf8", _, _)))
        || std::str::from_utf8(qname).is_err()
        || std::str::from_utf8(qemail).is_err();
    let mut odd: Option<&'static str> = None;
    let mut simple: Vec<&Entry> = Vec::new();
    for l in lines {
        match l {
            Line::Odd(kind, e, _) => {
                let git_key_matches = eq_icase(&e.old_email, qemail);
                // gitoxide trims the email, drops the line or keeps another key: any line touching this email counts
                let gix_key_matches = eq_icase(e.old_email.trim(), qemail)
                    || e.new_email.as_ref().map_or(false, |n| eq_icase(n, qemail))
                    || eq_icase(b"second@x", qemail);
                if git_key_matches || gix_key_matches {
                    match *kind {
                        "trailing-text" => odd = Some("lenient-syntax-trailing-text"),
                        "space-in-brackets" => odd = Some("lenient-syntax-space-in-brackets"),
                        "exotic-whitespace" => odd = Some("lenient-syntax-exotic-whitespace"),
                        "non-utf8" => odd = Some("non-utf8-keys"),
                        // an indented '#' starts a name for git and gitoxide alike: an ordinary entry
                        _ => {}
                    }
                    if e.old_name.is_none() {
                        simple.push(e);
                    }
                }
            }
            Line::Entry(e, _) => {
                if eq_icase(&e.old_email, qemail) && e.old_name.is_none() {
                    simple.push(e);
                }
            }
            Line::Inert(_) => {}
        }
    }
    if any_non_utf8 {
        return Some("non-utf8-keys");
    }
    if odd.is_some() {
        return odd;
    }
    // git merges simple entries field by field; a later entry that lacks a field an earlier one had
    let mut have_name = false;
    let mut have_email = false;
    for e in simple {
        if (have_name && e.new_name.is_none()) || (have_email && e.new_email.is_none()) {
            return Some("simple-entries-merged-fieldwise-by-git");
        }
        have_name |= e.new_name.is_some();
        have_email |= e.new_email.is_some();
    }
    None
}

fn file_bytes(t: &mut Tape, lines: &[Line]) -> Vec<u8> {
    let mut buf = Vec::new();
    let crlf = t.chance(40);
    for (i, l) in lines.iter().enumerate() {
        let text = match l {
            Line::Entry(_, x) | Line::Inert(x) | Line::Odd(_, _, x) => x,
        };
        buf.extend_from_slice(text);
        let last = i + 1 == lines.len();
        if last && t.chance(50) {
            break; // no newline at the end of the file
        }
        buf.extend_from_slice(if crlf { b"\r\n" } else { b"\n" });
    }
    buf
}

fn minimal_repo(dir: &std::path::Path) -> std::io::Result<()> {
    std::fs::create_dir_all(dir.join(".git/objects"))?;
    std::fs::create_dir_all(dir.join(".git/refs"))?;
    std::fs::write(dir.join(".git/HEAD"), "ref: refs/heads/main\n")
}

fn run_world(t: &mut Tape, c: &mut Case, odd: bool) {
    let lines = gen_map(t, odd);
    let queries = gen_queries(t, &lines);
    let buf = file_bytes(t, &lines);
    c.key(&(&buf, &queries));
    c.sample_with(|| format!("mailmap {:?} queries {:?}", buf.as_bstr(), queries.iter().map(|(n, e)| format!("{} <{}>", n.as_bstr(), e.as_bstr())).collect::<Vec<_>>()));
    if queries.is_empty() {
        c.discard();
        return;
    }
    for l in &lines {
        match l {
            Line::Entry(e, _) => c.label(match (e.new_name.is_some(), e.new_email.is_some(), e.old_name.is_some()) {
                (true, false, false) => "form-name-by-email",
                (false, true, false) => "form-email-by-email",
                (true, true, false) => "form-name+email-by-email",
                (true, true, true) => "form-name+email-by-name+email",
                (false, true, true) => "form-email-by-name+email",
                _ => "form-other",
            }),
            Line::Inert(x) => c.label(if x.first() == Some(&b'#') { "line-comment" } else { "line-blank-or-text" }),
            Line::Odd(kind, _, _) => c.label(kind),
        }
    }

    // --- git
    let scratch = infra!(c, Scratch::new("c53"), "scratch");
    let repo = scratch.join("r");
    infra!(c, minimal_repo(&repo), "minimal repository");
    let mm = scratch.join("mailmap");
    infra!(c, std::fs::write(&mm, &buf), "write mailmap");
    let git = Git::new(&repo, &scratch.path).cfg(&format!("mailmap.file={}", mm.display()));
    let mut stdin = Vec::new();
    for (n, e) in &queries {
        stdin.extend_from_slice(n);
        stdin.extend_from_slice(b" <");
        stdin.extend_from_slice(e);
        stdin.extend_from_slice(b">\n");
    }
    let out = infra!(c, git.run_in(["check-mailmap", "--stdin"], Some(&stdin)), "git check-mailmap");
    let answers: Vec<&[u8]> = out.split(|b| *b == b'\n').filter(|l| !l.is_empty()).collect();
    if answers.len() != queries.len() {
        c.infra(format!("git printed {} lines for {} queries: {:?}", answers.len(), queries.len(), out.as_bstr()));
        return;
    }

    // --- gitoxide
    let snapshot = gix_mailmap::Snapshot::from_bytes(&buf);
    let time = gix_date::Time::new(42, 0);
    let mut nontrivial = false;
    let mut deferred: Option<(&'static str, String)> = None;
    for ((qn, qe), ans) in queries.iter().zip(answers) {
        let Some(lt) = ans.iter().rposition(|b| *b == b'<') else {
            c.infra(format!("unparsable check-mailmap line {:?}", ans.as_bstr()));
            return;
        };
        if ans.last() != Some(&b'>') {
            c.infra(format!("unparsable check-mailmap line {:?}", ans.as_bstr()));
            return;
        }
        // "Name <email>", or "<email>" when the name is empty
        let git_name: &[u8] = if lt > 0 { &ans[..lt - 1] } else { &ans[..0] };
        let git_email = &ans[lt + 1..ans.len() - 1];

        let sig = SignatureRef {
            name: qn.as_bstr(),
            email: qe.as_bstr(),
            time,
        };
        let resolved = snapshot.resolve(sig);
        let tried = snapshot.try_resolve(sig);
        let cow = snapshot.resolve_cow(sig);
        let class = classify(&lines, qn, qe);

        // non-trivial: the email has a name-specific and a generic entry, or the query differs in case from the key
        let mut generic = false;
        let mut specific = false;
        let mut case_differs = false;
        for l in &lines {
            if let Line::Entry(e, _) = l {
                if eq_icase(&e.old_email, qe) {
                    generic |= e.old_name.is_none();
                    specific |= e.old_name.is_some();
                    case_differs |= e.old_email != *qe;
                    if let Some(on) = &e.old_name {
                        case_differs |= eq_icase(on, qn) && on != qn;
                    }
                }
            }
        }
        if generic && specific {
            c.label("query-email-with-generic-and-name-specific-entries");
            nontrivial = true;
        }
        if case_differs {
            c.label("query-differs-in-case");
            nontrivial = true;
        }
        let git_changed = git_name != qn.as_slice() || git_email != qe.as_slice();
        c.label(if git_changed { "query-mapped" } else { "query-unmapped" });

        let describe = || {
            format!(
                "mailmap {:?}; query {:?} <{:?}>: git -> {:?} <{:?}>, gitoxide -> {:?} <{:?}> (try_resolve: {})",
                buf.as_bstr(),
                qn.as_bstr(),
                qe.as_bstr(),
                git_name.as_bstr(),
                git_email.as_bstr(),
                resolved.name,
                resolved.email,
                if tried.is_some() { "Some" } else { "None" }
            )
        };
        // documented deviation: when git leaves the email alone, gitoxide may rewrite it to the spelling in the mailmap
        let email_ok = resolved.email.as_slice() == git_email
            || (git_email == qe.as_slice() && eq_icase(&resolved.email, qe));
        let name_ok = resolved.name.as_slice() == git_name;
        if !(email_ok && name_ok) {
            match class {
                // a recorded class of deviation: keep checking the other identities of this world first
                Some(k) => {
                    if deferred.is_none() {
                        deferred = Some((k, describe()));
                    }
                    continue;
                }
                None => {
                    let sig = if !name_ok && email_ok {
                        "name-differs-from-git"
                    } else if name_ok {
                        "email-differs-from-git"
                    } else {
                        "name-and-email-differ-from-git"
                    };
                    c.fail_sig(sig, describe());
                    return;
                }
            }
        }
        // the three lookup flavours agree with each other
        match &tried {
            None => {
                if git_changed {
                    c.fail_sig("try-resolve-none-but-git-maps", describe());
                    return;
                }
                if resolved.name != *qn.as_bstr() || resolved.email != *qe.as_bstr() {
                    c.fail_sig("resolve-changes-without-mapping", describe());
                    return;
                }
            }
            Some(s) => {
                if *s != resolved {
                    c.fail_sig("try-resolve-differs-from-resolve", describe());
                    return;
                }
                // `Some` needs an entry for this email (it may well map the identity onto itself)
                let entry_for_email = lines.iter().any(|l| match l {
                    Line::Entry(e, _) | Line::Odd(_, e, _) => {
                        eq_icase(e.old_email.trim(), qe.trim()) || e.new_email.as_ref().map_or(false, |n| eq_icase(n, qe))
                    }
                    Line::Inert(_) => false,
                });
                if !entry_for_email {
                    c.fail_sig("try-resolve-some-without-entry", describe());
                    return;
                }
            }
        }
        let cow_name: &BStr = cow.name.as_ref();
        let cow_email: &BStr = cow.email.as_ref();
        if cow_name != resolved.name.as_bstr() || cow_email != resolved.email.as_bstr() || cow.time != time || resolved.time != time {
            c.fail_sig("resolve-cow-differs-from-resolve", describe());
            return;
        }
    }
    c.nontrivial(nontrivial);
    if let Some((sig, msg)) = deferred {
        c.fail_sig(sig, msg);
    }
}

pub fn main() {
    let mut ck = Check::new("C53", "exploration");
    ck.rule("One case = a mailmap of 1..12 lines (the five entry forms incl. '<new> Old Name <old>', re-using earlier old emails/names with case flips so that overrides and name-specific + generic entries meet; whole-line comments that look like entries, blank and email-less lines; optional/odd whitespace, CRLF, missing final newline) and 4..30 identities (old and new sides of the entries, case variants, unrelated ones). Non-trivial: some query hits an email that has both a generic and a name-specific entry, or differs in ASCII case from the matched key. Sub-check 'odd-lines' adds lines in git's lenient syntax (text after the second email, blanks inside <>, indented '#', form-feed/NBSP around names, invalid UTF-8 keys). Distinct by (file bytes, queries).");
    ck.assume(&format!("{}: `git -c mailmap.file=<f> check-mailmap --stdin` in an otherwise empty repository; lines shorter than git's 1024-byte read buffer; no NUL bytes; query names non-empty without <, >, LF", Git::version()));
    ck.assume("documented deviation accepted by the oracle: when git leaves the email unchanged, gitoxide may return it in the ASCII-case spelling of the mailmap key (Snapshot::try_resolve_ref docs)");

    ck.sub("world", SubCfg::new(2_000, 50_000).max_len(640).max_shrink(60), |t, c| run_world(t, c, false));
    ck.sub("odd-lines", SubCfg::new(600, 15_000).max_len(640).max_shrink(60), |t, c| run_world(t, c, true));
    ck.finish();
}
