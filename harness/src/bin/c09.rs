//! C09 — pack index and multi-pack-index lookups agree with a linear scan.
//!
//! The harness keeps the list `L` of (id, offset, crc[, pack]) it put into an index and answers every query by
//! scanning `L` (hex-string prefix matching, independent of `Prefix::cmp_oid`). Index files come from
//!  * `idx-harness-writer`  a small idx v1/v2 writer following gitformat-pack (fully arbitrary ids/offsets/crcs),
//!  * `idx-gix-writer`      `index::File::write_data_iter_to_stream` fed with synthetic entries,
//!  * `midx-gix-writer`     `multi_index::File::write_from_index_paths` over 1..5 such indices,
//!  * `git-writers`         `git pack-objects` / `git index-pack --index-version=..` / `git multi-pack-index write`
//!                          with `git show-index` supplying `L`.
use gix_hash::{ObjectId, Prefix};
use gix_pack::{index, multi_index};
use std::collections::{BTreeMap, BTreeSet};
use std::ops::Range;
use std::sync::atomic::AtomicBool;
use std::sync::OnceLock;
use vp::*;

type Id = [u8; 20];

struct Rng(u64);
impl Rng {
    fn next(&mut self) -> u64 {
        self.0 ^= self.0 << 13;
        self.0 ^= self.0 >> 7;
        self.0 ^= self.0 << 17;
        self.0.wrapping_mul(0x2545_f491_4f6c_dd1d)
    }
    fn below(&mut self, n: u64) -> u64 {
        if n == 0 {
            0
        } else {
            ((self.next() >> 11) as u128 * n as u128 >> 53) as u64
        }
    }
    fn id(&mut self) -> Id {
        let mut id = [0u8; 20];
        id[..8].copy_from_slice(&self.next().to_le_bytes());
        id[8..16].copy_from_slice(&self.next().to_le_bytes());
        id[16..].copy_from_slice(&self.next().to_le_bytes()[..4]);
        id
    }
}

fn nibble(id: &Id, pos: usize) -> u8 {
    if pos % 2 == 0 {
        id[pos / 2] >> 4
    } else {
        id[pos / 2] & 15
    }
}
fn set_nibble(id: &mut Id, pos: usize, v: u8) {
    let b = &mut id[pos / 2];
    if pos % 2 == 0 {
        *b = (*b & 0x0f) | (v << 4);
    } else {
        *b = (*b & 0xf0) | (v & 15);
    }
}

// ------------------------------------------------------------------------------------------------------------
// generators
// ------------------------------------------------------------------------------------------------------------

fn gen_count(t: &mut Tape, max: usize) -> usize {
    match t.weighted(&[1, 2, 2, 6, 5, 1]) {
        0 => 0,
        1 => 1,
        2 => 2,
        3 => t.range(3, 20.min(max)),
        4 => t.range(20.min(max), 300.min(max)),
        _ => t.range(300.min(max), max),
    }
}

/// Arbitrary id sets (for the harness writer). Returns distinct ids and a class label.
fn gen_ids(t: &mut Tape, rng: &mut Rng, n: usize) -> (Vec<Id>, &'static str) {
    let class = t.weighted(&[4, 3, 2, 4, 2, 2]);
    let mut set: BTreeSet<Id> = BTreeSet::new();
    let label = match class {
        0 => {
            while set.len() < n {
                set.insert(rng.id());
            }
            "ids-uniform"
        }
        1 => {
            // one fan-out bucket
            let first = *t.pick(&[0x00u8, 0xff, 0x01, 0xfe, 0x7f, 0x80]);
            let first = if t.chance(64) { t.u8() } else { first };
            while set.len() < n {
                let mut id = rng.id();
                id[0] = first;
                set.insert(id);
            }
            "ids-one-bucket"
        }
        2 => {
            while set.len() < n {
                let mut id = rng.id();
                id[0] = if rng.next() & 1 == 0 { 0x00 } else { 0xff };
                set.insert(id);
            }
            "ids-buckets-00-and-ff"
        }
        3 => {
            // long common prefix: ids agree on the first k hex digits, the following digits come from a small alphabet
            let k = t.range(2, 39);
            let base = match t.weighted(&[2, 1, 1]) {
                0 => rng.id(),
                1 => [0u8; 20],
                _ => [0xff; 20],
            };
            let spread = t.range(1, 3); // how many digits after k vary freely
            let mut tries = 0;
            while set.len() < n && tries < n * 20 + 100 {
                tries += 1;
                let mut id = base;
                for pos in k..40 {
                    if pos < k + spread || rng.next() % 4 == 0 {
                        set_nibble(&mut id, pos, (rng.next() % 16) as u8);
                    }
                }
                set.insert(id);
            }
            "ids-long-common-prefix"
        }
        4 => {
            // differ only in the last nibbles
            let base = rng.id();
            let digits = t.range(1, 3);
            let mut tries = 0;
            while set.len() < n.min(1 << (4 * digits)) && tries < 100_000 {
                tries += 1;
                let mut id = base;
                for pos in 40 - digits..40 {
                    set_nibble(&mut id, pos, (rng.next() % 16) as u8);
                }
                set.insert(id);
            }
            "ids-differ-in-last-nibbles"
        }
        _ => {
            // clusters: a few prefixes of various lengths plus uniform noise
            let nclusters = t.range(1, 5);
            let clusters: Vec<(Id, usize)> = (0..nclusters).map(|_| (rng.id(), t.range(1, 38))).collect();
            let mut tries = 0;
            while set.len() < n && tries < n * 20 + 100 {
                tries += 1;
                if rng.next() % 5 == 0 {
                    set.insert(rng.id());
                } else {
                    let (base, k) = clusters[rng.below(clusters.len() as u64) as usize];
                    let mut id = rng.id();
                    for pos in 0..k {
                        set_nibble(&mut id, pos, nibble(&base, pos));
                    }
                    set.insert(id);
                }
            }
            "ids-clusters"
        }
    };
    (set.into_iter().collect(), label)
}

#[derive(Clone, Copy, PartialEq, Eq, Debug, Hash)]
enum OfsRegime {
    Small,
    Mixed,
    Large,
}

fn gen_offset(rng: &mut Rng, regime: OfsRegime, limit_u32: bool) -> u64 {
    const EDGE: [u64; 10] = [
        0x7fff_fffe,
        0x7fff_ffff,
        0x8000_0000,
        0x8000_0001,
        0xffff_fffe,
        0xffff_ffff,
        0x1_0000_0000,
        0x1_0000_0001,
        0x7fff_ffff_ffff_ffff,
        12,
    ];
    let v = match regime {
        OfsRegime::Small => 12 + rng.below(0x7fff_0000),
        OfsRegime::Large => match rng.below(4) {
            0 => EDGE[2 + rng.below(7) as usize],
            1 => 0x8000_0000 + rng.below(0x8000_0000),
            _ => 0x1_0000_0000 + rng.below(1 << 47),
        },
        OfsRegime::Mixed => match rng.below(6) {
            0 => EDGE[rng.below(10) as usize],
            1 | 2 => 12 + rng.below(0x7fff_0000),
            3 => 0x8000_0000 + rng.below(0x8000_0000),
            4 => 0x1_0000_0000 + rng.below(1 << 40),
            _ => rng.next() >> rng.below(40),
        },
    };
    if limit_u32 {
        v & 0xffff_ffff
    } else {
        v
    }
}

#[derive(Clone, Debug, PartialEq, Eq, Hash)]
struct Rec {
    id: Id,
    offset: u64,
    crc: u32,
}

// ------------------------------------------------------------------------------------------------------------
// idx writer per gitformat-pack (harness)
// ------------------------------------------------------------------------------------------------------------

/// `recs` must be sorted by id. `off32_limit`: offsets >= this go to the 64-bit table (git: --index-version=2,<limit>);
/// offsets > 0x7fffffff always do.
fn write_idx(version: u32, recs: &[Rec], off32_limit: u64, pack_hash: &Id) -> Vec<u8> {
    let mut out = Vec::new();
    if version == 2 {
        out.extend_from_slice(b"\xfftOc");
        out.extend_from_slice(&2u32.to_be_bytes());
    }
    let mut fan = [0u32; 256];
    for r in recs {
        fan[r.id[0] as usize] += 1;
    }
    let mut acc = 0u32;
    for f in fan.iter_mut() {
        acc += *f;
        *f = acc;
    }
    for f in fan {
        out.extend_from_slice(&f.to_be_bytes());
    }
    if version == 1 {
        for r in recs {
            out.extend_from_slice(&(r.offset as u32).to_be_bytes());
            out.extend_from_slice(&r.id);
        }
    } else {
        for r in recs {
            out.extend_from_slice(&r.id);
        }
        for r in recs {
            out.extend_from_slice(&r.crc.to_be_bytes());
        }
        let mut big: Vec<u64> = Vec::new();
        for r in recs {
            if r.offset > 0x7fff_ffff || r.offset >= off32_limit {
                out.extend_from_slice(&(0x8000_0000u32 | big.len() as u32).to_be_bytes());
                big.push(r.offset);
            } else {
                out.extend_from_slice(&(r.offset as u32).to_be_bytes());
            }
        }
        for b in big {
            out.extend_from_slice(&b.to_be_bytes());
        }
    }
    out.extend_from_slice(pack_hash);
    let sum = unhex(&sha1_hex(&out)).expect("hex");
    out.extend(sum);
    out
}

// ------------------------------------------------------------------------------------------------------------
// the linear-scan oracle and the queries
// ------------------------------------------------------------------------------------------------------------

struct Queries {
    full: Vec<Id>,
    prefixes: Vec<String>, // lower-case hex digits, 4..=40
}

/// Queries: present ids (first, last, sampled), absent neighbours, and prefixes of every length for sampled ids,
/// plus prefixes of ids that differ in one digit.
fn gen_queries(t: &mut Tape, rng: &mut Rng, sorted: &[Id]) -> Queries {
    let mut full: Vec<Id> = Vec::new();
    let mut sampled: Vec<Id> = Vec::new();
    if !sorted.is_empty() {
        sampled.push(sorted[0]);
        sampled.push(sorted[sorted.len() - 1]);
        for _ in 0..t.range(1, 4) {
            sampled.push(sorted[t.below(sorted.len())]);
        }
        // neighbours sharing at least 4 hex digits (linear scan): their prefixes are ambiguous up to some length
        let close: Vec<usize> = (0..sorted.len() - 1).filter(|i| sorted[*i][..2] == sorted[*i + 1][..2]).collect();
        if !close.is_empty() {
            sampled.push(sorted[close[0]]);
            sampled.push(sorted[close[t.below(close.len())] + 1]);
        }
        // all present ids for small sets, a sample for big ones
        if sorted.len() <= 64 {
            full.extend_from_slice(sorted);
        } else {
            for _ in 0..48 {
                full.push(sorted[rng.below(sorted.len() as u64) as usize]);
            }
            full.extend_from_slice(&sampled);
        }
    }
    // absent ids
    full.push([0u8; 20]);
    full.push([0xff; 20]);
    for _ in 0..4 {
        full.push(rng.id());
    }
    for s in sampled.clone() {
        for _ in 0..3 {
            let mut id = s;
            let pos = rng.below(40) as usize;
            let flipped = nibble(&id, pos) ^ (1 + rng.below(15) as u8);
            set_nibble(&mut id, pos, flipped);
            full.push(id);
        }
        // +-1 on the last byte, and a different first byte (other fan-out bucket)
        let mut id = s;
        id[19] = id[19].wrapping_add(1);
        full.push(id);
        let mut id = s;
        id[0] = id[0].wrapping_add(if rng.next() & 1 == 0 { 1 } else { 255 });
        full.push(id);
    }
    let mut prefixes = Vec::new();
    let mut prefix_ids: Vec<Id> = sampled.clone();
    prefix_ids.push(rng.id());
    prefix_ids.push([0u8; 20]);
    prefix_ids.push([0xff; 20]);
    for s in &sampled {
        // one digit changed: matches up to that digit only
        let mut id = *s;
        let pos = t.below(40);
        let flipped = nibble(&id, pos) ^ (1 + rng.below(15) as u8);
            set_nibble(&mut id, pos, flipped);
        prefix_ids.push(id);
    }
    for id in &prefix_ids {
        let h = hex(id);
        for n in 4..=40 {
            prefixes.push(h[..n].to_string());
        }
    }
    Queries { full, prefixes }
}

/// What the code under test offers, for index::File and multi_index::File alike.
struct View<'a> {
    what: &'a str,
    num: u32,
    oid_at: &'a dyn Fn(u32) -> Id,
    lookup: &'a dyn Fn(&ObjectId) -> Option<u32>,
    lookup_prefix: &'a dyn Fn(Prefix, Option<&mut Range<u32>>) -> Option<Result<u32, ()>>,
}

struct Seen {
    ambiguous_prefix: bool,
    edge_bucket_hit: bool,
}

/// Compare the view with a linear scan over `sorted` (distinct ids in ascending order).
fn check_view(c: &mut Case, v: &View<'_>, sorted: &[Id], q: &Queries) -> Option<Seen> {
    let what = v.what;
    let mut seen = Seen {
        ambiguous_prefix: false,
        edge_bucket_hit: false,
    };
    if v.num as usize != sorted.len() {
        c.fail_sig("num-objects", format!("{what}: num_objects() = {} but {} ids were written", v.num, sorted.len()));
        return None;
    }
    for (i, id) in sorted.iter().enumerate() {
        let got = (v.oid_at)(i as u32);
        if got != *id {
            c.fail_sig(
                "oid-at-index",
                format!("{what}: oid_at_index({i}) = {} but the {i}-th id in ascending order is {}", hex(&got), hex(id)),
            );
            return None;
        }
    }
    let hexes: Vec<String> = sorted.iter().map(|i| hex(i)).collect();
    for id in &q.full {
        // linear scan
        let want = sorted.iter().position(|x| x == id).map(|p| p as u32);
        let got = (v.lookup)(&ObjectId::from(*id));
        if got != want {
            c.fail_sig(
                if want.is_some() { "lookup-misses-present-id" } else { "lookup-finds-absent-id" },
                format!(
                    "{what}: lookup({}) = {got:?}, linear scan over {} ids gives {want:?} (first byte {:#04x})",
                    hex(id),
                    sorted.len(),
                    id[0]
                ),
            );
            return None;
        }
        if want.is_some() && (id[0] == 0 || id[0] == 0xff) {
            seen.edge_bucket_hit = true;
        }
    }
    for digits in &q.prefixes {
        let matches: Vec<u32> = hexes
            .iter()
            .enumerate()
            .filter(|(_, h)| h.starts_with(digits.as_str()))
            .map(|(i, _)| i as u32)
            .collect();
        let want_range: Range<u32> = match (matches.first(), matches.last()) {
            (Some(a), Some(b)) => *a..*b + 1,
            _ => 0..0,
        };
        if matches.len() as u32 != want_range.end - want_range.start {
            panic!("harness: ids not sorted (matches of a prefix are not contiguous)");
        }
        let prefix = match Prefix::from_hex(digits) {
            Ok(p) => p,
            Err(e) => {
                c.fail(format!("Prefix::from_hex({digits}) failed: {e}"));
                return None;
            }
        };
        let mut cand: Range<u32> = 77..7; // poison: must be overwritten
        let with = (v.lookup_prefix)(prefix, Some(&mut cand));
        let without = (v.lookup_prefix)(prefix, None);
        let class = |r: &Option<Result<u32, ()>>| match r {
            None => "no match",
            Some(Ok(_)) => "unique",
            Some(Err(())) => "ambiguous",
        };
        let want_class = match matches.len() {
            0 => "no match",
            1 => "unique",
            _ => "ambiguous",
        };
        if matches.len() >= 2 {
            seen.ambiguous_prefix = true;
        }
        if matches.len() == 1 && (digits.starts_with("00") || digits.starts_with("ff")) {
            seen.edge_bucket_hit = true;
        }
        for (variant, got) in [("with candidates", &with), ("without candidates", &without)] {
            if class(got) != want_class {
                c.fail_sig(
                    "prefix-classification",
                    format!(
                        "{what}: lookup_prefix({digits}) {variant} reports {} ({got:?}), linear scan finds {} match(es) at {want_range:?} among {} ids",
                        class(got),
                        matches.len(),
                        sorted.len()
                    ),
                );
                return None;
            }
            if let Some(Ok(i)) = got {
                if *i != matches[0] {
                    c.fail_sig(
                        "prefix-unique-index",
                        format!("{what}: lookup_prefix({digits}) {variant} = Ok({i}) but the only match is entry {}", matches[0]),
                    );
                    return None;
                }
            }
        }
        if cand != want_range {
            c.fail_sig(
                "prefix-candidate-range",
                format!(
                    "{what}: lookup_prefix({digits}) candidates = {cand:?}, linear scan gives {want_range:?} ({} matches among {} ids)",
                    matches.len(),
                    sorted.len()
                ),
            );
            return None;
        }
    }
    Some(seen)
}

/// All checks for one pack index file against the list that was written into it.
fn check_index_file(c: &mut Case, path: &std::path::Path, recs_sorted: &[Rec], has_crc: bool, q: &Queries, what: &str) -> Option<Seen> {
    let idx = match index::File::at(path, gix_hash::Kind::Sha1) {
        Ok(f) => f,
        Err(e) => {
            c.fail_sig("open-index", format!("{what}: index::File::at failed: {e}"));
            return None;
        }
    };
    let want_version = if has_crc { index::Version::V2 } else { index::Version::V1 };
    if idx.version() != want_version {
        c.fail(format!("{what}: version() = {:?}, written as {want_version:?}", idx.version()));
        return None;
    }
    let sorted: Vec<Id> = recs_sorted.iter().map(|r| r.id).collect();
    let view = View {
        what,
        num: idx.num_objects(),
        oid_at: &|i| idx.oid_at_index(i).as_bytes().try_into().expect("20"),
        lookup: &|id| idx.lookup(id),
        lookup_prefix: &|p, cand| idx.lookup_prefix(p, cand),
    };
    let seen = check_view(c, &view, &sorted, q)?;
    // records
    for (i, r) in recs_sorted.iter().enumerate() {
        let i = i as u32;
        let ofs = idx.pack_offset_at_index(i);
        if ofs != r.offset {
            c.fail_sig(
                "offset-at-index",
                format!("{what}: pack_offset_at_index({i}) = {ofs:#x} but {:#x} was recorded for {}", r.offset, hex(&r.id)),
            );
            return None;
        }
        let crc = idx.crc32_at_index(i);
        let want = has_crc.then_some(r.crc);
        if crc != want {
            c.fail_sig(
                "crc-at-index",
                format!("{what}: crc32_at_index({i}) = {crc:x?} but {want:x?} was recorded for {}", hex(&r.id)),
            );
            return None;
        }
    }
    // iteration == sorted L
    let listed: Vec<(Id, u64, Option<u32>)> = idx
        .iter()
        .map(|e| (e.oid.as_bytes().try_into().expect("20"), e.pack_offset, e.crc32))
        .collect();
    let want: Vec<(Id, u64, Option<u32>)> = recs_sorted.iter().map(|r| (r.id, r.offset, has_crc.then_some(r.crc))).collect();
    if listed != want {
        let pos = listed.iter().zip(&want).position(|(a, b)| a != b);
        c.fail_sig(
            "iter-differs",
            format!(
                "{what}: iter() yields {} entries, expected {}; first difference at {pos:?}: {:x?} vs {:x?}",
                listed.len(),
                want.len(),
                pos.map(|p| &listed[p]),
                pos.map(|p| &want[p])
            ),
        );
        return None;
    }
    let mut ofs_sorted: Vec<u64> = recs_sorted.iter().map(|r| r.offset).collect();
    ofs_sorted.sort_unstable();
    if idx.sorted_offsets() != ofs_sorted {
        c.fail_sig("sorted-offsets", format!("{what}: sorted_offsets() differs from the sorted recorded offsets"));
        return None;
    }
    Some(seen)
}

/// All checks for a multi-pack-index against the per-pack lists. `packs[k]` = (index file name, records).
fn check_midx(c: &mut Case, path: &std::path::Path, packs: &[(String, Vec<Rec>)], q_of: &mut dyn FnMut(&[Id]) -> Queries, what: &str) -> Option<Seen> {
    let no_objects = packs.iter().all(|p| p.1.is_empty());
    let midx = match multi_index::File::at(path) {
        Ok(f) => f,
        Err(e) => {
            // a class of its own: a multi-index over packs without any object (empty lookup/offset chunks)
            let sig = if no_objects { "midx-without-objects-unreadable" } else { "open-midx" };
            c.fail_sig(sig, format!("{what}: multi_index::File::at failed on a multi-index of {} pack(s) with {} objects: {e}", packs.len(), packs.iter().map(|p| p.1.len()).sum::<usize>()));
            return None;
        }
    };
    let mut names: Vec<String> = packs.iter().map(|p| p.0.clone()).collect();
    names.sort();
    let got_names: Vec<String> = midx.index_names().iter().map(|p| p.display().to_string()).collect();
    if got_names != names || midx.num_indices() as usize != names.len() {
        c.fail_sig("midx-index-names", format!("{what}: index_names() = {got_names:?} (num_indices {}), expected {names:?}", midx.num_indices()));
        return None;
    }
    // union: id -> set of (pack name, offset)
    let mut union: BTreeMap<Id, Vec<(String, u64)>> = BTreeMap::new();
    for (name, recs) in packs {
        for r in recs {
            union.entry(r.id).or_default().push((name.clone(), r.offset));
        }
    }
    let sorted: Vec<Id> = union.keys().copied().collect();
    let q = q_of(&sorted);
    let view = View {
        what,
        num: midx.num_objects(),
        oid_at: &|i| midx.oid_at_index(i).as_bytes().try_into().expect("20"),
        lookup: &|id| midx.lookup(id),
        lookup_prefix: &|p, cand| midx.lookup_prefix(p, cand),
    };
    let seen = check_view(c, &view, &sorted, &q)?;
    for (i, id) in sorted.iter().enumerate() {
        let (pack_index, ofs) = midx.pack_id_and_pack_offset_at_index(i as u32);
        let Some(name) = got_names.get(pack_index as usize) else {
            c.fail_sig("midx-pack-id", format!("{what}: entry {i} names pack index {pack_index} but there are {} indices", got_names.len()));
            return None;
        };
        let homes = &union[id];
        if !homes.iter().any(|(n, o)| n == name && *o == ofs) {
            c.fail_sig(
                "midx-pack-and-offset",
                format!(
                    "{what}: {} is reported in {name} at offset {ofs:#x}, but it was recorded as {:x?}",
                    hex(id),
                    homes
                ),
            );
            return None;
        }
    }
    let listed: Vec<Id> = midx.iter().map(|e| e.oid.as_bytes().try_into().expect("20")).collect();
    if listed != sorted {
        c.fail_sig("iter-differs", format!("{what}: iter() yields {} ids, expected the {} distinct ids in order", listed.len(), sorted.len()));
        return None;
    }
    for (i, e) in midx.iter().enumerate() {
        if (e.pack_index, e.pack_offset) != midx.pack_id_and_pack_offset_at_index(i as u32) {
            c.fail_sig("iter-differs", format!("{what}: iter() entry {i} differs from pack_id_and_pack_offset_at_index"));
            return None;
        }
    }
    Some(seen)
}

// ------------------------------------------------------------------------------------------------------------
// synthetic pack entries for gitoxide's index writer: blobs whose ids are known up front
// ------------------------------------------------------------------------------------------------------------

const TABLE_BITS: u32 = 18;

/// counter -> id of the blob `format!("{counter:08x}")`, grouped by the first two id bytes.
fn blob_table() -> &'static (Vec<(u16, u32)>, Vec<u32>) {
    static T: OnceLock<(Vec<(u16, u32)>, Vec<u32>)> = OnceLock::new();
    T.get_or_init(|| {
        let mut v: Vec<(u16, u32)> = (0..1u32 << TABLE_BITS)
            .map(|n| {
                let id = blob_id(n);
                (u16::from_be_bytes([id[0], id[1]]), n)
            })
            .collect();
        v.sort();
        // start index of each 16-bit prefix
        let mut starts = vec![0u32; 65537];
        let mut k = 0usize;
        for p in 0..=65536usize {
            while k < v.len() && (v[k].0 as usize) < p {
                k += 1;
            }
            starts[p] = k as u32;
        }
        (v, starts)
    })
}

fn blob_content(n: u32) -> [u8; 8] {
    format!("{n:08x}").as_bytes().try_into().expect("8")
}

fn blob_id(n: u32) -> Id {
    let mut h = sha1_smol::Sha1::new();
    h.update(b"blob 8\0");
    h.update(&blob_content(n));
    h.digest().bytes()
}

fn zlib(data: &[u8]) -> Vec<u8> {
    use std::io::Write;
    let mut e = flate2::write::ZlibEncoder::new(Vec::new(), flate2::Compression::fast());
    e.write_all(data).expect("in-memory");
    e.finish().expect("in-memory")
}

/// Pick `n` distinct blobs whose ids form the wanted class.
fn gen_blob_set(t: &mut Tape, rng: &mut Rng, n: usize) -> (Vec<u32>, &'static str) {
    let (table, starts) = blob_table();
    let mut set: BTreeSet<u32> = BTreeSet::new();
    let by_first_byte = |b: u8| -> &[(u16, u32)] { &table[starts[(b as usize) << 8] as usize..starts[((b as usize) + 1) << 8] as usize] };
    let label = match t.weighted(&[4, 3, 2, 3]) {
        0 => {
            while set.len() < n {
                set.insert(rng.below(1 << TABLE_BITS) as u32);
            }
            "ids-uniform"
        }
        1 => {
            let first = *t.pick(&[0x00u8, 0xff, 0x01, 0xfe, 0x80]);
            let first = if t.chance(64) { t.u8() } else { first };
            let pool = by_first_byte(first);
            let n = n.min(pool.len());
            while set.len() < n {
                set.insert(pool[rng.below(pool.len() as u64) as usize].1);
            }
            "ids-one-bucket"
        }
        2 => {
            let (a, b) = (by_first_byte(0), by_first_byte(0xff));
            let n = n.min(a.len() + b.len());
            while set.len() < n {
                let pool = if rng.next() & 1 == 0 { a } else { b };
                set.insert(pool[rng.below(pool.len() as u64) as usize].1);
            }
            "ids-buckets-00-and-ff"
        }
        _ => {
            // whole 16-bit groups: every member shares >= 4 hex digits with another one (ambiguous prefixes)
            let mut guard = 0;
            while set.len() < n && guard < 10_000 {
                guard += 1;
                let p = match rng.below(4) {
                    0 => 0x0000usize + rng.below(256) as usize,
                    1 => 0xff00usize + rng.below(256) as usize,
                    _ => rng.below(65536) as usize,
                };
                for e in &table[starts[p] as usize..starts[p + 1] as usize] {
                    if set.len() < n.max(2) {
                        set.insert(e.1);
                    }
                }
            }
            "ids-shared-4-digit-prefixes"
        }
    };
    (set.into_iter().collect(), label)
}

fn resolve_entry<'r>(range: Range<u64>, map: &'r BTreeMap<u64, Vec<u8>>) -> Option<&'r [u8]> {
    map.get(&range.start).map(Vec::as_slice)
}

/// Feed gitoxide's index writer with one blob entry per record at the chosen offsets. Returns the idx bytes.
/// `order`: records in pack order (ascending offsets).
fn gix_write_index(order: &[(u32, Rec)], pack_hash: Id) -> Result<Vec<u8>, String> {
    use gix_pack::data::input;
    let mut map: BTreeMap<u64, Vec<u8>> = BTreeMap::new();
    let mut entries: Vec<Result<input::Entry, input::Error>> = Vec::new();
    for (i, (n, r)) in order.iter().enumerate() {
        let compressed = zlib(&blob_content(*n));
        let mut bytes = vec![0x38u8]; // type blob (3), size 8, no continuation
        bytes.extend_from_slice(&compressed);
        map.insert(r.offset, bytes);
        entries.push(Ok(input::Entry {
            header: gix_pack::data::entry::Header::Blob,
            header_size: 1,
            pack_offset: r.offset,
            compressed: None,
            compressed_size: compressed.len() as u64,
            crc32: Some(r.crc),
            decompressed_size: 8,
            trailer: (i + 1 == order.len()).then(|| ObjectId::from(pack_hash)),
        }));
    }
    let mut out = Vec::new();
    let mut iter = entries.into_iter();
    let res = index::File::write_data_iter_to_stream(
        index::Version::V2,
        move || Ok((resolve_entry as for<'r> fn(Range<u64>, &'r BTreeMap<u64, Vec<u8>>) -> Option<&'r [u8]>, map)),
        &mut iter,
        Some(1),
        &mut gix_features::progress::Discard,
        &mut out,
        &AtomicBool::new(false),
        gix_hash::Kind::Sha1,
        gix_pack::data::Version::V2,
    );
    match res {
        Ok(outcome) => {
            if outcome.num_objects as usize != order.len() {
                return Err(format!("outcome.num_objects = {} for {} entries", outcome.num_objects, order.len()));
            }
            Ok(out)
        }
        Err(e) => Err(format!("write_data_iter_to_stream failed: {e}")),
    }
}

/// ascending pack offsets with jumps over the 2^31 and 2^32 boundaries
fn gen_increasing_offsets(t: &mut Tape, rng: &mut Rng, n: usize) -> (Vec<u64>, OfsRegime) {
    let regime = *t.pick(&[OfsRegime::Small, OfsRegime::Mixed, OfsRegime::Mixed, OfsRegime::Large]);
    let mut cur: u64 = match regime {
        OfsRegime::Large => *t.pick(&[0x7fff_ffffu64, 0x8000_0000, 0xffff_ffff, 0x1_0000_0000, 0x7fff_fff0]),
        _ => 12,
    };
    let jump_at = if n > 0 { t.below(n) } else { 0 };
    let jump_at2 = if n > 0 { t.below(n) } else { 0 };
    let mut v = Vec::with_capacity(n);
    for i in 0..n {
        if regime == OfsRegime::Mixed {
            if i == jump_at && cur < 0x7fff_ff00 {
                cur = *t.pick(&[0x7fff_fffeu64, 0x7fff_ffff, 0x8000_0000, 0x7fff_ffe0]);
            }
            if i == jump_at2 && i != jump_at && cur < 0xffff_ff00 {
                cur = *t.pick(&[0xffff_fffeu64, 0xffff_ffff, 0x1_0000_0000, 0xffff_ffe0]);
            }
        }
        v.push(cur);
        // entries are 1 + ~16 bytes long; gaps are allowed (the resolver serves by start offset)
        cur += 17
            + match rng.below(4) {
                0 => 0,
                1 => rng.below(64),
                2 => rng.below(1 << 16),
                _ => {
                    if regime == OfsRegime::Small {
                        rng.below(1 << 12)
                    } else {
                        rng.below(1 << 28)
                    }
                }
            };
    }
    (v, regime)
}

fn label_offsets(c: &mut Case, recs: &[Rec]) -> bool {
    let ge31 = recs.iter().any(|r| r.offset >= 1 << 31);
    let ge32 = recs.iter().any(|r| r.offset >= 1 << 32);
    let edge = recs.iter().any(|r| (0x7fff_fffe..=0x8000_0001).contains(&r.offset) || (0xffff_fffe..=0x1_0000_0001).contains(&r.offset));
    c.label_if(ge31, "offset>=2^31");
    c.label_if(ge32, "offset>=2^32");
    c.label_if(edge, "offset-at-31/32-bit-edge");
    c.label_if(!ge31, "offsets-all-small");
    ge31
}

fn label_count(c: &mut Case, n: usize) {
    c.label(match n {
        0 => "n=0",
        1 => "n=1",
        2 => "n=2",
        3..=20 => "n=3..20",
        21..=300 => "n=21..300",
        _ => "n>300",
    });
}

fn finish_seen(c: &mut Case, seen: &Seen, large: bool) {
    c.label_if(seen.ambiguous_prefix, "prefix-ambiguous");
    c.label_if(seen.edge_bucket_hit, "hit-bucket-00-or-ff");
    c.nontrivial(seen.ambiguous_prefix || seen.edge_bucket_hit || large);
}

/// A set of records for one index produced by the harness writer.
fn gen_harness_index(t: &mut Tape, rng: &mut Rng, c: &mut Case, max_n: usize) -> (u32, Vec<Rec>, u64) {
    let version = if t.chance(64) { 1 } else { 2 };
    let n = gen_count(t, max_n);
    let (ids, class) = gen_ids(t, rng, n);
    c.label(class);
    let regime = *t.pick(&[OfsRegime::Small, OfsRegime::Mixed, OfsRegime::Mixed, OfsRegime::Large]);
    let recs: Vec<Rec> = ids
        .iter()
        .map(|id| Rec {
            id: *id,
            offset: gen_offset(rng, regime, version == 1),
            crc: rng.next() as u32,
        })
        .collect();
    // git's --index-version=2,<limit>: small offsets may live in the 64-bit table, too
    let off32_limit = if version == 2 && t.chance(64) { *t.pick(&[0u64, 0x1000, 0x4000_0000]) } else { u64::MAX };
    c.label(if version == 1 { "idx-v1" } else { "idx-v2" });
    c.label_if(off32_limit != u64::MAX, "idx-v2-low-off32-limit");
    (version, recs, off32_limit)
}

fn parse_show_index(out: &str) -> Option<Vec<Rec>> {
    let mut v = Vec::new();
    for line in out.lines() {
        let f: Vec<&str> = line.split_whitespace().collect();
        if f.len() < 2 {
            return None;
        }
        let offset: u64 = f[0].parse().ok()?;
        let id: Id = unhex(f[1])?.try_into().ok()?;
        let crc = match f.get(2) {
            Some(s) => u32::from_str_radix(s.trim_matches(|ch| ch == '(' || ch == ')'), 16).ok()?,
            None => 0,
        };
        v.push(Rec { id, offset, crc });
    }
    Some(v)
}

pub fn main() {
    let mut ck = Check::new("C09", "exploration");
    ck.rule("id sets of size {0,1,2,3..20,20..300,300..2000} in classes {uniform, one fan-out bucket (0x00/0xff/0x01/0xfe/0x7f/0x80/random), buckets 0x00 and 0xff only, long common prefix of 2..39 digits, differing only in the last 1..3 nibbles, clusters}; offsets in regimes {all < 2^31, mixed with the values around 2^31 and 2^32, all >= 2^31 up to 2^63}; random CRCs; idx v1 and v2, also with small offsets in the 64-bit table. Written by a harness idx writer (arbitrary ids), by gitoxide's index writer (ids = hashes of blobs chosen from a 2^18-entry table to hit buckets/shared prefixes), by gitoxide's multi-index writer over 1..5 indices with shared ids, and by git (pack-objects, index-pack --index-version, multi-pack-index write). Queries per index: present ids (all if <= 64), absent ids (one digit flipped, last byte +1, other bucket, zero, ff, random), prefixes of every length 4..=40 of present ids and of ids differing in one digit. Non-trivial: a hit in bucket 0x00/0xff, an offset >= 2^31, or a prefix with >= 2 matches. Distinct by hash of the written records and file version.");
    ck.assume("the oracle is a linear scan over the records the harness put into the index (prefix matching on lower-case hex strings)");
    ck.assume(&format!("git-writers: {} writes the files, `git show-index` supplies the record list", Git::version()));
    ck.assume("multi-index entries of ids present in several packs may name any of the packs holding the id (with that pack's offset)");

    // ---------------------------------------------------------------------------------------------------
    ck.sub("idx-harness-writer", SubCfg::new(2_500, 60_000).max_len(512), |t, c| {
        let mut rng = Rng(t.u64() | 1);
        let (version, recs, off32_limit) = gen_harness_index(t, &mut rng, c, 2000);
        label_count(c, recs.len());
        let large = label_offsets(c, &recs);
        let q = gen_queries(t, &mut rng, &recs.iter().map(|r| r.id).collect::<Vec<_>>());
        c.key(&(version, &recs, off32_limit));
        c.sample_with(|| {
            format!(
                "idx v{version} with {} ids (off32 limit {off32_limit:#x}): {:x?}{}",
                recs.len(),
                recs.iter().take(4).map(|r| (hex(&r.id), r.offset, r.crc)).collect::<Vec<_>>(),
                if recs.len() > 4 { " ..." } else { "" }
            )
        });
        let scratch = infra!(c, Scratch::new("c09"), "scratch");
        let path = scratch.join("pack-a.idx");
        infra!(c, std::fs::write(&path, write_idx(version, &recs, off32_limit, &rng.id())), "write idx");
        if let Some(seen) = check_index_file(c, &path, &recs, version == 2, &q, &format!("idx v{version} (harness writer)")) {
            finish_seen(c, &seen, large);
        }
    });

    // ---------------------------------------------------------------------------------------------------
    ck.sub("idx-gix-writer", SubCfg::new(600, 15_000).max_len(512), |t, c| {
        let mut rng = Rng(t.u64() | 1);
        let n = gen_count(t, 600);
        let (blobs, class) = gen_blob_set(t, &mut rng, n);
        c.label(class);
        label_count(c, blobs.len());
        // pack order is a random permutation of the blobs
        let mut order: Vec<u32> = blobs.clone();
        for i in (1..order.len()).rev() {
            order.swap(i, rng.below(i as u64 + 1) as usize);
        }
        let (offsets, _) = gen_increasing_offsets(t, &mut rng, order.len());
        let pack_order: Vec<(u32, Rec)> = order
            .iter()
            .zip(&offsets)
            .map(|(n, o)| {
                (
                    *n,
                    Rec {
                        id: blob_id(*n),
                        offset: *o,
                        crc: rng.next() as u32,
                    },
                )
            })
            .collect();
        let mut recs: Vec<Rec> = pack_order.iter().map(|x| x.1.clone()).collect();
        recs.sort_by_key(|r| r.id);
        let large = label_offsets(c, &recs);
        let q = gen_queries(t, &mut rng, &recs.iter().map(|r| r.id).collect::<Vec<_>>());
        c.key(&pack_order);
        c.sample_with(|| {
            format!(
                "{} blob entries in pack order: {:x?}{}",
                pack_order.len(),
                pack_order.iter().take(4).map(|(n, r)| (n, hex(&r.id), r.offset, r.crc)).collect::<Vec<_>>(),
                if pack_order.len() > 4 { " ..." } else { "" }
            )
        });
        let bytes = match gix_write_index(&pack_order, rng.id()) {
            Ok(b) => b,
            Err(e) => {
                c.fail_sig("gix-index-writer-error", e);
                return;
            }
        };
        let scratch = infra!(c, Scratch::new("c09"), "scratch");
        let path = scratch.join("pack-a.idx");
        infra!(c, std::fs::write(&path, &bytes), "write idx");
        if let Some(seen) = check_index_file(c, &path, &recs, true, &q, "idx v2 (gitoxide writer)") {
            finish_seen(c, &seen, large);
        }
        // the file must also be what the format prescribes for these records (fan-out, tables, 64-bit table, checksum)
        if !c.failed() {
            let pack_hash: Id = bytes[bytes.len() - 40..bytes.len() - 20].try_into().expect("20");
            let model = write_idx(2, &recs, u64::MAX, &pack_hash);
            ensure_sig!(
                c,
                "gix-index-bytes-differ-from-format",
                model == bytes,
                "index written by gitoxide differs from the gitformat-pack layout for the same records: first difference at byte {:?} of {} / {}",
                model.iter().zip(&bytes).position(|(a, b)| a != b),
                bytes.len(),
                model.len()
            );
        }
    });

    // ---------------------------------------------------------------------------------------------------
    ck.sub("midx-gix-writer", SubCfg::new(700, 15_000).max_len(1024), |t, c| {
        let mut rng = Rng(t.u64() | 1);
        let npacks = t.range(1, 5);
        let scratch = infra!(c, Scratch::new("c09"), "scratch");
        let mut packs: Vec<(String, Vec<Rec>)> = Vec::new();
        let mut paths = Vec::new();
        let name_pool = ["pack-a.idx", "pack-B.idx", "pack-0123.idx", "pack-zz.idx", "pack-a0.idx", "pack-~.idx", "pack-a.b.idx"];
        let mut names: Vec<&str> = name_pool.to_vec();
        for k in 0..npacks {
            let name = names.remove(t.below(names.len())).to_string();
            let (version, mut recs, off32_limit) = gen_harness_index(t, &mut rng, c, 400);
            // share ids with earlier packs (duplicates across packs), with different offsets
            if k > 0 && t.chance(160) {
                let donor = &packs[t.below(packs.len())].1;
                let take = t.range(0, donor.len().min(40));
                let mut have: BTreeSet<Id> = recs.iter().map(|r| r.id).collect();
                for _ in 0..take {
                    let d = &donor[rng.below(donor.len() as u64) as usize];
                    if have.insert(d.id) {
                        recs.push(Rec {
                            id: d.id,
                            offset: gen_offset(&mut rng, OfsRegime::Mixed, version == 1),
                            crc: rng.next() as u32,
                        });
                    }
                }
                recs.sort_by_key(|r| r.id);
                c.label("shared-ids-across-packs");
            }
            let path = scratch.join(&name);
            infra!(c, std::fs::write(&path, write_idx(version, &recs, off32_limit, &rng.id())), "write idx");
            paths.push(path);
            packs.push((name, recs));
        }
        let all: Vec<Rec> = packs.iter().flat_map(|p| p.1.iter().cloned()).collect();
        let total_distinct = all.iter().map(|r| r.id).collect::<BTreeSet<_>>().len();
        label_count(c, total_distinct);
        let large = label_offsets(c, &all);
        c.label(["", "packs=1", "packs=2", "packs=3", "packs=4", "packs=5"][npacks]);
        c.label_if(all.iter().any(|r| r.offset > 0x7fff_ffff) && !all.iter().any(|r| r.offset > 0xffff_ffff), "midx-31-bit-offsets-without-LOFF");
        c.key(&packs);
        c.sample_with(|| format!("{} packs: {:?}", npacks, packs.iter().map(|p| (p.0.clone(), p.1.len())).collect::<Vec<_>>()));
        // feed the paths in a shuffled order: the writer sorts them
        for i in (1..paths.len()).rev() {
            paths.swap(i, rng.below(i as u64 + 1) as usize);
        }
        let mut out = Vec::new();
        let res = multi_index::File::write_from_index_paths(
            paths,
            &mut out,
            &mut gix_features::progress::Discard,
            &AtomicBool::new(false),
            multi_index::write::Options {
                object_hash: gix_hash::Kind::Sha1,
            },
        );
        if let Err(e) = res {
            c.fail_sig("gix-midx-writer-error", format!("write_from_index_paths failed: {e}"));
            return;
        }
        let midx_path = scratch.join("multi-pack-index");
        infra!(c, std::fs::write(&midx_path, &out), "write midx");
        let mut q_of = |sorted: &[Id]| gen_queries(t, &mut rng, sorted);
        if let Some(seen) = check_midx(c, &midx_path, &packs, &mut q_of, "multi-index (gitoxide writer)") {
            finish_seen(c, &seen, large);
        }
    });

    // ---------------------------------------------------------------------------------------------------
    ck.sub("git-writers", SubCfg::new(80, 3_000).max_len(512).max_shrink(30), |t, c| {
        let mut rng = Rng(t.u64() | 1);
        let nblobs = match t.weighted(&[1, 3, 8, 5, 2]) {
            0 => 0,
            1 => t.range(1, 3),
            2 => t.range(4, 60),
            3 => t.range(60, 400),
            _ => t.range(1500, 3000),
        };
        let npacks = t.range(1, 4);
        let salt = rng.next();
        let world = infra!(c, World::new("c09", true), "world");
        let git = world.git.clone().cfg("pack.threads=1");
        // blobs via fast-import (one spawn)
        let mut stream = Vec::new();
        let mut ids: Vec<String> = Vec::new();
        for i in 0..nblobs {
            // sizes vary so that pack offsets spread; contents are incompressible-ish
            let len = 8 + rng.below(if i % 7 == 0 { 3000 } else { 60 }) as usize;
            let mut data = format!("{salt:x}-{i}-").into_bytes();
            while data.len() < len {
                data.extend_from_slice(&rng.next().to_le_bytes());
            }
            stream.extend_from_slice(format!("blob\ndata {}\n", data.len()).as_bytes());
            stream.extend_from_slice(&data);
            stream.push(b'\n');
            ids.push(object_sha1("blob", &data));
        }
        if nblobs > 0 {
            infra!(c, git.run_in(["fast-import", "--quiet"], Some(&stream)), "fast-import");
        }
        // distribute over packs, some ids in several packs
        let mut members: Vec<Vec<String>> = vec![Vec::new(); npacks];
        for id in &ids {
            let home = rng.below(npacks as u64) as usize;
            members[home].push(id.clone());
            if npacks > 1 && rng.below(5) == 0 {
                let other = rng.below(npacks as u64) as usize;
                if other != home {
                    members[other].push(id.clone());
                }
            }
        }
        let pack_dir = world.git_dir().join("objects/pack");
        // remove what fast-import left so that only our packs exist
        let scratch_store = world.scratch.join("store");
        infra!(c, std::fs::create_dir_all(&scratch_store), "mkdir");
        let mut packs: Vec<(String, Vec<Rec>)> = Vec::new();
        let mut idx_paths = Vec::new();
        let mut any_v1 = false;
        let mut any_low_limit = false;
        for m in &members {
            let list = m.join("\n") + if m.is_empty() { "" } else { "\n" };
            let base = scratch_store.join("pack");
            let out = infra!(
                c,
                git.run_in(["pack-objects".to_string(), "-q".into(), base.display().to_string()], Some(list.as_bytes())),
                "pack-objects"
            );
            let hash = String::from_utf8_lossy(&out).trim().to_string();
            let pack = scratch_store.join(format!("pack-{hash}.pack"));
            let idx = scratch_store.join(format!("pack-{hash}.idx"));
            if packs.iter().any(|p| p.0 == format!("pack-{hash}.idx")) {
                // identical member lists give identical packs
                continue;
            }
            // re-index with a chosen index version / 32-bit offset limit
            let mode = t.weighted(&[3, 2, 2]);
            let version_arg = match mode {
                0 => None,
                1 => {
                    any_low_limit = true;
                    Some(format!("--index-version=2,{}", *t.pick(&[13u32, 64, 1000, 100_000])))
                }
                _ => {
                    any_v1 = true;
                    Some("--index-version=1".to_string())
                }
            };
            if let Some(arg) = version_arg {
                infra!(c, std::fs::remove_file(&idx), "rm idx");
                infra!(
                    c,
                    git.run(["index-pack".to_string(), arg, "-o".into(), idx.display().to_string(), pack.display().to_string()]),
                    "index-pack"
                );
            }
            let idx_bytes = infra!(c, std::fs::read(&idx), "read idx");
            let shown = infra!(c, git.run_in(["show-index"], Some(&idx_bytes)), "show-index");
            let Some(mut recs) = parse_show_index(&String::from_utf8_lossy(&shown)) else {
                c.infra("cannot parse git show-index output");
                return;
            };
            recs.sort_by_key(|r| r.id);
            let mut want: Vec<String> = m.clone();
            want.sort();
            want.dedup();
            if recs.iter().map(|r| hex(&r.id)).collect::<Vec<_>>() != want {
                c.infra("git show-index lists other ids than were packed");
                return;
            }
            let q = gen_queries(t, &mut rng, &recs.iter().map(|r| r.id).collect::<Vec<_>>());
            let v2 = mode != 2;
            let Some(seen) = check_index_file(c, &idx, &recs, v2, &q, &format!("idx written by git ({})", ["default", "v2 with low off32 limit", "v1"][mode])) else {
                return;
            };
            finish_seen(c, &seen, false);
            let name = format!("pack-{hash}.idx");
            infra!(c, std::fs::rename(&pack, pack_dir.join(format!("pack-{hash}.pack"))), "mv pack");
            infra!(c, std::fs::rename(&idx, pack_dir.join(&name)), "mv idx");
            idx_paths.push(pack_dir.join(&name));
            packs.push((name, recs));
        }
        c.label_if(any_v1, "git-idx-v1");
        c.label_if(any_low_limit, "git-idx-v2-low-off32-limit");
        let distinct = packs.iter().flat_map(|p| p.1.iter().map(|r| r.id)).collect::<BTreeSet<_>>().len();
        label_count(c, distinct);
        c.label(["", "packs=1", "packs=2", "packs=3", "packs=4"][packs.len().min(4)]);
        c.key(&(salt, nblobs, &packs));
        c.sample_with(|| format!("{nblobs} blobs in {} git packs: {:?}", packs.len(), packs.iter().map(|p| (p.0.clone(), p.1.len())).collect::<Vec<_>>()));
        // drop the pack fast-import made
        if let Ok(rd) = std::fs::read_dir(&pack_dir) {
            for e in rd.flatten() {
                let n = e.file_name().to_string_lossy().to_string();
                if !packs.iter().any(|p| p.0 == n || p.0.replace(".idx", ".pack") == n) {
                    let _ = std::fs::remove_file(e.path());
                }
            }
        }
        let (ok, _out, err) = infra!(c, git.try_run(["multi-pack-index", "write"], None), "multi-pack-index write");
        let midx_path = pack_dir.join("multi-pack-index");
        if !ok || !midx_path.is_file() {
            // git refuses some inputs (e.g. nothing to index): nothing to compare
            c.label("git-wrote-no-midx");
            let _ = err;
            return;
        }
        c.label_if(distinct == 0, "git-midx-without-objects");
        let mut q_of = |sorted: &[Id]| gen_queries(t, &mut rng, sorted);
        if let Some(seen) = check_midx(c, &midx_path, &packs, &mut q_of, "multi-index written by git") {
            finish_seen(c, &seen, false);
        }
        if c.failed() {
            return;
        }
        // and gitoxide's writer over git's indices, read back
        let mut out = Vec::new();
        let res = multi_index::File::write_from_index_paths(
            idx_paths,
            &mut out,
            &mut gix_features::progress::Discard,
            &AtomicBool::new(false),
            multi_index::write::Options {
                object_hash: gix_hash::Kind::Sha1,
            },
        );
        if let Err(e) = res {
            c.fail_sig("gix-midx-writer-error", format!("write_from_index_paths failed on git's indices: {e}"));
            return;
        }
        let own = world.scratch.join("multi-pack-index.gix");
        infra!(c, std::fs::write(&own, &out), "write midx");
        let mut q_of = |sorted: &[Id]| gen_queries(t, &mut rng, sorted);
        if let Some(seen) = check_midx(c, &own, &packs, &mut q_of, "multi-index (gitoxide writer over git's indices)") {
            finish_seen(c, &seen, false);
        }
    });

    ck.finish();
}
