//! C51 — parallel helpers process every item exactly once.
//!
//! Sub-checks (all oracles are schedule-independent invariants, never wall-clock):
//! * `in-parallel`  — `in_parallel`, `in_parallel_if` (parallel and serial twin), `in_parallel_with_finalize`
//! * `slice`        — `in_parallel_with_slice` incl. callers that borrow `threads_left`, consumer errors, `periodic` interrupts
//! * `stepwise`     — `reduce::Stepwise`: finalize, drop after k steps, failing reducer, `InOrderIter` on top of it
//! * `eager`        — `EagerIter` / `EagerIterIf`: same items in the same order, early drop
//! * `in-order`     — `InOrderIter` over arbitrary arrival orders against a model
//!
//! Schedules are whatever the OS picks, widened by tape-drawn per-item perturbation (yield / spin / short sleep before and
//! after processing, in the consumer, the feeder and the reducer).
use gix_features::parallel::{self, reduce::Stepwise, EagerIter, EagerIterIf, InOrderIter, Reduce};
use std::sync::atomic::{AtomicBool, AtomicIsize, AtomicU32, AtomicU64, AtomicUsize, Ordering::SeqCst};
use std::sync::Arc;
use std::time::Duration;
use vp::*;

// ------------------------------------------------------------------------------------------------
// generators

/// One byte of schedule perturbation: half of all bytes do nothing.
fn perturb(b: u8) {
    match b {
        0..=127 => {}
        128..=167 => std::thread::yield_now(),
        168..=231 => {
            let n = (b as u32 - 167) * 60;
            for _ in 0..n {
                std::hint::spin_loop();
            }
        }
        _ => std::thread::sleep(Duration::from_micros((b as u64 - 231) * 8)),
    }
}
fn after(b: u8) -> u8 {
    b.wrapping_mul(73).wrapping_add(41)
}
fn perturbs(b: u8) -> bool {
    b >= 128 || after(b) >= 128
}

fn value_of(idx: usize) -> u64 {
    (idx as u64 + 1).wrapping_mul(0x9E37_79B9_7F4A_7C15) ^ 0xC51
}

fn thread_limit(t: &mut Tape) -> (Option<usize>, &'static str) {
    match t.weighted(&[2, 3, 5, 5, 3, 2, 1]) {
        0 => (None, "limit-none"),
        1 => (Some(1), "limit-1"),
        2 => (Some(2), "limit-2"),
        3 => (Some(3), "limit-3"),
        4 => (Some(8), "limit-8"),
        5 => (Some(16), "limit-16"),
        _ => (Some(0), "limit-0"),
    }
}

/// item counts: 0, 1, 2, = threads, threads +- 1, a multiple of threads, anything up to `max`
fn item_count(t: &mut Tape, threads: usize, max: usize) -> (usize, &'static str) {
    match t.weighted(&[1, 1, 1, 2, 2, 2, 2, 6]) {
        0 => (0, "items-0"),
        1 => (1, "items-1"),
        2 => (2, "items-2"),
        3 => (threads, "items-eq-threads"),
        4 => (threads.saturating_sub(1), "items-threads-1"),
        5 => (threads + 1, "items-threads+1"),
        6 => ((threads * t.range(2, 6)).min(max), "items-multiple"),
        _ => (t.range(3, max), "items-many"),
    }
}

fn item_bytes(t: &mut Tape, n: usize) -> Vec<u8> {
    // three perturbation densities: none at all, sparse, every byte from the tape
    match t.weighted(&[1, 3, 4]) {
        0 => vec![0; n],
        1 => (0..n).map(|_| if t.chance(48) { t.u8() | 128 } else { 0 }).collect(),
        _ => t.take(n),
    }
}

// ------------------------------------------------------------------------------------------------
// in_parallel family

#[derive(Clone, Copy, Debug, PartialEq, Eq, Hash)]
enum Helper {
    InParallel,
    IfTrue,
    IfFalse,
    WithFinalize,
}

#[derive(Clone, Copy, Debug, PartialEq, Eq, Hash)]
enum FailAt {
    Never,
    /// the reducer fails on its m-th `feed` call (1-based)
    Feed(usize),
    /// the reducer fails when it is fed the output of this item
    Item(usize),
}

#[derive(Debug, Hash)]
struct ParPlan {
    helper: Helper,
    limit: Option<usize>,
    items: Vec<u8>,
    feeder_perturb: bool,
    reducer_perturb: bool,
    fail: FailAt,
}

#[derive(Debug)]
enum Out {
    Item { idx: usize, val: u64 },
    Fin { thread: usize, count: usize },
}

#[derive(Debug, PartialEq, Eq, Clone, Copy)]
struct Tag(usize);

struct Red<'a> {
    seen: Vec<u32>,
    fins: Vec<(usize, usize)>,
    sum: u64,
    fed: &'a std::cell::Cell<usize>,
    fail: FailAt,
    perturb: Option<&'a [u8]>,
    bad: Option<String>,
}

struct RedOut {
    seen: Vec<u32>,
    fins: Vec<(usize, usize)>,
    sum: u64,
    bad: Option<String>,
}

impl Reduce for Red<'_> {
    type Input = Out;
    type FeedProduce = ();
    type Output = RedOut;
    type Error = Tag;
    fn feed(&mut self, item: Out) -> Result<(), Tag> {
        let n = self.fed.get() + 1;
        self.fed.set(n);
        match item {
            Out::Item { idx, val } => {
                if let Some(p) = self.perturb {
                    perturb(after(p[idx % p.len().max(1)].rotate_left(3)));
                }
                if idx >= self.seen.len() {
                    self.bad = Some(format!("reducer was fed an output for item {idx} which does not exist"));
                } else {
                    self.seen[idx] += 1;
                    if val != value_of(idx) {
                        self.bad = Some(format!("output of item {idx} arrived as {val:#x}, produced as {:#x}", value_of(idx)));
                    }
                }
                self.sum = self.sum.wrapping_add(val);
                if self.fail == FailAt::Item(idx) {
                    return Err(Tag(1_000_000 + idx));
                }
            }
            Out::Fin { thread, count } => self.fins.push((thread, count)),
        }
        if self.fail == FailAt::Feed(n) {
            return Err(Tag(n));
        }
        Ok(())
    }
    fn finalize(self) -> Result<RedOut, Tag> {
        Ok(RedOut {
            seen: self.seen,
            fins: self.fins,
            sum: self.sum,
            bad: self.bad,
        })
    }
}

fn effective_threads(limit: Option<usize>) -> usize {
    parallel::num_threads(limit)
}

fn gen_par(t: &mut Tape, c: &mut Case) -> ParPlan {
    let helper = *t.pick(&[
        Helper::InParallel,
        Helper::InParallel,
        Helper::IfTrue,
        Helper::IfFalse,
        Helper::WithFinalize,
        Helper::WithFinalize,
    ]);
    let (limit, ll) = thread_limit(t);
    c.label(ll);
    let threads = effective_threads(limit);
    let (n, il) = item_count(t, threads, 200);
    c.label(il);
    let fail = match t.weighted(&[5, 2, 2]) {
        0 => FailAt::Never,
        1 => FailAt::Feed(t.range(1, n.max(1))),
        _ => FailAt::Item(t.below(n.max(1))),
    };
    let feeder_perturb = t.bool();
    let reducer_perturb = t.bool();
    let items = item_bytes(t, n);
    c.label(match helper {
        Helper::InParallel => "in_parallel",
        Helper::IfTrue => "in_parallel_if(true)",
        Helper::IfFalse => "in_parallel_if(false)=serial",
        Helper::WithFinalize => "in_parallel_with_finalize",
    });
    ParPlan {
        helper,
        limit,
        items,
        feeder_perturb,
        reducer_perturb,
        fail,
    }
}

fn run_par(p: &ParPlan, c: &mut Case) {
    let n = p.items.len();
    let serial = p.helper == Helper::IfFalse || effective_threads(p.limit) == 1 && p.helper != Helper::InParallel && p.helper != Helper::WithFinalize;
    let threads = if serial { 1 } else { effective_threads(p.limit) };
    let counters: Vec<AtomicU32> = (0..n).map(|_| AtomicU32::new(0)).collect();
    let pulled = AtomicUsize::new(0);
    let exhausted = AtomicBool::new(false);
    let state_calls = AtomicUsize::new(0);
    let state_ids = AtomicU64::new(0);
    let state_dup = AtomicBool::new(false);
    let fin_calls = AtomicUsize::new(0);
    let fed = std::cell::Cell::new(0usize);

    let items = &p.items;
    let input = {
        let pulled = &pulled;
        let exhausted = &exhausted;
        let fp = p.feeder_perturb;
        let mut i = 0usize;
        std::iter::from_fn(move || {
            if i < n {
                if fp {
                    perturb(items[i].rotate_left(5));
                }
                pulled.fetch_add(1, SeqCst);
                i += 1;
                Some(i - 1)
            } else {
                exhausted.store(true, SeqCst);
                None
            }
        })
    };
    let new_state = |id: usize| {
        state_calls.fetch_add(1, SeqCst);
        if id < 64 && state_ids.fetch_or(1 << id, SeqCst) & (1 << id) != 0 {
            state_dup.store(true, SeqCst);
        }
        (id, 0usize)
    };
    let consume = |idx: usize, st: &mut (usize, usize)| {
        perturb(items[idx]);
        counters[idx].fetch_add(1, SeqCst);
        st.1 += 1;
        perturb(after(items[idx]));
        Out::Item { idx, val: value_of(idx) }
    };
    let reducer = Red {
        seen: vec![0; n],
        fins: Vec::new(),
        sum: 0,
        fed: &fed,
        fail: p.fail,
        perturb: p.reducer_perturb.then_some(items.as_slice()),
        bad: None,
    };
    let res = match p.helper {
        Helper::InParallel => parallel::in_parallel(input, p.limit, new_state, consume, reducer),
        Helper::IfTrue => parallel::in_parallel_if(|| true, input, p.limit, new_state, consume, reducer),
        Helper::IfFalse => parallel::in_parallel_if(|| false, input, p.limit, new_state, consume, reducer),
        Helper::WithFinalize => parallel::in_parallel_with_finalize(
            input,
            p.limit,
            new_state,
            consume,
            |st: (usize, usize)| {
                fin_calls.fetch_add(1, SeqCst);
                Out::Fin { thread: st.0, count: st.1 }
            },
            reducer,
        ),
    };
    let counts: Vec<u32> = counters.iter().map(|a| a.load(SeqCst)).collect();
    let consumed: usize = counts.iter().map(|&x| x as usize).sum();
    let fed = fed.get();
    let twice: Vec<usize> = counts.iter().enumerate().filter(|(_, &x)| x > 1).map(|(i, _)| i).collect();
    ensure!(c, twice.is_empty(), "items {twice:?} were consumed more than once ({p:?})");
    ensure!(
        c,
        state_calls.load(SeqCst) <= threads && !state_dup.load(SeqCst),
        "new_thread_state was called {} times for {threads} threads (duplicate id: {})",
        state_calls.load(SeqCst),
        state_dup.load(SeqCst)
    );
    // would the reducer fail on this input? Feed(m) fails only when it is fed at least m times.
    let total_outputs = n + if p.helper == Helper::WithFinalize { threads } else { 0 };
    let must_fail = match p.fail {
        FailAt::Never => false,
        FailAt::Feed(m) => m <= total_outputs,
        FailAt::Item(x) => x < n,
    };
    match res {
        Ok(out) => {
            ensure!(c, !must_fail, "the reducer fails ({:?}) but the call returned Ok ({p:?})", p.fail);
            if let Some(bad) = out.bad {
                c.fail(bad);
                return;
            }
            let missing: Vec<usize> = counts.iter().enumerate().filter(|(_, &x)| x == 0).map(|(i, _)| i).collect();
            ensure!(c, missing.is_empty(), "items {missing:?} were never consumed ({p:?})");
            ensure!(
                c,
                pulled.load(SeqCst) == n && exhausted.load(SeqCst),
                "input iterator: pulled {} of {n}, exhausted {}",
                pulled.load(SeqCst),
                exhausted.load(SeqCst)
            );
            let wrong: Vec<usize> = out.seen.iter().enumerate().filter(|(_, &x)| x != 1).map(|(i, _)| i).collect();
            ensure!(c, wrong.is_empty(), "reducer did not receive exactly one output for items {wrong:?} ({p:?})");
            let expect_sum = (0..n).fold(0u64, |a, i| a.wrapping_add(value_of(i)));
            ensure!(c, out.sum == expect_sum, "aggregated result {:#x} != serial result {expect_sum:#x}", out.sum);
            ensure!(c, fed == total_outputs, "reducer was fed {fed} times, expected {total_outputs}");
            if p.helper == Helper::WithFinalize {
                let mut ids: Vec<usize> = out.fins.iter().map(|f| f.0).collect();
                ids.sort();
                ids.dedup();
                let total: usize = out.fins.iter().map(|f| f.1).sum();
                ensure!(
                    c,
                    out.fins.len() == threads && ids.len() == threads && total == n && fin_calls.load(SeqCst) == threads,
                    "finalize outputs {:?}: expected one per thread ({threads}) accounting for {n} items",
                    out.fins
                );
            }
        }
        Err(tag) => {
            ensure!(c, must_fail, "call failed with {tag:?} although the reducer never fails ({p:?})");
            let expected = match p.fail {
                FailAt::Feed(m) => Tag(m),
                FailAt::Item(x) => Tag(1_000_000 + x),
                FailAt::Never => unreachable!(),
            };
            ensure!(c, tag == expected, "call returned {tag:?}, the reducer failed with {expected:?}");
            if let FailAt::Feed(m) = p.fail {
                ensure!(c, fed == m, "reducer was fed {fed} times but failed at call {m}: feeding continued after the failure");
            }
            // early stop: everything consumed was either fed, sits in the result channel (<= threads) or is the one
            // item each worker thread may still hold/finish (<= threads)
            let bound = if serial { fed } else { fed + 2 * threads };
            ensure!(
                c,
                consumed <= bound,
                "after the reducer failed at feed #{fed}, {consumed} items were consumed (> {bound} = fed + 2*{threads} threads) ({p:?})"
            );
            let pbound = if serial { fed } else { bound + threads + 1 };
            ensure!(
                c,
                pulled.load(SeqCst) <= pbound,
                "after the reducer failed at feed #{fed}, {} items were pulled from the input (> {pbound})",
                pulled.load(SeqCst)
            );
        }
    }
}

// ------------------------------------------------------------------------------------------------
// in_parallel_with_slice

#[derive(Debug, Hash, Clone)]
struct SliceItem {
    idx: usize,
    b: u8,
    fail: bool,
    steal: bool,
    count: u32,
    stolen: u32,
}

#[derive(Debug, Hash)]
struct SlicePlan {
    limit: Option<usize>,
    items: Vec<SliceItem>,
    /// `periodic` returns None (= interrupt) on this call (1-based); 0 = never
    interrupt_at: usize,
    periodic_us: u64,
}

fn gen_slice(t: &mut Tape, c: &mut Case) -> SlicePlan {
    let (limit, ll) = thread_limit(t);
    c.label(ll);
    let threads = effective_threads(limit);
    let (n, il) = item_count(t, threads, 200);
    c.label(il);
    let mode = t.weighted(&[5, 3, 2]);
    let interrupt_at = if mode == 2 { t.range(1, 6) } else { 0 };
    let periodic_us = *t.pick(&[0u64, 20, 100, 400]);
    let nfail = if mode == 1 { t.range(1, 2) } else { 0 };
    let mut fails = Vec::new();
    for _ in 0..nfail {
        fails.push(t.below(n.max(1)));
    }
    let stealers = t.chance(96);
    let bytes = item_bytes(t, n);
    let items = bytes
        .into_iter()
        .enumerate()
        .map(|(i, b)| SliceItem {
            idx: i,
            b,
            fail: fails.contains(&i),
            steal: stealers && b & 3 == 3,
            count: 0,
            stolen: 0,
        })
        .collect();
    c.label(match mode {
        0 => "no-failure",
        1 => "consumer-error",
        _ => "periodic-interrupt",
    });
    c.label_if(stealers, "work-stealing-callers");
    SlicePlan {
        limit,
        items,
        interrupt_at,
        periodic_us,
    }
}

fn run_slice(p: &SlicePlan, c: &mut Case) {
    let threads = effective_threads(p.limit);
    let mut items = p.items.clone();
    let left_out_of_range = AtomicIsize::new(isize::MIN);
    let periodic_calls = AtomicUsize::new(0);
    let interrupted = AtomicBool::new(false);
    let state_calls = AtomicUsize::new(0);
    // per thread id: number of items started although stop_everything was already set
    let entered_while_stopped: Vec<AtomicUsize> = (0..threads.max(1)).map(|_| AtomicUsize::new(0)).collect();
    #[derive(Debug)]
    struct St {
        id: usize,
        count: usize,
        entered_while_stopped: usize,
    }
    let res = parallel::in_parallel_with_slice(
        &mut items,
        p.limit,
        |id| {
            state_calls.fetch_add(1, SeqCst);
            St {
                id,
                count: 0,
                entered_while_stopped: 0,
            }
        },
        |item: &mut SliceItem, st: &mut St, threads_left: &AtomicIsize, stop: &AtomicBool| -> Result<(), Tag> {
            if stop.load(SeqCst) {
                st.entered_while_stopped += 1;
                if let Some(a) = entered_while_stopped.get(st.id) {
                    a.fetch_add(1, SeqCst);
                }
            }
            perturb(item.b);
            item.count += 1;
            st.count += 1;
            if item.steal {
                // what gix-pack does: borrow a thread if one is free, give it back afterwards
                let avail = threads_left.fetch_sub(1, SeqCst);
                if avail > threads as isize - 1 || avail < -(threads as isize) {
                    left_out_of_range.store(avail, SeqCst);
                }
                if avail > 0 {
                    let stolen = &mut item.stolen;
                    let b = item.b;
                    std::thread::scope(|s| {
                        s.spawn(move || {
                            perturb(after(b));
                            *stolen += 1;
                        });
                    });
                }
                threads_left.fetch_add(1, SeqCst);
            } else {
                let avail = threads_left.load(SeqCst);
                if avail > threads as isize - 1 || avail < -(threads as isize) {
                    left_out_of_range.store(avail, SeqCst);
                }
            }
            perturb(after(item.b));
            if item.fail {
                return Err(Tag(item.idx));
            }
            Ok(())
        },
        || {
            let k = periodic_calls.fetch_add(1, SeqCst) + 1;
            if p.interrupt_at != 0 && k >= p.interrupt_at {
                interrupted.store(true, SeqCst);
                None
            } else {
                Some(Duration::from_micros(p.periodic_us))
            }
        },
        |st| st,
    );
    for (id, a) in entered_while_stopped.iter().enumerate() {
        ensure!(
            c,
            a.load(SeqCst) <= 1,
            "thread {id} started {} items after everything was told to stop ({p:?})",
            a.load(SeqCst)
        );
    }
    let twice: Vec<usize> = items.iter().enumerate().filter(|(_, it)| it.count > 1).map(|(i, _)| i).collect();
    ensure!(c, twice.is_empty(), "items {twice:?} were consumed more than once ({p:?})");
    let oor = left_out_of_range.load(SeqCst);
    ensure!(
        c,
        oor == isize::MIN,
        "threads_left was {oor} inside consume, outside [-{threads}, {threads}-1]"
    );
    ensure!(
        c,
        state_calls.load(SeqCst) <= threads,
        "new_thread_state called {} times for {threads} threads",
        state_calls.load(SeqCst)
    );
    let failing: Vec<usize> = p.items.iter().enumerate().filter(|(_, it)| it.fail).map(|(i, _)| i).collect();
    match res {
        Ok(states) => {
            // a failing item that was consumed must surface as the error
            let consumed_failing: Vec<usize> = failing.iter().copied().filter(|&i| items[i].count > 0).collect();
            ensure!(
                c,
                consumed_failing.is_empty(),
                "consume failed for items {consumed_failing:?} but the call returned Ok ({p:?})"
            );
            ensure!(c, states.len() == threads, "{} thread results for {threads} threads", states.len());
            let mut ids: Vec<usize> = states.iter().map(|s| s.id).collect();
            ids.sort();
            ids.dedup();
            ensure!(c, ids.len() == threads, "thread ids not distinct: {states:?}");
            let total: usize = states.iter().map(|s| s.count).sum();
            let consumed: usize = items.iter().map(|it| it.count as usize).sum();
            ensure!(c, total == consumed, "thread states account for {total} items, {consumed} were consumed");
            if !interrupted.load(SeqCst) && failing.is_empty() {
                let missing: Vec<usize> = items.iter().enumerate().filter(|(_, it)| it.count == 0).map(|(i, _)| i).collect();
                ensure!(c, missing.is_empty(), "items {missing:?} were never consumed ({p:?})");
                let half: Vec<usize> = items
                    .iter()
                    .enumerate()
                    .filter(|(_, it)| it.stolen > 1)
                    .map(|(i, _)| i)
                    .collect();
                ensure!(c, half.is_empty(), "stolen work ran twice for {half:?}");
            }
            for s in &states {
                ensure!(
                    c,
                    s.entered_while_stopped <= 1,
                    "thread {} started {} items after everything was told to stop ({p:?})",
                    s.id,
                    s.entered_while_stopped
                );
            }
        }
        Err(Tag(idx)) => {
            ensure!(c, !failing.is_empty(), "call failed although no consumer fails ({p:?})");
            ensure!(
                c,
                failing.contains(&idx) && items[idx].count == 1,
                "returned error belongs to item {idx}, failing items are {failing:?}"
            );
        }
    }
}

// ------------------------------------------------------------------------------------------------
// Stepwise

#[derive(Debug, Hash, Clone, Copy, PartialEq, Eq)]
enum StepMode {
    Finalize,
    /// take k results through `next()`, then drop
    DropAfter(usize),
    /// wrap into InOrderIter and drain (optionally dropping after k)
    InOrder(Option<usize>),
}

#[derive(Debug, Hash)]
struct StepPlan {
    limit: Option<usize>,
    items: Vec<u8>,
    failing: Option<usize>,
    mode: StepMode,
    slow_consumer: bool,
}

struct Shared {
    items: Vec<u8>,
    counters: Vec<AtomicU32>,
    pulled: AtomicUsize,
    live_states: AtomicIsize,
    live_inputs: AtomicIsize,
    states_made: AtomicUsize,
    failing: Option<usize>,
}

struct StateGuard {
    sh: Arc<Shared>,
}
impl Drop for StateGuard {
    fn drop(&mut self) {
        self.sh.live_states.fetch_sub(1, SeqCst);
    }
}
struct InputIter {
    sh: Arc<Shared>,
    next: usize,
}
impl Iterator for InputIter {
    type Item = usize;
    fn next(&mut self) -> Option<usize> {
        if self.next < self.sh.items.len() {
            perturb(self.sh.items[self.next].rotate_left(5));
            self.sh.pulled.fetch_add(1, SeqCst);
            self.next += 1;
            Some(self.next - 1)
        } else {
            None
        }
    }
}
impl Drop for InputIter {
    fn drop(&mut self) {
        self.sh.live_inputs.fetch_sub(1, SeqCst);
    }
}

fn gen_step(t: &mut Tape, c: &mut Case) -> StepPlan {
    let (limit, ll) = thread_limit(t);
    c.label(ll);
    let threads = effective_threads(limit);
    let (n, il) = item_count(t, threads, 120);
    c.label(il);
    let failing = if t.chance(80) { Some(t.below(n.max(1))) } else { None };
    let mode = match t.weighted(&[3, 4, 3]) {
        0 => StepMode::Finalize,
        1 => StepMode::DropAfter(t.range(0, n.min(2 * threads + 2))),
        _ => StepMode::InOrder(if t.chance(80) { Some(t.range(0, n)) } else { None }),
    };
    let slow_consumer = t.bool();
    let items = item_bytes(t, n);
    c.label(match mode {
        StepMode::Finalize => "finalize",
        StepMode::DropAfter(_) => "drop-after-k",
        StepMode::InOrder(None) => "in-order-drain",
        StepMode::InOrder(Some(_)) => "in-order-drop-after-k",
    });
    c.label_if(failing.is_some(), "failing-item");
    StepPlan {
        limit,
        items,
        failing,
        mode,
        slow_consumer,
    }
}

type StepRed = parallel::reduce::IdentityWithResult<(usize, u64), Tag>;

fn run_step(p: &StepPlan, c: &mut Case) {
    let threads = effective_threads(p.limit);
    let n = p.items.len();
    let sh = Arc::new(Shared {
        items: p.items.clone(),
        counters: (0..n).map(|_| AtomicU32::new(0)).collect(),
        pulled: AtomicUsize::new(0),
        live_states: AtomicIsize::new(0),
        live_inputs: AtomicIsize::new(1),
        states_made: AtomicUsize::new(0),
        failing: p.failing,
    });
    let input = InputIter { sh: sh.clone(), next: 0 };
    let new_state = {
        let sh = sh.clone();
        move |_id: usize| {
            sh.live_states.fetch_add(1, SeqCst);
            sh.states_made.fetch_add(1, SeqCst);
            StateGuard { sh: sh.clone() }
        }
    };
    let consume = {
        let sh = sh.clone();
        move |idx: usize, _st: &mut StateGuard| -> Result<(usize, u64), Tag> {
            perturb(sh.items[idx]);
            sh.counters[idx].fetch_add(1, SeqCst);
            perturb(after(sh.items[idx]));
            if sh.failing == Some(idx) {
                Err(Tag(idx))
            } else {
                Ok((idx, value_of(idx)))
            }
        }
    };
    let step: Stepwise<StepRed> = Stepwise::new(input, p.limit, new_state, consume, StepRed::default());
    let fails = p.failing.filter(|&x| x < n);
    // number of results taken out of the iterator before it was dropped / the first error
    let mut taken = 0usize;
    let mut drained = false;
    match p.mode {
        StepMode::Finalize => {
            let res = step.finalize();
            match (res, fails) {
                (Ok(()), None) => drained = true,
                (Err(Tag(x)), Some(f)) => {
                    ensure!(c, x == f, "finalize() returned the error of item {x}, item {f} fails")
                }
                (Ok(()), Some(f)) => {
                    c.fail(format!("item {f} fails but finalize() returned Ok ({p:?})"));
                    return;
                }
                (Err(t), None) => {
                    c.fail(format!("finalize() failed with {t:?} although nothing fails"));
                    return;
                }
            }
        }
        StepMode::DropAfter(k) => {
            let mut step = step;
            let mut seen = vec![false; n];
            while taken < k {
                if p.slow_consumer && n > 0 {
                    perturb(p.items[taken % n.max(1)].rotate_left(2) | 128);
                }
                match step.next() {
                    None => {
                        drained = true;
                        break;
                    }
                    Some(Ok((idx, val))) => {
                        ensure!(c, idx < n && !seen[idx] && val == value_of(idx), "next() yielded ({idx}, {val:#x}) (duplicate or wrong)");
                        seen[idx] = true;
                        taken += 1;
                    }
                    Some(Err(Tag(x))) => {
                        ensure!(c, Some(x) == fails, "next() yielded the error of item {x}, failing item is {fails:?}");
                        taken += 1;
                    }
                }
            }
            drop(step);
        }
        StepMode::InOrder(k) => {
            let mut it = InOrderIter::from(step);
            let limit = k.unwrap_or(usize::MAX);
            let mut expect = 0usize;
            while taken < limit {
                if p.slow_consumer && n > 0 {
                    perturb(p.items[taken % n.max(1)].rotate_left(2) | 128);
                }
                match it.next() {
                    None => {
                        ensure!(
                            c,
                            expect == n && fails.is_none(),
                            "in-order iteration ended after {expect} of {n} results (failing item: {fails:?})"
                        );
                        drained = true;
                        break;
                    }
                    Some(Ok(val)) => {
                        ensure!(
                            c,
                            expect < n && val == value_of(expect),
                            "in-order iteration yielded {val:#x} at position {expect}, expected the result of item {expect} ({p:?})"
                        );
                        if let Some(f) = fails {
                            ensure!(c, expect != f, "failing item {f} yielded a value");
                        }
                        expect += 1;
                        taken += 1;
                    }
                    Some(Err(Tag(x))) => {
                        ensure!(c, Some(x) == fails, "in-order iteration yielded the error of item {x}, failing item is {fails:?}");
                        ensure!(c, expect <= x, "error of item {x} surfaced after {expect} in-order values");
                        ensure!(c, it.next().is_none(), "in-order iteration continued after its first error");
                        break;
                    }
                }
            }
            drop(it);
        }
    }
    // Dropping (or finalizing) a step-wise run terminates all its threads: every thread closure has returned, which
    // dropped its thread state, its consume/new_thread_state clones and the input iterator.
    let live_states = sh.live_states.load(SeqCst);
    let live_inputs = sh.live_inputs.load(SeqCst);
    let strong = Arc::strong_count(&sh);
    ensure!(
        c,
        live_states == 0 && live_inputs == 0 && strong == 1,
        "after the step-wise run was dropped: {live_states} thread states and {live_inputs} input iterators still alive, {} references to shared data held by threads ({p:?})",
        strong - 1
    );
    ensure!(c, sh.states_made.load(SeqCst) <= threads, "{} thread states for {threads} threads", sh.states_made.load(SeqCst));
    let counts: Vec<u32> = sh.counters.iter().map(|a| a.load(SeqCst)).collect();
    let twice: Vec<usize> = counts.iter().enumerate().filter(|(_, &x)| x > 1).map(|(i, _)| i).collect();
    ensure!(c, twice.is_empty(), "items {twice:?} were consumed more than once ({p:?})");
    let consumed: usize = counts.iter().map(|&x| x as usize).sum();
    if drained {
        ensure!(
            c,
            consumed == n && sh.pulled.load(SeqCst) == n,
            "run was drained but {consumed} of {n} items were consumed, {} pulled",
            sh.pulled.load(SeqCst)
        );
    } else if matches!(p.mode, StepMode::DropAfter(_)) {
        // results taken + result channel capacity + one item per worker thread
        let bound = taken + 2 * threads;
        ensure!(
            c,
            consumed <= bound,
            "{taken} results were taken before the drop but {consumed} items were consumed (> {bound}) ({p:?})"
        );
    }
}

// ------------------------------------------------------------------------------------------------
// EagerIter

fn wait_until(what: &str, c: &mut Case, f: impl Fn() -> bool) -> bool {
    // liveness helper for detached threads; never a verdict
    for i in 0..2_000_000u32 {
        if f() {
            return true;
        }
        if i < 1000 {
            std::thread::yield_now();
        } else {
            std::thread::sleep(Duration::from_micros(200));
        }
    }
    c.infra(format!("gave up waiting for {what}"));
    false
}

// ------------------------------------------------------------------------------------------------
// InOrderIter model

#[derive(Debug, Hash, Clone, Copy, PartialEq, Eq)]
enum Arrive {
    Ok(usize),
    Err(usize),
}

pub fn main() {
    let mut ck = Check::new("C51", "exploration");
    ck.rule("Runs of gix_features::parallel helpers decoded from a byte tape: thread_limit in {None,0,1,2,3,8,16}; item counts 0,1,2,=threads,threads+-1,multiples,up to 200; one perturbation byte per item (yield/spin/sleep<=200us before and after processing, also in feeder, reducer and step-wise consumer); reducer failing at its m-th feed or on a chosen item, consumer failing on chosen items, periodic() interrupting, step-wise runs dropped after k results. Non-trivial: >= 2 threads with >= threads+1 items and >= 1 perturbation, or an early failure/interrupt/drop; for in-order: a non-identity arrival order of >= 3 items or an error. Distinct by hash of the decoded plan.");
    ck.assume("schedules are sampled (OS scheduler + generated perturbation), not enumerated: the helpers are built on crossbeam_channel, std::sync::mpsc and std::thread::scope which no available model checker can drive without rewriting them");
    ck.assume("early-stop bounds: consumed <= fed + 2*threads (result channel capacity = threads, one item per worker thread); in_parallel_with_slice: each thread starts at most one item after stop_everything is set");

    let thr = 8;
    ck.sub(
        "in-parallel",
        SubCfg::new(3000, 100_000).max_len(240).threads(thr).isolated(120_000, false),
        |t, c| {
            let p = gen_par(t, c);
            let threads = effective_threads(p.limit);
            let parallel_run = p.helper != Helper::IfFalse && threads >= 2;
            c.key(&p);
            c.label_if(p.fail != FailAt::Never, "reducer-fails");
            c.nontrivial(
                parallel_run && p.items.len() > threads && p.items.iter().any(|&b| perturbs(b)) || p.fail != FailAt::Never && !p.items.is_empty(),
            );
            c.sample_with(|| format!("{p:?}"));
            run_par(&p, c);
        },
    );

    ck.sub(
        "slice",
        SubCfg::new(2500, 80_000).max_len(240).threads(thr).isolated(120_000, false),
        |t, c| {
            let p = gen_slice(t, c);
            let threads = effective_threads(p.limit);
            c.key(&p);
            c.nontrivial(
                threads >= 2 && p.items.len() > threads && p.items.iter().any(|i| perturbs(i.b))
                    || (p.interrupt_at != 0 || p.items.iter().any(|i| i.fail)) && !p.items.is_empty(),
            );
            c.sample_with(|| {
                format!(
                    "limit={:?} items={} failing={:?} stealers={} interrupt_at={} periodic_us={}",
                    p.limit,
                    p.items.len(),
                    p.items.iter().enumerate().filter(|(_, i)| i.fail).map(|(i, _)| i).collect::<Vec<_>>(),
                    p.items.iter().filter(|i| i.steal).count(),
                    p.interrupt_at,
                    p.periodic_us
                )
            });
            run_slice(&p, c);
        },
    );

    ck.sub(
        "stepwise",
        SubCfg::new(2000, 60_000).max_len(160).threads(thr).isolated(120_000, false),
        |t, c| {
            let p = gen_step(t, c);
            let threads = effective_threads(p.limit);
            c.key(&p);
            c.nontrivial(
                threads >= 2 && p.items.len() > threads && p.items.iter().any(|&b| perturbs(b))
                    || !p.items.is_empty() && (p.failing.is_some() || !matches!(p.mode, StepMode::Finalize | StepMode::InOrder(None))),
            );
            c.sample_with(|| format!("{p:?}"));
            run_step(&p, c);
        },
    );

    ck.sub(
        "eager",
        SubCfg::new(1500, 50_000).max_len(240).threads(thr).isolated(120_000, false),
        |t, c| {
            let n = match t.weighted(&[1, 1, 1, 6]) {
                0 => 0,
                1 => 1,
                2 => 2,
                _ => t.range(3, 200),
            };
            let chunk_size = match t.weighted(&[3, 3, 2, 1]) {
                0 => 1,
                1 => t.range(2, 8),
                2 => n.max(1),
                _ => n + 1 + t.range(0, 4),
            };
            let in_flight = t.range(0, 4);
            let variant = t.weighted(&[4, 2, 2]); // EagerIter, EagerIterIf(true), EagerIterIf(false)
            let drop_after = if t.chance(80) { Some(t.range(0, n)) } else { None };
            let slow_consumer = t.bool();
            let items = item_bytes(t, n);
            c.key(&(n, chunk_size, in_flight, variant, drop_after, slow_consumer, &items));
            c.label(match variant {
                0 => "EagerIter",
                1 => "EagerIterIf(true)",
                _ => "EagerIterIf(false)",
            });
            c.label_if(drop_after.is_some(), "dropped-early");
            c.label_if(n % chunk_size != 0 && n > chunk_size, "partial-last-chunk");
            c.label_if(in_flight == 0, "rendezvous-channel");
            c.nontrivial(n > chunk_size && variant != 2 && (items.iter().any(|&b| perturbs(b)) || drop_after.is_some()));
            c.sample_with(|| format!("n={n} chunk_size={chunk_size} chunks_in_flight={in_flight} variant={variant} drop_after={drop_after:?}"));
            let sh = Arc::new(Shared {
                items: items.clone(),
                counters: Vec::new(),
                pulled: AtomicUsize::new(0),
                live_states: AtomicIsize::new(0),
                live_inputs: AtomicIsize::new(1),
                states_made: AtomicUsize::new(0),
                failing: None,
            });
            let input = InputIter { sh: sh.clone(), next: 0 };
            let mut it: Box<dyn Iterator<Item = usize>> = match variant {
                0 => Box::new(EagerIter::new(input, chunk_size, in_flight)),
                1 => Box::new(EagerIterIf::new(|| true, input, chunk_size, in_flight)),
                _ => Box::new(EagerIterIf::new(|| false, input, chunk_size, in_flight)),
            };
            let limit = drop_after.unwrap_or(usize::MAX);
            let mut got = 0usize;
            let mut ended = false;
            while got < limit {
                if slow_consumer && n > 0 {
                    perturb(items[got % n].rotate_left(2));
                }
                match it.next() {
                    None => {
                        ended = true;
                        break;
                    }
                    Some(v) => {
                        ensure!(c, v == got, "position {got} yielded item {v} (n={n} chunk_size={chunk_size} in_flight={in_flight})");
                        got += 1;
                    }
                }
            }
            if ended {
                ensure!(c, got == n, "iteration ended after {got} of {n} items (chunk_size={chunk_size} in_flight={in_flight})");
                ensure!(c, it.next().is_none(), "iterator yielded something after its end");
            }
            drop(it);
            // the evaluating thread is detached: wait for it to notice the closed channel (no leftover threads)
            if !wait_until("the EagerIter thread to end", c, || sh.live_inputs.load(SeqCst) == 0) {
                return;
            }
            let pulled = sh.pulled.load(SeqCst);
            if ended {
                ensure!(c, pulled == n, "{pulled} items pulled from the inner iterator, it has {n}");
            } else if variant == 2 {
                ensure!(c, pulled == got, "on-demand variant pulled {pulled} items for {got} yielded");
            } else {
                // chunks handed out + chunks buffered + the one the thread holds (+1: a chunk taken out of a rendezvous channel)
                let chunks = (got + chunk_size - 1) / chunk_size + in_flight + 2;
                ensure!(
                    c,
                    pulled <= chunks * chunk_size,
                    "{got} items were taken before the drop, {pulled} were pulled (> {} = {chunks} chunks of {chunk_size})",
                    chunks * chunk_size
                );
            }
        },
    );

    ck.sub("in-order", SubCfg::new(30_000, 1_000_000).max_len(80), |t, c| {
        let n = match t.weighted(&[1, 1, 1, 8]) {
            0 => 0,
            1 => 1,
            2 => 2,
            _ => t.range(3, 48),
        };
        let mut order: Vec<usize> = (0..n).collect();
        let shape = t.weighted(&[1, 1, 4, 4]);
        match shape {
            0 => {}
            1 => order.reverse(),
            2 => {
                // bounded displacement, like results of a thread pool
                let w = t.range(2, 8);
                let mut i = 0;
                while i < n {
                    let end = (i + w).min(n);
                    for j in (i + 1..end).rev() {
                        let k = i + t.below(j - i + 1);
                        order.swap(j, k);
                    }
                    i = end;
                }
            }
            _ => {
                for j in (1..n).rev() {
                    let k = t.below(j + 1);
                    order.swap(j, k);
                }
            }
        }
        let mut arrivals: Vec<Arrive> = order.iter().map(|&s| Arrive::Ok(s)).collect();
        let err_at = if t.chance(90) { Some(t.range(0, n)) } else { None };
        if let Some(p) = err_at {
            arrivals.insert(p, Arrive::Err(p));
            if t.chance(64) {
                let q = t.range(p + 1, arrivals.len());
                arrivals.insert(q, Arrive::Err(1000 + q));
            }
        }
        c.key(&arrivals);
        c.label(match shape {
            0 => "identity",
            1 => "reversed",
            2 => "windowed",
            _ => "shuffled",
        });
        c.label_if(err_at.is_some(), "with-error");
        let identity = order.iter().enumerate().all(|(i, &s)| i == s);
        c.nontrivial(n >= 3 && !identity || err_at.is_some() && n >= 1);
        c.sample_with(|| format!("{arrivals:?}"));
        // model: values arrived before the first error, restricted to the contiguous run from 0
        let first_err = arrivals.iter().position(|a| matches!(a, Arrive::Err(_)));
        let before: Vec<usize> = arrivals[..first_err.unwrap_or(arrivals.len())]
            .iter()
            .map(|a| match a {
                Arrive::Ok(s) => *s,
                Arrive::Err(_) => unreachable!(),
            })
            .collect();
        let mut contiguous = 0;
        while before.contains(&contiguous) {
            contiguous += 1;
        }
        let polled = std::cell::Cell::new(0usize);
        let inner = arrivals.iter().map(|a| {
            polled.set(polled.get() + 1);
            match *a {
                Arrive::Ok(s) => Ok((s, value_of(s))),
                Arrive::Err(e) => Err(Tag(e)),
            }
        });
        let mut it = InOrderIter::from(inner);
        let mut yielded = 0usize;
        loop {
            match it.next() {
                None => {
                    ensure!(
                        c,
                        first_err.is_none() && yielded == n,
                        "iteration ended after {yielded} values; input has {n} values, first error at {first_err:?}: {arrivals:?}"
                    );
                    break;
                }
                Some(Ok(v)) => {
                    ensure!(
                        c,
                        yielded < contiguous && v == value_of(yielded),
                        "position {yielded} yielded {v:#x}; expected the value with sequence id {yielded} ({} in-sequence values had arrived): {arrivals:?}",
                        contiguous
                    );
                    yielded += 1;
                }
                Some(Err(Tag(e))) => {
                    let Some(fe) = first_err else {
                        c.fail(format!("error {e} yielded but the input has none: {arrivals:?}"));
                        return;
                    };
                    ensure!(c, arrivals[fe] == Arrive::Err(e), "yielded error {e}, the first error is {:?}", arrivals[fe]);
                    ensure!(c, it.next().is_none(), "iteration continued after the first error: {arrivals:?}");
                    ensure!(c, it.next().is_none(), "iteration resumed after returning None: {arrivals:?}");
                    // everything that arrived in sequence strictly before the value preceding the error is out already:
                    // the iterator may hold back at most what it buffered
                    break;
                }
            }
        }
        if first_err.is_none() {
            ensure!(c, polled.get() == arrivals.len(), "inner iterator polled {} times for {} items", polled.get(), arrivals.len());
        }
    });

    ck.finish();
}
