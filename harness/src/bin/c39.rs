//! C39 — pathspecs select the same paths as git.
//!
//! One case = one generated index (0..60 paths, nested, case variants, names with glob characters and a leading colon),
//! a root `.gitattributes`, an optional sub-directory as working directory (the pathspec prefix), and 6 pathspec lists
//! of 1..4 specs with magic (long and short forms, combinations, attr).
//! Oracle: `git ls-files -z --full-name -- <specs>` run in that directory, one call per list.
//! gitoxide: `gix_pathspec::parse` + `Search::from_specs(specs, prefix, root)` + `pattern_matching_relative_path()` for
//! every index path (attribute lookups through a `gix_worktree::Stack` like `gix::Pathspec` does), plus, when the
//! working directory is the root, the `gix::Repository::pathspec()` wrapper (`is_included`, `index_entries_with_paths`).
use bstr::{BString, ByteSlice};
use std::path::Path;
use vp::*;

const EMPTY_BLOB: &str = "e69de29bb2d1d6434b8b29ae775ad8c2e48c5391";
const COMPONENTS: &[&str] = &[
    "a", "b", "dir", "Dir", "sub", "x.txt", "X.TXT", "f.c", "a*b", "q?", "[x]", "a\\b", "d e", ".hid", ":c", "!e", "ab", "dirx",
    "su", "DIR",
];
const ATTR_NAMES: &[&str] = &["a", "b", "lbl"];

#[derive(Clone, Debug, Hash)]
struct Spec {
    paths: Vec<Vec<u8>>,
    gitattributes: Vec<u8>,
    /// "" or a directory (without trailing slash) that is a leading directory of some path
    prefix: Vec<u8>,
    lists: Vec<Vec<Vec<u8>>>,
}

fn dirs_of(paths: &[Vec<u8>]) -> Vec<Vec<u8>> {
    let mut dirs: Vec<Vec<u8>> = Vec::new();
    for p in paths {
        let mut pos = 0;
        while let Some(i) = p[pos..].find_byte(b'/') {
            let d = p[..pos + i].to_vec();
            pos += i + 1;
            if !dirs.contains(&d) {
                dirs.push(d);
            }
        }
    }
    dirs
}

fn gen_paths(t: &mut Tape) -> Vec<Vec<u8>> {
    let n = match t.weighted(&[1, 6, 6, 2]) {
        0 => 0,
        1 => t.range(1, 8),
        2 => t.range(8, 30),
        _ => t.range(30, 60),
    };
    let mut paths: Vec<Vec<u8>> = Vec::new();
    for _ in 0..n {
        let depth = t.weighted(&[4, 5, 3, 1]) + 1;
        let mut p: Vec<u8> = Vec::new();
        // reuse an existing directory most of the time so that directories have several entries
        if depth > 1 && !paths.is_empty() && t.chance(160) {
            let other = &paths[t.below(paths.len())];
            if let Some(i) = other.rfind_byte(b'/') {
                p = other[..i].to_vec();
            }
        }
        let have = if p.is_empty() { 0 } else { p.iter().filter(|b| **b == b'/').count() + 1 };
        for _ in have..depth.max(have + 1) {
            if !p.is_empty() {
                p.push(b'/');
            }
            p.extend_from_slice(t.pick(COMPONENTS).as_bytes());
        }
        // no duplicates and no directory/file conflicts
        let conflict = paths.iter().any(|o| {
            o == &p
                || (o.len() > p.len() && o.starts_with(&p) && o[p.len()] == b'/')
                || (p.len() > o.len() && p.starts_with(o) && p[o.len()] == b'/')
        });
        if !conflict {
            paths.push(p);
        }
    }
    paths.sort();
    paths
}

fn gen_gitattributes(t: &mut Tape, paths: &[Vec<u8>]) -> Vec<u8> {
    let mut out = Vec::new();
    for _ in 0..t.range(0, 5) {
        let pat: Vec<u8> = match t.weighted(&[3, 3, 2, 2]) {
            0 => b"*.txt".to_vec(),
            1 if !paths.is_empty() => {
                let p = &paths[t.below(paths.len())];
                let base = p.rfind_byte(b'/').map_or(&p[..], |i| &p[i + 1..]);
                if base.iter().any(|b| matches!(b, b' ' | b'"' | b'\\' | b'*' | b'?' | b'[' | b'!' | b'#' | b':')) {
                    b"*".to_vec()
                } else {
                    base.to_vec()
                }
            }
            2 => b"dir/*".to_vec(),
            _ => b"*".to_vec(),
        };
        out.extend(pat);
        for _ in 0..t.range(1, 2) {
            out.push(b' ');
            let name = t.pick(ATTR_NAMES);
            match t.weighted(&[4, 2, 1, 3]) {
                0 => out.extend_from_slice(name.as_bytes()),
                1 => {
                    out.push(b'-');
                    out.extend_from_slice(name.as_bytes());
                }
                2 => {
                    out.push(b'!');
                    out.extend_from_slice(name.as_bytes());
                }
                _ => {
                    out.extend_from_slice(name.as_bytes());
                    out.extend_from_slice(if t.bool() { b"=v" } else { b"=w" });
                }
            }
        }
        out.push(b'\n');
    }
    out
}

fn rel_to_prefix(path: &[u8], prefix: &[u8]) -> Option<Vec<u8>> {
    if prefix.is_empty() {
        return Some(path.to_vec());
    }
    if path.len() > prefix.len() + 1 && path.starts_with(prefix) && path[prefix.len()] == b'/' {
        Some(path[prefix.len() + 1..].to_vec())
    } else if path == prefix {
        Some(b".".to_vec())
    } else {
        None
    }
}

/// One pathspec. Returns the spec and whether its path part is a literal that ends inside a path component of a target.
fn gen_pathspec(t: &mut Tape, spec_paths: &[Vec<u8>], dirs: &[Vec<u8>], prefix: &[u8], c: &mut Case) -> (Vec<u8>, bool) {
    let mut ends_inside_component = false;
    // --- magic
    let mut long: Vec<&str> = Vec::new();
    let mut short: Vec<u8> = Vec::new();
    let mut top = false;
    let mut literal = false;
    let mut glob = false;
    match t.weighted(&[10, 4, 3, 4, 5, 3, 3, 2]) {
        0 => {}
        1 => {
            glob = true;
            long.push("glob");
        }
        2 => {
            literal = true;
            long.push("literal");
        }
        3 => long.push("icase"),
        4 => {
            if t.bool() {
                long.push("exclude");
            } else {
                short.push(*t.pick(b"!^".as_slice()));
            }
        }
        5 => {
            top = true;
            if t.bool() {
                long.push("top");
            } else {
                short.push(b'/');
            }
        }
        6 => {
            // combinations
            for m in ["icase", "glob", "exclude", "top", "literal"] {
                if t.chance(96) {
                    long.push(m);
                }
            }
            top = long.contains(&"top");
            literal = long.contains(&"literal");
            glob = long.contains(&"glob");
            if t.chance(40) {
                short.push(*t.pick(b"!/^".as_slice()));
                top |= short.contains(&b'/');
            }
        }
        _ => {
            c.label("spec-attr");
            long.push(*t.pick(&[
                "attr:a", "attr:-a", "attr:!a", "attr:a=v", "attr:b", "attr:a b", "attr:lbl", "attr:a=w", "attr:-b lbl", "attr:zz",
                "attr:!zz",
            ]));
            if t.chance(64) {
                long.push(*t.pick(&["icase", "glob", "top", "exclude"]));
                top = long.contains(&"top");
                glob = long.contains(&"glob");
            }
        }
    }
    let excluded = long.contains(&"exclude") || short.iter().any(|b| matches!(b, b'!' | b'^'));
    c.label_if(excluded, "spec-exclude");
    c.label_if(long.contains(&"icase"), "spec-icase");
    c.label_if(glob, "spec-glob");
    c.label_if(literal, "spec-literal");
    c.label_if(top, "spec-top");

    // --- path part
    let base_prefix: &[u8] = if top { b"" } else { prefix };
    let mut path: Vec<u8> = Vec::new();
    let targets: Vec<&Vec<u8>> = spec_paths.iter().chain(dirs.iter()).collect();
    let form = t.weighted(&[8, 5, 4, 6, 3, 3, 2]);
    if targets.is_empty() || form == 6 {
        c.label("spec-pool");
        let pool: &[&[u8]] = &[b".", b"*", b"", b"**", b"*/", b"a", b"..", b"./", b"../", b"**/a", b"?", b"*.txt", b"dir/", b"./a"];
        path.extend_from_slice(pool[t.below(pool.len())]);
    } else {
        let target = targets[t.below(targets.len())].clone();
        let rel = match rel_to_prefix(&target, base_prefix) {
            Some(r) => r,
            None => {
                // outside of the working directory: go up
                c.label("spec-dotdot");
                let ups = base_prefix.iter().filter(|b| **b == b'/').count() + 1;
                let mut r = Vec::new();
                for _ in 0..ups {
                    r.extend_from_slice(b"../");
                }
                r.extend_from_slice(&target);
                r
            }
        };
        // the working directory itself ("."): only the plain forms make sense
        let form = if rel == b"." && !matches!(form, 0 | 1) { 0 } else { form };
        match form {
            0 => {
                c.label("spec-exact");
                path = rel;
            }
            1 => {
                c.label("spec-trailing-slash");
                path = rel;
                path.push(b'/');
            }
            2 => {
                // a literal that ends inside the last path component
                c.label("spec-partial-component");
                let cut = rel.rfind_byte(b'/').map_or(0, |i| i + 1);
                let last_len = rel.len() - cut;
                if last_len >= 2 {
                    path = rel[..cut + t.range(1, last_len - 1)].to_vec();
                    ends_inside_component = true;
                } else {
                    path = rel;
                }
            }
            3 => {
                c.label("spec-wildcard");
                let cut = rel.rfind_byte(b'/').map_or(0, |i| i + 1);
                let (dir, last) = rel.split_at(cut);
                path.extend_from_slice(dir);
                match t.weighted(&[3, 3, 2, 2, 2, 2]) {
                    0 => {
                        let keep = t.range(0, last.len());
                        path.extend_from_slice(&last[..keep]);
                        path.push(b'*');
                        ends_inside_component = keep > 0 && keep < last.len();
                    }
                    1 => {
                        path.push(b'*');
                        let keep = t.range(0, last.len());
                        path.extend_from_slice(&last[last.len() - keep..]);
                    }
                    2 => {
                        for (i, b) in last.iter().enumerate() {
                            path.push(if i == last.len() / 2 { b'?' } else { *b });
                        }
                    }
                    3 => {
                        for (i, b) in last.iter().enumerate() {
                            if i == 0 && b.is_ascii_alphanumeric() {
                                path.push(b'[');
                                path.push(b.to_ascii_lowercase());
                                path.push(b']');
                            } else {
                                path.push(*b);
                            }
                        }
                    }
                    4 => {
                        path.truncate(0);
                        path.extend_from_slice(b"**/");
                        path.extend_from_slice(last);
                    }
                    _ => {
                        path.truncate(0);
                        let first = rel.split(|b| *b == b'/').next().unwrap_or(b"");
                        path.extend_from_slice(first);
                        path.extend_from_slice(if t.bool() { b"/**" } else { b"/*" });
                    }
                }
            }
            4 => {
                c.label("spec-case-flipped");
                path = rel;
                for b in path.iter_mut() {
                    if b.is_ascii_alphabetic() && t.chance(128) {
                        *b ^= 0x20;
                    }
                }
            }
            _ => {
                c.label("spec-escaped");
                for b in &rel {
                    if matches!(b, b'*' | b'?' | b'[' | b'\\') {
                        path.push(b'\\');
                    }
                    path.push(*b);
                }
            }
        }
    }
    // --- assemble
    let mut out = Vec::new();
    let needs_magic = !long.is_empty() || !short.is_empty();
    if needs_magic {
        out.push(b':');
        out.extend_from_slice(&short);
        if !long.is_empty() || t.chance(24) {
            out.push(b'(');
            out.extend_from_slice(long.join(",").as_bytes());
            out.push(b')');
        } else if t.chance(128) {
            // short magic may be terminated by a colon
            out.push(b':');
        }
    } else if path.first() == Some(&b':') {
        // a path starting with a colon needs the empty magic (or is deliberately left as is: then it is magic)
        if !t.chance(48) {
            out.extend_from_slice(b":()");
        } else {
            c.label("spec-colon-path-unprotected");
        }
    }
    out.extend_from_slice(&path);
    (out, ends_inside_component)
}

fn gen_spec(t: &mut Tape, c: &mut Case) -> (Spec, bool) {
    let paths = gen_paths(t);
    let dirs = dirs_of(&paths);
    let gitattributes = gen_gitattributes(t, &paths);
    let prefix = if !dirs.is_empty() && t.chance(100) {
        dirs[t.below(dirs.len())].clone()
    } else {
        Vec::new()
    };
    c.label(if prefix.is_empty() { "cwd-root" } else { "cwd-subdir" });
    let mut lists = Vec::new();
    let mut nontrivial = false;
    for _ in 0..6 {
        let n = t.weighted(&[0, 5, 4, 2, 1]).max(1);
        let mut list = Vec::new();
        for _ in 0..n {
            let (s, inside) = gen_pathspec(t, &paths, &dirs, &prefix, c);
            nontrivial |= inside;
            if !s.is_empty() && !s.contains(&0) {
                list.push(s);
            }
        }
        if list.is_empty() {
            list.push(b"*".to_vec());
        }
        lists.push(list);
    }
    (
        Spec {
            paths,
            gitattributes,
            prefix,
            lists,
        },
        nontrivial,
    )
}

fn os(p: &[u8]) -> &std::ffi::OsStr {
    use std::os::unix::ffi::OsStrExt;
    std::ffi::OsStr::from_bytes(p)
}

fn build(spec: &Spec) -> Result<World, String> {
    let world = World::new("c39", false)?;
    let root = world.repo();
    let e = |e: std::io::Error| e.to_string();
    if !spec.paths.is_empty() {
        let mut input = Vec::new();
        for p in &spec.paths {
            input.extend_from_slice(format!("100644 {EMPTY_BLOB}\t").as_bytes());
            input.extend_from_slice(p);
            input.push(0);
        }
        world.git.run_in(["update-index", "-z", "--index-info"], Some(&input))?;
    }
    std::fs::write(root.join(".gitattributes"), &spec.gitattributes).map_err(e)?;
    if !spec.prefix.is_empty() {
        std::fs::create_dir_all(root.join(os(&spec.prefix))).map_err(e)?;
    }
    Ok(world)
}

/// `Ok(None)`: git refuses the pathspec list
fn git_select(world: &World, spec: &Spec, list: &[Vec<u8>]) -> Result<Option<Vec<Vec<u8>>>, String> {
    let cwd = if spec.prefix.is_empty() {
        world.repo()
    } else {
        world.repo().join(os(&spec.prefix))
    };
    let git = world.git.at(cwd).env("GIT_ATTR_NOSYSTEM", "1");
    let mut args: Vec<&std::ffi::OsStr> = vec![
        std::ffi::OsStr::new("ls-files"),
        std::ffi::OsStr::new("-z"),
        std::ffi::OsStr::new("--full-name"),
        std::ffi::OsStr::new("--"),
    ];
    for s in list {
        args.push(os(s));
    }
    let (ok, out, err) = git.try_run(args, None)?;
    if !ok {
        if err.starts_with(b"fatal:") || err.starts_with(b"error:") {
            return Ok(None);
        }
        return Err(format!("git ls-files failed oddly: {}", String::from_utf8_lossy(&err)));
    }
    let mut sel: Vec<Vec<u8>> = out.split(|b| *b == 0).filter(|s| !s.is_empty()).map(|s| s.to_vec()).collect();
    sel.sort();
    Ok(Some(sel))
}

fn describe(spec: &Spec, list: &[Vec<u8>]) -> String {
    format!(
        "pathspecs {:?} in cwd `{}`; index paths {:?}; .gitattributes `{}`",
        list.iter().map(|s| show(s)).collect::<Vec<_>>(),
        show(&spec.prefix),
        spec.paths.iter().map(|s| show(s)).collect::<Vec<_>>(),
        show(&spec.gitattributes)
    )
}

fn nowildcard_len(p: &[u8]) -> usize {
    p.iter().position(|b| matches!(b, b'*' | b'?' | b'[' | b'\\')).unwrap_or(p.len())
}

/// git prunes the index by the common leading directory of the non-exclude items and then strips that many bytes from
/// EVERY item, also from exclude items that do not start with it (reading past their end). Lists for which that
/// happens are outside of what git can serve as oracle for. `items`: (normalized path, excluded, icase, literal) in
/// the order given; `cwd` = "" or "dir/".
fn git_strips_prefix_from_foreign_exclude(items: &[(Vec<u8>, bool, bool, bool)], cwd: &[u8]) -> bool {
    let mut items: Vec<(Vec<u8>, bool, bool, bool)> = items.to_vec();
    if items.iter().all(|i| i.1) {
        items.push((cwd.to_vec(), false, false, true));
    }
    let mut max = 0usize;
    let mut first = true;
    for it in items.iter() {
        if it.1 {
            continue;
        }
        let item_len = if it.2 {
            if it.0.starts_with(cwd) {
                cwd.len()
            } else {
                0
            }
        } else if it.3 {
            it.0.len()
        } else {
            nowildcard_len(&it.0)
        };
        let mut i = 0;
        let mut len = 0;
        while i < item_len && (first || i < max) {
            let ch = it.0[i];
            if items[0].0.get(i) != Some(&ch) {
                break;
            }
            if ch == b'/' {
                len = i + 1;
            }
            i += 1;
        }
        if first || len < max {
            max = len;
            if max == 0 {
                break;
            }
        }
        first = false;
    }
    max > 0 && items.iter().any(|it| it.1 && !(it.0.len() >= max && it.0[..max] == items[0].0[..max]))
}

const SIG_DOT: &str = "dot-pathspec-becomes-literal-common-prefix";
const SIG_EXCLUDE_ONLY_CWD: &str = "exclude-only-list-ignores-cwd";
const SIG_TOP_NORMALIZED: &str = "top-magic-path-normalized";
const SIG_PREFIX_GLOB: &str = "cwd-prefix-interpreted-as-glob";
const SIG_ICASE_CWD: &str = "icase-spec-for-cwd-folds-prefix";
const SIG_SHORT_LONG: &str = "short-then-long-magic-accepted";
const SIG_ATTR_UNSPECIFIED: &str = "attr-unspecified-requirement-never-matches";

/// `C39_PROBE=<worktree> c39 <prefix> <spec>...`: what gitoxide selects from the index (triage helper)
fn probe(dir: &str) {
    let args: Vec<String> = std::env::args().skip(1).collect();
    let repo = gix::open_opts(dir, gix::open::Options::isolated()).expect("open");
    let index = repo.index_or_empty().expect("index");
    let patterns: Vec<_> = args[1..]
        .iter()
        .map(|s| gix_pathspec::parse(s.as_bytes(), Default::default()).expect("parse"))
        .collect();
    let mut search = gix_pathspec::Search::from_specs(patterns, Some(Path::new(&args[0])), Path::new(dir)).expect("from_specs");
    println!("common_prefix={:?} patterns={:?}", search.common_prefix(), search.patterns().map(|p| p.to_bstring()).collect::<Vec<_>>());
    let mut stack = repo
        .attributes_only(&index, gix::worktree::stack::state::attributes::Source::WorktreeThenIdMapping)
        .expect("attrs")
        .detach();
    for e in index.entries() {
        let p = e.path(&index);
        let m = search.pattern_matching_relative_path(p, Some(false), &mut |rela, case, _is_dir, out| {
            stack
                .set_case(case)
                .at_entry(rela, Some(gix::index::entry::Mode::FILE), &repo.objects)
                .map_or(false, |platform| platform.matching_attributes(out))
        });
        println!("{p}\t{:?}", m.map(|m| (m.pattern.to_bstring(), m.kind, m.is_excluded())));
    }
}

/// Triage helper for pinning known findings: `VP_PIN=<signature>` makes failures of that class carry an unknown signature
/// (`<signature>#pin`) so that the runner shrinks them and writes a case file even though the class is listed as known.
fn pin(sig: &str) -> String {
    match std::env::var("VP_PIN") {
        Ok(p) if p == sig => format!("{sig}#pin"),
        _ => sig.to_string(),
    }
}
fn pinning() -> bool {
    std::env::var_os("VP_PIN").is_some()
}

fn main() {
    if let Ok(dir) = std::env::var("C39_PROBE") {
        probe(&dir);
        return;
    }
    let mut ck = Check::new("C39", "exploration");
    ck.rule("Index of 0..60 paths (depth <= 4) over 20 component names incl. case variants (dir/Dir/DIR), prefix-related names (a/ab, dir/dirx, su/sub), glob characters (a*b, q?, [x], a\\b), blanks, leading ':' and '!'; root .gitattributes with 0..5 lines over 3 attributes; working directory = root (about 60%) or a leading directory of some path; 6 pathspec lists of 1..4 specs per world. Spec = magic (none, glob, literal, icase, exclude long/short '!' '^', top long/short '/', random combinations incl. literal+glob, attr:... with 11 requirement forms optionally combined, short magic with ':' terminator, ':()' ) + path part derived from an index path or leading directory relative to the working directory ('../' when outside): exact, trailing slash, literal cut inside the last component, wildcards (prefix*, *suffix, ?, [c], **/name, first/**, first/*), case-flipped, glob-escaped; or from a pool ('.', '*', '', '**', '..', './', '../', ...). NON-TRIVIAL world: some list has an exclude or icase spec, or a spec whose literal part ends inside a path component. Distinct by world description.");
    ck.assume(&format!("oracle: {} ls-files -z --full-name -- <specs>, run in the working directory, one call per list; lists that git refuses (fatal:) are not compared", Git::version()));
    ck.assume("lists for which git strips its common-prefix length from an exclude spec that does not start with that prefix (reads past the end of the spec; git's answer is arbitrary) are not compared (label skipped:git-exclude-outside-common-prefix)");
    ck.assume("disagreements that belong to a recorded deviation class (signatures in known_findings.json, decided per list by explicit predicates on the specs) fail the world only in 1 of 4 worlds ('strict-world'); elsewhere they are tolerated and counted as 'tolerated:<signature>' labels; any other disagreement fails in every world");
    ck.assume("index entries are regular files (is_dir = false); attributes come from the worktree .gitattributes of the root only");

    ck.sub("world", SubCfg::new(400, 10_000).max_len(4000).max_shrink(40), |t, c| {
        // recorded deviation classes fail the world in 1 of 4 worlds (strict), are tolerated and counted in the others
        let strict = t.chance(64);
        if pinning() && !strict {
            // pinned tapes must fail when replayed without VP_PIN: only strict worlds may be shrunk
            c.discard();
            return;
        }
        c.label(if strict { "strict-world" } else { "tolerant-world" });
        let mut deferred: Option<(&'static str, String)> = None;
        let (spec, inside) = gen_spec(t, c);
        c.key(&spec);
        let world = infra!(c, build(&spec), "build world");
        let root = world.repo();
        let repo = infra!(
            c,
            gix::open_opts(&root, gix::open::Options::isolated()).map_err(|e| e.to_string()),
            "gix open"
        );
        let index = infra!(c, repo.index_or_empty().map_err(|e| e.to_string()), "gix index");
        let source = gix::worktree::stack::state::attributes::Source::WorktreeThenIdMapping;
        let mut nontrivial = inside;
        let mut compared = 0usize;
        let mut nonempty_selection = 0usize;
        for list in &spec.lists {
            let git = infra!(c, git_select(&world, &spec, list), "git ls-files");
            // parse
            let mut patterns = Vec::new();
            let mut parse_error = None;
            for s in list {
                match gix_pathspec::parse(s, Default::default()) {
                    Ok(p) => patterns.push(p),
                    Err(e) => {
                        parse_error = Some(format!("parse(`{}`): {e}", show(s)));
                        break;
                    }
                }
            }
            let Some(git) = git else {
                c.label(if parse_error.is_some() { "git-rejects-gix-rejects" } else { "git-rejects-gix-parses" });
                continue;
            };
            // ':' + short magic characters directly followed by '(': git ends the magic there (the parenthesis belongs to the
            // path), gitoxide goes on parsing long magic
            let short_then_long_magic = list.iter().any(|s| {
                s.first() == Some(&b':') && {
                    let n = s[1..].iter().take_while(|b| matches!(b, b'!' | b'^' | b'/')).count();
                    n > 0 && s.get(1 + n) == Some(&b'(')
                }
            });
            if let Some(e) = parse_error {
                if short_then_long_magic {
                    let msg = format!("git accepts the list but gitoxide does not: {e}; {}", describe(&spec, list));
                    if strict {
                        deferred.get_or_insert((SIG_SHORT_LONG, msg));
                    } else {
                        c.label("tolerated:short-then-long-magic-accepted");
                    }
                    continue;
                }
                c.fail_sig(
                    "gitoxide-rejects-accepted-pathspec",
                    format!("git accepts the list but gitoxide does not: {e}; {}", describe(&spec, list)),
                );
                return;
            }
            // --- domain and recorded deviation classes, decided per list
            let cwd: Vec<u8> = if spec.prefix.is_empty() {
                Vec::new()
            } else {
                let mut v = spec.prefix.clone();
                v.push(b'/');
                v
            };
            let prefix_path = Path::new(os(&spec.prefix));
            let mut git_items = Vec::new();
            let mut normalize_failed = false;
            for p in &patterns {
                let mut n = p.clone();
                if n.normalize(prefix_path, &root).is_err() {
                    normalize_failed = true;
                    break;
                }
                let mut path = n.path().to_vec();
                if p.signature.contains(gix_pathspec::MagicSignature::MUST_BE_DIR) {
                    path.push(b'/');
                }
                if n.is_nil() {
                    path = cwd.clone();
                }
                git_items.push((
                    path,
                    p.is_excluded(),
                    p.signature.contains(gix_pathspec::MagicSignature::ICASE),
                    p.search_mode == gix_pathspec::SearchMode::Literal,
                ));
            }
            if !normalize_failed && git_strips_prefix_from_foreign_exclude(&git_items, &cwd) {
                c.label("skipped:git-exclude-outside-common-prefix");
                continue;
            }
            let all_excluded = patterns.iter().all(|p| p.is_excluded());
            let top_with_unnormalized_path = patterns.iter().any(|p| {
                p.signature.contains(gix_pathspec::MagicSignature::TOP)
                    && !p.path().is_empty()
                    && p.path().split(|b| *b == b'/').any(|comp| comp.is_empty() || comp == b"." || comp == b"..")
            });
            let requires_unspecified_attr = patterns.iter().any(|p| {
                p.attributes
                    .iter()
                    .any(|a| matches!(a.state, gix_attributes::State::Unspecified))
            });
            // the working directory prefix is literal and case-sensitive in git
            let prefix_has_glob_chars = spec.prefix.iter().any(|b| matches!(b, b'*' | b'?' | b'[' | b'\\'));
            let icase_spec_is_cwd = !spec.prefix.is_empty()
                && !normalize_failed
                && git_items
                    .iter()
                    .any(|(path, _, icase, _)| *icase && (path == &spec.prefix || path == &cwd));
            let has_exclude = patterns.iter().any(|p| p.is_excluded());
            let has_icase = patterns.iter().any(|p| p.signature.contains(gix_pathspec::MagicSignature::ICASE));
            nontrivial |= has_exclude || has_icase;
            let mut search = match gix_pathspec::Search::from_specs(patterns, Some(prefix_path), &root) {
                Ok(s) => s,
                Err(e) => {
                    let msg = format!("git accepts the list but Search::from_specs() fails: {e}; {}", describe(&spec, list));
                    if top_with_unnormalized_path {
                        // git takes the path of a :(top) spec as it is ('../' matches nothing), gitoxide normalizes it
                        if strict {
                            deferred.get_or_insert((SIG_TOP_NORMALIZED, msg));
                        } else {
                            c.label("tolerated:top-magic-path-normalized");
                        }
                        continue;
                    }
                    if short_then_long_magic {
                        // for git the parenthesis is part of the path, for gitoxide it is magic and the path is what follows
                        if strict {
                            deferred.get_or_insert((SIG_SHORT_LONG, msg));
                        } else {
                            c.label("tolerated:short-then-long-magic-accepted");
                        }
                        continue;
                    }
                    c.fail_sig("gitoxide-rejects-accepted-pathspec", msg);
                    return;
                }
            };
            let mut stack = match repo.attributes_only(&index, source) {
                Ok(s) => s.detach(),
                Err(e) => {
                    c.fail(format!("attributes_only(): {e}"));
                    return;
                }
            };
            let mut ours: Vec<Vec<u8>> = Vec::new();
            for p in &spec.paths {
                let m = search.pattern_matching_relative_path(p.as_bstr(), Some(false), &mut |rela, case, is_dir, out| {
                    let mode = if is_dir {
                        gix::index::entry::Mode::DIR
                    } else {
                        gix::index::entry::Mode::FILE
                    };
                    stack
                        .set_case(case)
                        .at_entry(rela, Some(mode), &repo.objects)
                        .map_or(false, |platform| platform.matching_attributes(out))
                });
                if m.map_or(false, |m| !m.is_excluded()) {
                    ours.push(p.clone());
                }
            }
            ours.sort();
            compared += 1;
            nonempty_selection += (!git.is_empty()) as usize;
            // a non-exclude spec that means "the working directory itself" ('.', './', '..' from a sub-directory) is kept as
            // literal "." and becomes the common prefix all paths must start with
            let dot_is_common_prefix =
                search.common_prefix() == "." && search.patterns().any(|p| p.is_nil() && !p.is_excluded());
            let class: &'static str = if dot_is_common_prefix {
                SIG_DOT
            } else if all_excluded && !spec.prefix.is_empty() {
                SIG_EXCLUDE_ONLY_CWD
            } else if top_with_unnormalized_path {
                SIG_TOP_NORMALIZED
            } else if requires_unspecified_attr {
                SIG_ATTR_UNSPECIFIED
            } else if short_then_long_magic {
                SIG_SHORT_LONG
            } else if prefix_has_glob_chars {
                SIG_PREFIX_GLOB
            } else if icase_spec_is_cwd {
                SIG_ICASE_CWD
            } else {
                ""
            };
            if ours != git {
                let only_git: Vec<String> = git.iter().filter(|p| !ours.contains(p)).map(|p| show(p)).collect();
                let only_ours: Vec<String> = ours.iter().filter(|p| !git.contains(p)).map(|p| show(p)).collect();
                let msg = format!(
                    "selection differs: only git selects {:?}, only gitoxide selects {:?}; {}",
                    only_git,
                    only_ours,
                    describe(&spec, list)
                );
                if class.is_empty() {
                    c.fail(msg);
                    return;
                }
                if strict {
                    deferred.get_or_insert((class, msg));
                } else {
                    c.label(match class {
                        SIG_DOT => "tolerated:dot-pathspec-becomes-literal-common-prefix",
                        SIG_EXCLUDE_ONLY_CWD => "tolerated:exclude-only-list-ignores-cwd",
                        SIG_SHORT_LONG => "tolerated:short-then-long-magic-accepted",
                        SIG_PREFIX_GLOB => "tolerated:cwd-prefix-interpreted-as-glob",
                        SIG_ICASE_CWD => "tolerated:icase-spec-for-cwd-folds-prefix",
                        SIG_ATTR_UNSPECIFIED => "tolerated:attr-unspecified-requirement-never-matches",
                        _ => "tolerated:top-magic-path-normalized",
                    });
                }
                continue;
            }
            // the gix wrapper can only be given the process' working directory, which is outside of the repository:
            // usable when the pathspecs are relative to the root
            if spec.prefix.is_empty() {
                let specs: Vec<BString> = list.iter().map(|s| BString::from(s.clone())).collect();
                match repo.pathspec(false, specs.iter().map(|s| s.as_bstr()), false, &index, source) {
                    Err(e) => {
                        c.fail_sig(
                            "gitoxide-rejects-accepted-pathspec",
                            format!("Repository::pathspec() fails: {e}; {}", describe(&spec, list)),
                        );
                        return;
                    }
                    Ok(mut ps) => {
                        let mut via_is_included: Vec<Vec<u8>> = spec
                            .paths
                            .iter()
                            .filter(|p| ps.is_included(p.as_bstr(), Some(false)))
                            .cloned()
                            .collect();
                        via_is_included.sort();
                        ensure!(
                            c,
                            via_is_included == git,
                            "gix::Pathspec::is_included() selects {:?}, git {:?}; {}",
                            via_is_included.iter().map(|p| show(p)).collect::<Vec<_>>(),
                            git.iter().map(|p| show(p)).collect::<Vec<_>>(),
                            describe(&spec, list)
                        );
                        let mut via_index: Vec<Vec<u8>> = match ps.index_entries_with_paths(&index) {
                            Some(it) => it.map(|(p, _)| p.to_vec()).collect(),
                            None => Vec::new(),
                        };
                        via_index.sort();
                        ensure!(
                            c,
                            via_index == git,
                            "gix::Pathspec::index_entries_with_paths() yields {:?}, git {:?}; {}",
                            via_index.iter().map(|p| show(p)).collect::<Vec<_>>(),
                            git.iter().map(|p| show(p)).collect::<Vec<_>>(),
                            describe(&spec, list)
                        );
                    }
                }
            }
        }
        c.label_if(compared == 0, "no-list-compared");
        c.label_if(nonempty_selection > 0, "some-selection-non-empty");
        c.nontrivial(nontrivial && compared > 0);
        c.sample_with(|| describe(&spec, &spec.lists[0]));
        if let Some((sig, msg)) = deferred {
            c.fail_sig(&pin(sig), msg);
        }
    });
    ck.finish();
}
