//! C37 — ignore decisions agree with `git check-ignore`.
//!
//! One case = one generated worktree (directories, files, per-directory `.gitignore` files, `info/exclude`,
//! `core.excludesFile`, `core.ignoreCase` on/off) plus ~40-70 query paths. Oracle: one
//! `git check-ignore -v -n -z --no-index --stdin` call per world; gitoxide: `Repository::excludes()` and
//! `at_entry(path).matching_exclude_pattern()` for every query on one shared stack (queries in generated order, so
//! the directory stack is pushed and popped in many ways). Compared per path: ignored or not, and the deciding
//! pattern's source file, line number and negation.
use bstr::{BString, ByteSlice, ByteVec};
use std::path::{Path, PathBuf};
use vp::*;

#[derive(Clone, Debug, Hash, PartialEq, Eq)]
enum Loc {
    Dir(Vec<u8>),
    InfoExclude,
    Global,
}

#[derive(Clone, Debug, Hash)]
struct Spec {
    dirs: Vec<Vec<u8>>,
    files: Vec<Vec<u8>>,
    ignore_files: Vec<(Loc, Vec<u8>)>,
    ignore_case: bool,
    global_configured_but_missing: bool,
    queries: Vec<Vec<u8>>,
}

/// path component names: plain, case variants, names that need escaping in patterns
const DIR_NAMES: &[&str] = &["a", "b", "dir", "Dir", "sub", "x.d", "A", "foo", "d e", "s*r", "build", "Build"];
const FILE_NAMES: &[&str] = &[
    "a", "b", "f.txt", "F.TXT", "b.o", "x", "foo", "Foo", ".hid", "a b", "#h", "!n", "c]", "q?", "s*r", "ba\\ck", "tr ",
    "main.c", "Main.C", "x.o", "\t", "$d", "[ab]",
];

fn join(dir: &[u8], name: &[u8]) -> Vec<u8> {
    if dir.is_empty() {
        name.to_vec()
    } else {
        let mut v = dir.to_vec();
        v.push(b'/');
        v.extend_from_slice(name);
        v
    }
}

fn basename(p: &[u8]) -> &[u8] {
    p.rfind_byte(b'/').map_or(p, |i| &p[i + 1..])
}
fn dirname(p: &[u8]) -> &[u8] {
    p.rfind_byte(b'/').map_or(&p[..0], |i| &p[..i])
}

fn flip_case(t: &mut Tape, s: &mut [u8], every: u32) {
    for b in s.iter_mut() {
        if b.is_ascii_alphabetic() && t.chance(every) {
            *b ^= 0x20;
        }
    }
}

/// escape what needs escaping for a literal match by an ignore pattern
fn escape_for_pattern(name: &[u8], out: &mut Vec<u8>, at_line_start: bool) {
    for (i, b) in name.iter().enumerate() {
        let special = matches!(b, b'*' | b'?' | b'[' | b'\\') || (i == 0 && at_line_start && matches!(b, b'#' | b'!'));
        if special {
            out.push(b'\\');
        }
        out.push(*b);
    }
    // a trailing space has to be escaped or it is trimmed
    if name.last() == Some(&b' ') {
        let l = out.len();
        out.insert(l - 1, b'\\');
    }
}

/// One pattern line (without line terminator) for an ignore file that lives in `base` ("" = root or global files)
fn gen_pattern(t: &mut Tape, base: &[u8], all_paths: &[Vec<u8>], c: &mut Case) -> Vec<u8> {
    // prefer targets below the base directory
    let below: Vec<&Vec<u8>> = all_paths
        .iter()
        .filter(|p| base.is_empty() || (p.len() > base.len() + 1 && p.starts_with(base) && p[base.len()] == b'/'))
        .collect();
    let target: Vec<u8> = if !below.is_empty() && !t.chance(32) {
        let p = below[t.below(below.len())];
        if base.is_empty() {
            p.to_vec()
        } else {
            p[base.len() + 1..].to_vec()
        }
    } else if !all_paths.is_empty() {
        all_paths[t.below(all_paths.len())].clone()
    } else {
        b"a".to_vec()
    };
    let comps: Vec<&[u8]> = target.split(|b| *b == b'/').collect();
    let base_name = comps[comps.len() - 1];
    let mut pat: Vec<u8> = Vec::new();
    let form = t.weighted(&[8, 6, 4, 4, 6, 5, 3, 3]);
    match form {
        0 => {
            c.label("pat-basename");
            escape_for_pattern(base_name, &mut pat, true);
        }
        1 => {
            c.label("pat-relative-path");
            for (i, comp) in comps.iter().enumerate() {
                if i > 0 {
                    pat.push(b'/');
                }
                escape_for_pattern(comp, &mut pat, i == 0);
            }
        }
        2 => {
            c.label("pat-anchored");
            for comp in comps.iter() {
                pat.push(b'/');
                escape_for_pattern(comp, &mut pat, false);
            }
        }
        3 => {
            c.label("pat-glob-in-basename");
            // turn one character of the basename into a glob
            let mut name = Vec::new();
            let pos = t.below(base_name.len().max(1));
            for (i, b) in base_name.iter().enumerate() {
                if i == pos {
                    match t.weighted(&[3, 3, 3, 2, 2]) {
                        0 => name.push(b'?'),
                        1 => {
                            name.push(b'[');
                            if t.chance(64) {
                                name.push(b'!');
                                name.push(b'~');
                            } else {
                                if matches!(b, b']' | b'\\' | b'[' | b'!' | b'^' | b'-') {
                                    name.push(b'\\');
                                }
                                name.push(b.to_ascii_lowercase());
                            }
                            name.push(b']');
                        }
                        2 => {
                            name.push(b'*');
                        }
                        3 => {
                            name.extend_from_slice(b"[a-z0-9]");
                        }
                        _ => {
                            name.push(b'*');
                            break;
                        }
                    }
                } else {
                    let mut tmp = Vec::new();
                    escape_for_pattern(&[*b], &mut tmp, i == 0);
                    // escape_for_pattern() escapes a trailing space of a one-byte name; only wanted at the very end
                    if *b == b' ' && i + 1 != base_name.len() {
                        tmp = vec![b' '];
                    }
                    name.extend(tmp);
                }
            }
            if t.chance(96) {
                for comp in &comps[..comps.len() - 1] {
                    escape_for_pattern(comp, &mut pat, false);
                    pat.push(b'/');
                }
            }
            pat.extend(name);
        }
        4 => {
            c.label("pat-suffix-or-prefix-star");
            match base_name.rfind_byte(b'.') {
                Some(dot) if dot > 0 && t.bool() => {
                    pat.push(b'*');
                    escape_for_pattern(&base_name[dot..], &mut pat, false);
                }
                _ => {
                    let keep = t.range(1, base_name.len().max(1));
                    escape_for_pattern(&base_name[..keep.min(base_name.len())], &mut pat, true);
                    if pat.last() == Some(&b' ') && pat.len() >= 2 && pat[pat.len() - 2] == b'\\' {
                        // keep "\ " intact
                    }
                    pat.push(b'*');
                }
            }
        }
        5 => {
            c.label("pat-starstar");
            match t.weighted(&[3, 3, 3, 2, 2, 1]) {
                5 => {
                    // `lit**/name`: git lets this `**` cross directories (recorded deviation class)
                    c.label("pat-doublestar-after-literal");
                    let keep = t.range(1, comps[0].len().max(1)).min(comps[0].len());
                    escape_for_pattern(&comps[0][..keep], &mut pat, true);
                    if pat.ends_with(b"\\ ") {
                        pat.truncate(pat.len() - 2);
                        pat.push(b'x');
                    }
                    pat.extend_from_slice(b"**/");
                    escape_for_pattern(base_name, &mut pat, false);
                }
                0 => {
                    pat.extend_from_slice(b"**/");
                    escape_for_pattern(base_name, &mut pat, false);
                }
                1 => {
                    escape_for_pattern(comps[0], &mut pat, true);
                    pat.extend_from_slice(b"/**");
                }
                2 => {
                    escape_for_pattern(comps[0], &mut pat, true);
                    pat.extend_from_slice(b"/**/");
                    escape_for_pattern(base_name, &mut pat, false);
                }
                3 => {
                    pat.extend_from_slice(b"*/");
                    escape_for_pattern(base_name, &mut pat, false);
                }
                _ => {
                    escape_for_pattern(comps[0], &mut pat, true);
                    pat.extend_from_slice(b"/*");
                }
            }
        }
        6 => {
            c.label("pat-pool");
            let pool: &[&[u8]] = &[
                b"*", b"/*", b"**", b"*/", b"/", b"?", b"*.o", b"*.[oa]", b"a/**/b", b"/*/", b"**/", b"/**", b"*/*", b"[a-z]*",
                b"\t", b"\\", b"a\\", b"//", b"dir//a", b"./a", b"a/.", b".",
            ];
            let mut chosen: &[u8] = pool[t.below(pool.len())];
            // slash-only lines poison the whole world in gitoxide (known finding): keep them rare
            if chosen.iter().all(|b| *b == b'/') && !t.chance(48) {
                chosen = b"/*";
            }
            pat.extend_from_slice(chosen);
        }
        _ => {
            c.label("pat-unescaped-name");
            // the raw name: '#', '!', glob characters and trailing blanks take their special meaning
            pat.extend_from_slice(base_name);
        }
    }
    if t.chance(70) {
        c.label("pat-dir-only");
        pat.push(b'/');
    }
    if t.chance(40) {
        // not inside bracket expressions and not after a backslash: with core.ignoreCase those fall into the wildmatch
        // case-folding deviation recorded under C36
        let mut in_bracket = false;
        let mut i = 0;
        while i < pat.len() {
            match pat[i] {
                b'\\' => i += 1,
                b'[' => in_bracket = true,
                b']' => in_bracket = false,
                b if b.is_ascii_alphabetic() && !in_bracket && t.chance(100) => pat[i] ^= 0x20,
                _ => {}
            }
            i += 1;
        }
        c.label("pat-case-flipped");
    }
    if t.chance(64) {
        c.label("pat-negated");
        pat.insert(0, b'!');
    }
    match t.weighted(&[20, 2, 1, 1]) {
        1 => {
            c.label("pat-trailing-spaces");
            pat.extend_from_slice(b"  ");
        }
        2 => {
            c.label("pat-trailing-tab");
            pat.push(b'\t');
        }
        3 => {
            c.label("pat-trailing-escaped-space");
            pat.extend_from_slice(b"\\ ");
        }
        _ => {}
    }
    // gitoxide's precious-file extension gives a leading '$' a meaning git does not know: out of scope (see assumptions)
    let first = pat.iter().position(|b| *b != b'!').unwrap_or(0);
    if pat.get(first) == Some(&b'$') || (pat.get(first) == Some(&b'\\') && pat.get(first + 1) == Some(&b'$')) {
        pat.insert(first, b'?');
        pat.remove(first + 1);
        if pat.get(first + 1) == Some(&b'$') {
            pat.remove(first + 1);
        }
    }
    pat.retain(|b| *b != b'\n' && *b != 0);
    pat
}

fn gen_ignore_file(t: &mut Tape, base: &[u8], all_paths: &[Vec<u8>], c: &mut Case) -> Vec<u8> {
    let mut out = Vec::new();
    if t.chance(12) {
        c.label("file-bom");
        out.extend_from_slice(b"\xef\xbb\xbf");
    }
    let crlf = t.chance(16);
    c.label_if(crlf, "file-crlf");
    let n = t.range(1, 6);
    for _ in 0..n {
        match t.weighted(&[16, 1, 1]) {
            0 => out.extend(gen_pattern(t, base, all_paths, c)),
            1 => out.extend_from_slice(b"# comment"),
            _ => {}
        }
        if crlf {
            out.push(b'\r');
        }
        out.push(b'\n');
    }
    if t.chance(48) {
        // no newline at the end of the file
        c.label("file-no-final-newline");
        out.pop();
        if crlf {
            out.pop();
        }
    }
    out
}

fn gen_spec(t: &mut Tape, c: &mut Case) -> Spec {
    // directory tree
    let mut dirs: Vec<Vec<u8>> = Vec::new();
    let mut frontier: Vec<(Vec<u8>, usize)> = vec![(Vec::new(), 0)];
    let ndirs = t.range(1, 8);
    for _ in 0..ndirs {
        let (parent, depth) = frontier[t.below(frontier.len())].clone();
        let name = t.pick(DIR_NAMES).as_bytes();
        let d = join(&parent, name);
        if !dirs.contains(&d) {
            if depth + 1 < 4 {
                frontier.push((d.clone(), depth + 1));
            }
            dirs.push(d);
        }
    }
    let mut files: Vec<Vec<u8>> = Vec::new();
    let nfiles = t.range(2, 14);
    let mut parents: Vec<Vec<u8>> = vec![Vec::new()];
    parents.extend(dirs.iter().cloned());
    for _ in 0..nfiles {
        let parent = &parents[t.below(parents.len())];
        let name = t.pick(FILE_NAMES).as_bytes();
        let f = join(parent, name);
        if !files.contains(&f) && !dirs.contains(&f) {
            files.push(f);
        }
    }
    let mut all_paths: Vec<Vec<u8>> = dirs.clone();
    all_paths.extend(files.iter().cloned());

    let ignore_case = t.chance(96);
    c.label(if ignore_case { "ignorecase-on" } else { "ignorecase-off" });

    // ignore files
    let mut ignore_files = Vec::new();
    if t.chance(200) {
        ignore_files.push((Loc::Dir(Vec::new()), gen_ignore_file(t, b"", &all_paths, c)));
    }
    for d in &dirs {
        if t.chance(90) {
            ignore_files.push((Loc::Dir(d.clone()), gen_ignore_file(t, d, &all_paths, c)));
        }
    }
    if t.chance(80) {
        c.label("has-info-exclude");
        ignore_files.push((Loc::InfoExclude, gen_ignore_file(t, b"", &all_paths, c)));
    }
    let mut global_configured_but_missing = false;
    match t.weighted(&[5, 3, 1]) {
        1 => {
            c.label("has-excludes-file");
            ignore_files.push((Loc::Global, gen_ignore_file(t, b"", &all_paths, c)));
        }
        2 => global_configured_but_missing = true,
        _ => {}
    }

    // queries: everything that exists, plus paths that do not
    let mut queries = all_paths.clone();
    let extra = t.range(4, 14);
    for _ in 0..extra {
        let q = match t.weighted(&[5, 3, 3, 2]) {
            0 => {
                // new name in an existing directory
                let parent = &parents[t.below(parents.len())];
                join(parent, t.pick(FILE_NAMES).as_bytes())
            }
            1 => {
                // below a directory that does not exist
                let parent = &parents[t.below(parents.len())];
                let d = join(parent, t.pick(&["nodir", "a", "build", "foo"]).as_bytes());
                join(&d, t.pick(FILE_NAMES).as_bytes())
            }
            2 => {
                // case variant of something that exists
                let mut p = all_paths[t.below(all_paths.len())].clone();
                flip_case(t, &mut p, 128);
                p
            }
            _ => {
                // below a file
                if files.is_empty() {
                    b"zz".to_vec()
                } else {
                    join(&files[t.below(files.len())], b"x")
                }
            }
        };
        if !queries.contains(&q) {
            queries.push(q);
        }
    }
    // shuffle so that the shared stack is pushed/popped in an arbitrary order
    for i in (1..queries.len()).rev() {
        let j = t.below(i + 1);
        queries.swap(i, j);
    }
    Spec {
        dirs,
        files,
        ignore_files,
        ignore_case,
        global_configured_but_missing,
        queries,
    }
}

fn os(p: &[u8]) -> &std::ffi::OsStr {
    use std::os::unix::ffi::OsStrExt;
    std::ffi::OsStr::from_bytes(p)
}

struct Built {
    world: World,
    global: PathBuf,
}

fn build(spec: &Spec) -> Result<Built, String> {
    let world = World::new("c37", false)?;
    let root = world.repo();
    let e = |e: std::io::Error| e.to_string();
    for d in &spec.dirs {
        std::fs::create_dir_all(root.join(os(d))).map_err(e)?;
    }
    for f in &spec.files {
        std::fs::write(root.join(os(f)), b"").map_err(e)?;
    }
    let global = world.scratch.join("home").join("global-ignore");
    for (loc, content) in &spec.ignore_files {
        let p = match loc {
            Loc::Dir(d) => root.join(os(d)).join(".gitignore"),
            Loc::InfoExclude => {
                std::fs::create_dir_all(root.join(".git/info")).map_err(e)?;
                root.join(".git/info/exclude")
            }
            Loc::Global => global.clone(),
        };
        std::fs::write(p, content).map_err(e)?;
    }
    if !spec.ignore_files.iter().any(|(l, _)| *l == Loc::InfoExclude) {
        // `git init` creates a template info/exclude consisting of comments; remove it so both sides see the same
        let _ = std::fs::remove_file(root.join(".git/info/exclude"));
    }
    // always configure core.excludesFile so that neither side falls back to $XDG_CONFIG_HOME/git/ignore
    let mut cfg = std::fs::read(root.join(".git/config")).map_err(e)?;
    cfg.extend_from_slice(
        format!(
            "[core]\n\texcludesFile = {}\n\tignoreCase = {}\n",
            global.display(),
            spec.ignore_case
        )
        .as_bytes(),
    );
    std::fs::write(root.join(".git/config"), cfg).map_err(e)?;
    let _ = spec.global_configured_but_missing;
    Ok(Built { world, global })
}

#[derive(Debug, Clone, PartialEq, Eq)]
struct Decision {
    /// (source file relative to the worktree root or absolute for the global file, line, negative)
    by: Option<(PathBuf, usize, bool)>,
    pattern: String,
    /// the pattern as printed by git (only filled for git's decisions)
    raw: Vec<u8>,
}

impl Decision {
    fn ignored(&self) -> bool {
        matches!(self.by, Some((_, _, false)))
    }
}

/// `lit**...`: the first wildcard of the pattern is a `**` that follows a non-slash literal. git compares the literal
/// prefix separately and hands only the rest to wildmatch, where the `**` is then at the start of the pattern and may
/// match across directories; gitoxide matches the whole pattern, where it is an ordinary `*`.
fn doublestar_after_literal_prefix(pat: &[u8]) -> bool {
    let pat = pat.strip_prefix(b"!").unwrap_or(pat);
    let pat = pat.strip_prefix(b"/").unwrap_or(pat);
    match pat.iter().position(|b| matches!(b, b'*' | b'?' | b'[' | b'\\')) {
        Some(n) if n > 0 => pat[n - 1] != b'/' && pat[n..].starts_with(b"**"),
        _ => false,
    }
}

fn git_decisions(b: &Built, queries: &[Vec<u8>]) -> Result<Vec<Decision>, String> {
    let mut input = Vec::new();
    for q in queries {
        input.extend_from_slice(q);
        input.push(0);
    }
    let (ok, out, err) = b.world.git.try_run(
        ["check-ignore", "-v", "-n", "-z", "--no-index", "--stdin"],
        Some(&input),
    )?;
    // exit code 1 = "none of the paths is ignored"
    if !ok && !err.is_empty() {
        return Err(format!("git check-ignore: {}", String::from_utf8_lossy(&err)));
    }
    let fields: Vec<&[u8]> = out.split(|b| *b == 0).collect();
    // trailing empty element after the last NUL
    if fields.len() != queries.len() * 4 + 1 {
        return Err(format!(
            "git check-ignore printed {} fields for {} paths",
            fields.len(),
            queries.len()
        ));
    }
    let root = b.world.repo();
    let mut res = Vec::new();
    for (i, q) in queries.iter().enumerate() {
        let (src, line, pat, path) = (fields[4 * i], fields[4 * i + 1], fields[4 * i + 2], fields[4 * i + 3]);
        if path != q.as_slice() {
            return Err(format!("git check-ignore answered for {:?} instead of {:?}", path.as_bstr(), q.as_bstr()));
        }
        if src.is_empty() {
            res.push(Decision {
                by: None,
                pattern: String::new(),
                raw: Vec::new(),
            });
            continue;
        }
        let line: usize = std::str::from_utf8(line)
            .ok()
            .and_then(|s| s.parse().ok())
            .ok_or_else(|| format!("bad line number {:?}", line.as_bstr()))?;
        let src_path = Path::new(os(src));
        let src_path = if src_path.is_absolute() {
            src_path.strip_prefix(&root).map(Path::to_owned).unwrap_or_else(|_| src_path.to_owned())
        } else {
            src_path.to_owned()
        };
        res.push(Decision {
            by: Some((src_path, line, pat.first() == Some(&b'!'))),
            pattern: show(pat),
            raw: pat.to_vec(),
        });
    }
    Ok(res)
}

/// `C37_PROBE=<worktree> c37 path...`: print gitoxide's decision for each path (triage helper)
fn probe(dir: &str) {
    let repo = gix::open_opts(dir, gix::open::Options::isolated()).expect("open");
    let index = repo.index_or_empty().expect("index");
    let mut stack = repo
        .excludes(
            &index,
            None,
            gix::worktree::stack::state::ignore::Source::WorktreeThenIdMappingIfNotSkipped,
        )
        .expect("excludes");
    for q in std::env::args().skip(1) {
        let is_dir = Path::new(dir).join(&q).is_dir();
        let mode = is_dir.then_some(gix::index::entry::Mode::DIR);
        let p = stack.at_entry(q.as_bytes().as_bstr(), mode).expect("at_entry");
        match p.matching_exclude_pattern() {
            Some(m) => println!(
                "{q}\t{}:{}:{}\texcluded={}",
                m.source.map(|s| s.display().to_string()).unwrap_or_default(),
                m.sequence_number,
                m.pattern,
                p.is_excluded()
            ),
            None => println!("{q}\t::\texcluded={}", p.is_excluded()),
        }
    }
}

/// Triage helper for pinning known findings: `VP_PIN=<signature>` makes failures of that class carry an unknown signature
/// (`<signature>#pin`) so that the runner shrinks them and writes a case file even though the class is listed as known.
fn pin(sig: &str) -> String {
    match std::env::var("VP_PIN") {
        Ok(p) if p == sig => format!("{sig}#pin"),
        _ => sig.to_string(),
    }
}
fn pinning() -> bool {
    std::env::var_os("VP_PIN").is_some()
}

fn main() {
    if let Ok(dir) = std::env::var("C37_PROBE") {
        probe(&dir);
        return;
    }
    let mut ck = Check::new("C37", "exploration");
    ck.rule("Worktrees with up to 8 directories (depth <= 4) and 2..14 files whose names include case variants and names that need escaping ('#h', '!n', 'c]', 'q?', 's*r', 'ba\\ck', 'tr ', TAB); ignore files at random levels (.gitignore per directory, info/exclude, core.excludesFile, optionally missing) with 1..6 lines each: patterns derived from existing paths (basename, relative path, anchored, one character globbed with ?, [..], [!..], ranges, *, prefix*/\\*.ext, **/x, x/**, x/**/y, */x, x/*), a pool of odd patterns, raw unescaped names, decorated with trailing '/', '!' negation, case flips, trailing blanks (plain, TAB, escaped), comments, blank lines, CRLF, BOM, missing final newline; core.ignoreCase on (3/8) or off. Queries: every existing file and directory plus 4..14 paths that do not exist (new names, below missing directories, case variants, below files), in shuffled order on one shared stack. A world is NON-TRIVIAL if the decisions of its paths come from >= 2 different ignore files or at least one path is decided by a negated pattern; distinct by the whole world description.");
    ck.assume(&format!("oracle: {} check-ignore -v -n -z --no-index --stdin, one call per world, empty index", Git::version()));
    ck.assume("patterns whose first character (after '!') is '$' are not generated: gitoxide documents '$' as its own 'precious file' syntax extension, which git 2.39 does not have");
    ck.assume("upper-case letters inside bracket expressions are not generated (with core.ignoreCase they fall into the wildmatch case-folding deviation recorded under C36); POSIX classes are left to C36");
    ck.assume("a non-directory path is never used as leading directory of another query on the same stack (gix_fs::Stack requires terminal paths); such paths are queried on a stack of their own");
    ck.assume("disagreements that belong to a recorded deviation class (signatures in known_findings.json, decided by explicit predicates) fail the world only in 1 of 4 worlds ('strict-world'); in the other worlds they are tolerated and counted as 'tolerated:<signature>' labels so that the rest of the world is still compared; any other disagreement fails in every world");
    ck.assume("core.excludesFile is always configured (possibly pointing to a missing file) so that neither implementation falls back to the XDG location");

    ck.sub(
        "world",
        SubCfg::new(1200, 30_000).max_len(3000).max_shrink(60),
        |t, c| {
            // Disagreements that belong to a recorded deviation class (see the signatures below) are so frequent - they
            // concern everything below a directory that is matched by a pattern - that failing every such world would
            // leave few worlds counted. In 1 of 4 worlds (strict) they fail with their signature (=> KNOWN-FINDING while
            // the entry exists, VIOLATION otherwise); in the others they are tolerated and counted as labels. Any
            // disagreement outside these classes fails at once in every world.
            let strict = t.chance(64);
            if pinning() && !strict {
                // pinned tapes must fail when replayed without VP_PIN: only strict worlds may be shrunk
                c.discard();
                return;
            }
            c.label(if strict { "strict-world" } else { "tolerant-world" });
            let spec = gen_spec(t, c);
            c.key(&spec);
            let b = infra!(c, build(&spec), "build world");
            let git = infra!(c, git_decisions(&b, &spec.queries), "git check-ignore");

            let root = b.world.repo();
            let repo = infra!(
                c,
                gix::open_opts(&root, gix::open::Options::isolated()).map_err(|e| e.to_string()),
                "gix open"
            );
            let index = infra!(c, repo.index_or_empty().map_err(|e| e.to_string()), "gix index");
            let mut stack = match repo.excludes(
                &index,
                None,
                gix::worktree::stack::state::ignore::Source::WorktreeThenIdMappingIfNotSkipped,
            ) {
                Ok(s) => s,
                Err(e) => {
                    c.fail(format!("Repository::excludes() failed: {e}"));
                    return;
                }
            };

            // A pattern of info/exclude or core.excludesFile that matches the EMPTY relative path ('*', '/*/', '**', a line
            // of slashes only, ...) makes gitoxide treat the worktree root itself as matched directory (known finding):
            // every answer in such a world may be affected.
            let fold = if spec.ignore_case {
                gix::glob::pattern::Case::Fold
            } else {
                gix::glob::pattern::Case::Sensitive
            };
            let root_is_matched = spec
                .ignore_files
                .iter()
                .filter(|(loc, _)| !matches!(loc, Loc::Dir(_)))
                .any(|(_, content)| {
                    gix_ignore::parse(content).any(|(pattern, _, _)| {
                        pattern.matches_repo_relative_path(
                            "".into(),
                            None,
                            Some(true),
                            fold,
                            gix::glob::wildmatch::Mode::NO_MATCH_SLASH_LITERAL,
                        )
                    })
                });
            c.label_if(root_is_matched, "root-matched-by-global-pattern");
            // A line that is blank except for TABs (optionally negated) is a pattern in git but dropped by gitoxide (known
            // finding); it can decide paths directly or by overriding earlier lines, so otherwise unexplained
            // disagreements in such a world are attributed to it.
            let world_has_blank_only_pattern = spec.ignore_files.iter().any(|(_, content)| {
                content.lines().any(|l| {
                    let l = l.trim_end_with(|c| c == ' ');
                    let l = l.strip_prefix(b"!").unwrap_or(l);
                    !l.is_empty() && l.iter().all(u8::is_ascii_whitespace)
                })
            });
            c.label_if(world_has_blank_only_pattern, "blank-only-pattern-line");
            // a pattern of the form `lit**...` (see doublestar_after_literal_prefix): otherwise unexplained disagreements in
            // such a world are attributed to it
            let world_has_dstar_pattern = spec.ignore_files.iter().any(|(_, content)| {
                content
                    .lines()
                    .any(|l| !l.starts_with(b"#") && doublestar_after_literal_prefix(l))
            });
            let mut sources = std::collections::BTreeSet::new();
            let mut any_negative = false;
            let mut n_ignored = 0usize;
            let mut n_via_dir = 0usize;
            let mut deferred: Option<(&'static str, String)> = None;
            for (q, g) in spec.queries.iter().zip(git.iter()) {
                let is_dir = spec.dirs.contains(q);
                let mode = if is_dir {
                    Some(gix::index::entry::Mode::DIR)
                } else if spec.files.contains(q) {
                    Some(gix::index::entry::Mode::FILE)
                } else {
                    None
                };
                // gix_fs::Stack documents that paths must be terminal: a path that is not a directory must not also be
                // used as a leading directory of another query on the same stack. Such paths get a stack of their own.
                let used_as_dir_elsewhere = !is_dir
                    && spec
                        .queries
                        .iter()
                        .any(|o| o.len() > q.len() && o.starts_with(q) && o[q.len()] == b'/');
                let mut own_stack;
                let stack_for_query = if used_as_dir_elsewhere {
                    own_stack = match repo.excludes(
                        &index,
                        None,
                        gix::worktree::stack::state::ignore::Source::WorktreeThenIdMappingIfNotSkipped,
                    ) {
                        Ok(s) => s,
                        Err(e) => {
                            c.fail(format!("Repository::excludes() failed: {e}"));
                            return;
                        }
                    };
                    &mut own_stack
                } else {
                    &mut stack
                };
                let platform = match stack_for_query.at_entry(q.as_bstr(), mode) {
                    Ok(p) => p,
                    Err(e) => {
                        c.fail(format!("at_entry({:?}) failed: {e}", q.as_bstr()));
                        return;
                    }
                };
                let m = platform.matching_exclude_pattern();
                let excluded = platform.is_excluded();
                let ours = Decision {
                    by: m.as_ref().map(|m| {
                        let src = m.source.map(Path::to_owned).unwrap_or_default();
                        let src = src.strip_prefix(&root).map(Path::to_owned).unwrap_or(src);
                        (src, m.sequence_number, m.pattern.is_negative())
                    }),
                    pattern: m.as_ref().map(|m| m.pattern.to_string()).unwrap_or_default(),
                    raw: Vec::new(),
                };
                if let Some((src, _, neg)) = &g.by {
                    sources.insert(src.clone());
                    any_negative |= *neg;
                }
                n_ignored += g.ignored() as usize;
                if excluded != ours.ignored() {
                    c.fail(format!(
                        "is_excluded() = {excluded} contradicts matching_exclude_pattern() = {:?} for {:?}",
                        ours,
                        q.as_bstr()
                    ));
                    return;
                }
                if ours.by == g.by {
                    continue;
                }
                // classify
                let describe = |d: &Decision| match &d.by {
                    None => "no pattern".to_string(),
                    Some((s, l, _)) => format!("`{}` ({}:{})", d.pattern, s.display(), l),
                };
                let fresh_answer = {
                    match repo.excludes(
                        &index,
                        None,
                        gix::worktree::stack::state::ignore::Source::WorktreeThenIdMappingIfNotSkipped,
                    ) {
                        Ok(mut fresh) => match fresh.at_entry(q.as_bstr(), mode) {
                            Ok(p) => p
                                .matching_exclude_pattern()
                                .map(|m| format!("`{}` line {}", m.pattern, m.sequence_number))
                                .unwrap_or_else(|| "no pattern".into()),
                            Err(e) => e.to_string(),
                        },
                        Err(e) => e.to_string(),
                    }
                };
                let msg = format!(
                    "path {:?}{}: git decides by {}, gitoxide by {} [on a fresh stack: {fresh_answer}] (ignoreCase={}); world: {}",
                    q.as_bstr(),
                    if is_dir { " (dir)" } else { "" },
                    describe(g),
                    describe(&ours),
                    spec.ignore_case,
                    describe_world(&spec, &b)
                );
                // What does gitoxide say about the leading directories of the path (fresh stack, top-down)?
                let mut ancestors: Vec<Decision> = Vec::new();
                {
                    let mut fresh = match repo.excludes(
                        &index,
                        None,
                        gix::worktree::stack::state::ignore::Source::WorktreeThenIdMappingIfNotSkipped,
                    ) {
                        Ok(s) => s,
                        Err(e) => {
                            c.fail(format!("Repository::excludes() failed: {e}"));
                            return;
                        }
                    };
                    let mut pos = 0;
                    while let Some(i) = q[pos..].find_byte(b'/') {
                        let anc = &q[..pos + i];
                        pos += i + 1;
                        if let Ok(p) = fresh.at_entry(anc.as_bstr(), Some(gix::index::entry::Mode::DIR)) {
                            let m = p.matching_exclude_pattern();
                            ancestors.push(Decision {
                                by: m.as_ref().map(|m| {
                                    let src = m.source.map(Path::to_owned).unwrap_or_default();
                                    let src = src.strip_prefix(&root).map(Path::to_owned).unwrap_or(src);
                                    (src, m.sequence_number, m.pattern.is_negative())
                                }),
                                pattern: m.as_ref().map(|m| m.pattern.to_string()).unwrap_or_default(),
                                raw: Vec::new(),
                            });
                        }
                    }
                }
                // git stops at the topmost excluded directory and answers with the pattern that excluded it
                let topmost_excluded_dir = ancestors.iter().find(|d| d.ignored());
                let git_follows_topmost_dir = topmost_excluded_dir.map_or(false, |d| d.by == g.by);
                let dstar_decides = doublestar_after_literal_prefix(&g.raw)
                    || m.as_ref().map_or(false, |m| doublestar_after_literal_prefix(m.pattern.to_string().as_bytes()));
                let git_pattern_is_blank_only = {
                    let p = g.raw.strip_prefix(b"!").unwrap_or(&g.raw);
                    !p.is_empty() && p.iter().all(u8::is_ascii_whitespace)
                };
                let sig: &'static str = if git_pattern_is_blank_only {
                    "whitespace-only-pattern-dropped"
                } else if root_is_matched {
                    "worktree-root-matched-by-global-pattern"
                } else if git_follows_topmost_dir && ours.ignored() {
                    // gitoxide answers with the match of a deeper directory: same verdict, other pattern
                    "excluded-dir-deeper-match-reported"
                } else if git_follows_topmost_dir && !ours.ignored() {
                    // a negated pattern matching a deeper directory re-includes what is below an excluded directory
                    "excluded-dir-reincluded-below"
                } else if g.by.is_none()
                    && matches!(ours.by, Some((_, _, true)))
                    && ancestors.iter().any(|d| d.by == ours.by)
                {
                    // nothing matches the path; gitoxide reports the negated pattern that matched a leading directory
                    "negated-dir-pattern-reported-for-children"
                } else if dstar_decides {
                    // one side decides by a pattern of the form `lit**...`, and none of the directory classes applies
                    "doublestar-after-literal-prefix"
                } else if world_has_blank_only_pattern {
                    // a pattern made of blanks only (a TAB: trailing TABs are not trimmed) is dropped by gix_glob::parse;
                    // git matches a file of that name
                    "whitespace-only-pattern-dropped"
                } else if world_has_dstar_pattern {
                    "doublestar-after-literal-prefix"
                } else {
                    ""
                };
                let _ = &mut n_via_dir;
                if sig.is_empty() {
                    c.fail(msg);
                    return;
                }
                if strict {
                    deferred.get_or_insert((sig, msg));
                } else {
                    // recorded deviation class, tolerated in this world so that the world still counts (see `strict`)
                    c.label(match sig {
                        "worktree-root-matched-by-global-pattern" => "tolerated:worktree-root-matched-by-global-pattern",
                        "whitespace-only-pattern-dropped" => "tolerated:whitespace-only-pattern-dropped",
                        "excluded-dir-deeper-match-reported" => "tolerated:excluded-dir-deeper-match-reported",
                        "excluded-dir-reincluded-below" => "tolerated:excluded-dir-reincluded-below",
                        "doublestar-after-literal-prefix" => "tolerated:doublestar-after-literal-prefix",
                        _ => "tolerated:negated-dir-pattern-reported-for-children",
                    });
                }
            }
            c.label_if(any_negative, "decided-by-negation");
            c.label_if(sources.len() >= 2, "decided-by-2+-files");
            c.label_if(n_ignored == 0, "nothing-ignored");
            c.label_if(n_ignored * 2 > spec.queries.len(), "most-ignored");
            c.nontrivial(any_negative || sources.len() >= 2);
            c.sample_with(|| describe_world(&spec, &b));
            if let Some((sig, msg)) = deferred {
                c.fail_sig(&pin(sig), msg);
            }
        },
    );
    ck.finish();
}

fn describe_world(spec: &Spec, b: &Built) -> String {
    let mut s = String::new();
    s.push_str(&format!(
        "dirs={:?} files={:?} ignoreCase={} ",
        spec.dirs.iter().map(|d| show(d)).collect::<Vec<_>>(),
        spec.files.iter().map(|d| show(d)).collect::<Vec<_>>(),
        spec.ignore_case
    ));
    for (loc, content) in &spec.ignore_files {
        let name = match loc {
            Loc::Dir(d) => show(&join(d, b".gitignore")),
            Loc::InfoExclude => ".git/info/exclude".into(),
            Loc::Global => format!("{}", b.global.file_name().unwrap_or_default().to_string_lossy()),
        };
        s.push_str(&format!("| {name}: `{}` ", show(content)));
    }
    let _: Option<BString> = None;
    let _ = Vec::<u8>::new().push_str("");
    s
}
