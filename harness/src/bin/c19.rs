//! C19 — packed-refs lookup equals a linear scan.
//!
//! Sub-checks
//! * `wellformed` : generated packed-refs buffers (sorted header / header without `sorted` / no header, LF / CRLF /
//!                  mixed, peeled lines, shared prefixes, 0..200 records): `iter()` must list exactly the generated
//!                  records in byte order, and `try_find`/`find` of every present name, of absent neighbours and of
//!                  short names must return exactly what a linear scan of that list returns.
//! * `corrupt`    : a well-formed buffer with one or two lines made unparseable (or cut short): every lookup
//!                  returns `Err` or exactly the linear-scan answer; the damage is reported by `iter()` (and by
//!                  `from_bytes` when it has to sort).
use gix_object::bstr::{BString, ByteSlice};
use gix_ref::packed;
use vp::*;

#[derive(Clone, PartialEq, Eq, Hash)]
struct Rec {
    name: Vec<u8>,
    target: Vec<u8>,
    peeled: Option<Vec<u8>>,
}

impl std::fmt::Debug for Rec {
    fn fmt(&self, f: &mut std::fmt::Formatter<'_>) -> std::fmt::Result {
        write!(f, "{} {}", self.target.as_bstr(), self.name.as_bstr())?;
        if let Some(p) = &self.peeled {
            write!(f, " ^{}", p.as_bstr())?;
        }
        Ok(())
    }
}

#[derive(Clone, Copy, Debug, PartialEq, Eq, Hash)]
enum Header {
    Sorted,      // "# pack-refs with: peeled fully-peeled sorted " : records in byte order
    Unsorted,    // "# pack-refs with: peeled fully-peeled "        : records shuffled
    UnsortedButOrdered, // header without `sorted`, records in byte order (old git)
    None,        // no header line: records shuffled
}

#[derive(Clone, Copy, Debug, PartialEq, Eq, Hash)]
enum Eol {
    Lf,
    Crlf,
    Mixed,
}

#[derive(Debug, Hash)]
struct Buf {
    header: Header,
    eol: Eol,
    /// records in file order
    recs: Vec<Rec>,
    hex_len: usize,
}

const CATS: &[&str] = &["heads", "tags", "remotes/o", "notes", "x", "heads/a", "remotes"];
const COMPS: &[&str] = &["a", "b", "a-", "a.b", "a0", "ab", "-", "0", "A", "a-b", "z", "a+", "a,"];

fn hexid(seed: &[u8], salt: u8, len: usize) -> Vec<u8> {
    let mut s = sha1_hex(&[seed, &[salt]].concat());
    if len > 40 {
        let more = sha1_hex(s.as_bytes());
        s.push_str(&more);
    }
    s.truncate(len);
    s.into_bytes()
}

fn gen_name(t: &mut Tape, existing: &[Rec]) -> Vec<u8> {
    // often derive from an existing name so that names are prefix related
    if !existing.is_empty() && t.chance(90) {
        let mut base = existing[t.below(existing.len())].name.clone();
        match t.below(4) {
            0 => base.extend_from_slice(format!("/{}", t.pick(COMPS)).as_bytes()),
            1 => base.extend_from_slice(t.pick(&["-", "0", "-b", ".b", "+", "b", "a"]).as_bytes()),
            2 => {
                // sibling: replace last component
                if let Some(p) = base.rfind_byte(b'/') {
                    if p > 5 {
                        base.truncate(p + 1);
                        base.extend_from_slice(t.pick(COMPS).as_bytes());
                    }
                }
            }
            _ => {
                if base.len() > 12 && base[base.len() - 2] != b'/' {
                    base.pop();
                }
            }
        }
        return base;
    }
    let mut v = format!("refs/{}", t.pick(CATS)).into_bytes();
    let n = t.weighted(&[5, 3, 1]) + 1;
    for _ in 0..n {
        v.push(b'/');
        v.extend_from_slice(t.pick(COMPS).as_bytes());
    }
    if t.chance(24) {
        // a long name moves the byte positions the bisection probes
        let extra = t.range(1, 70);
        v.push(b'/');
        v.extend(std::iter::repeat(b'l').take(extra));
    }
    v
}

fn valid_full(name: &[u8]) -> bool {
    gix_validate::reference::name(name.as_bstr()).is_ok()
}

fn gen_buf(t: &mut Tape) -> Buf {
    let header = *t.pick(&[Header::Sorted, Header::Sorted, Header::Unsorted, Header::UnsortedButOrdered, Header::None]);
    let eol = *t.pick(&[Eol::Lf, Eol::Lf, Eol::Crlf, Eol::Mixed]);
    // this tree supports SHA-1 only (gix_hash::Kind::longest() == Sha1): 40 digit ids
    let hex_len = 40;
    let peel_pct = *t.pick(&[0u32, 60, 128, 128, 230]);
    let n = match t.weighted(&[1, 1, 1, 4, 5, 3]) {
        0 => 0,
        1 => 1,
        2 => 2,
        3 => t.range(3, 10),
        4 => t.range(10, 60),
        _ => t.range(60, 200),
    };
    let mut recs: Vec<Rec> = Vec::new();
    for _ in 0..n {
        if t.is_empty() {
            break;
        }
        let name = gen_name(t, &recs);
        if !valid_full(&name) || recs.iter().any(|r| r.name == name) {
            continue;
        }
        let salt = t.u8();
        let peeled = t.chance(peel_pct).then(|| hexid(&name, salt.wrapping_add(1), hex_len));
        recs.push(Rec {
            target: hexid(&name, salt, hex_len),
            name,
            peeled,
        });
    }
    match header {
        Header::Sorted | Header::UnsortedButOrdered => recs.sort_by(|a, b| a.name.cmp(&b.name)),
        Header::Unsorted | Header::None => {
            // generation order is already unrelated to name order; make sure it is not accidentally sorted
            if recs.len() >= 2 && recs.windows(2).all(|w| w[0].name < w[1].name) {
                recs.reverse();
            }
        }
    }
    Buf {
        header,
        eol,
        recs,
        hex_len,
    }
}

/// serialize; returns bytes and for each record the byte range of its lines `(start, end_of_ref_line, end)`
fn serialize(b: &Buf) -> (Vec<u8>, Vec<(usize, usize, usize)>) {
    let mut out = Vec::new();
    let mut line_no = 0usize;
    let mut eol = |out: &mut Vec<u8>| {
        let crlf = match b.eol {
            Eol::Lf => false,
            Eol::Crlf => true,
            Eol::Mixed => line_no % 3 == 1,
        };
        line_no += 1;
        if crlf {
            out.push(b'\r');
        }
        out.push(b'\n');
    };
    match b.header {
        Header::Sorted => {
            out.extend_from_slice(b"# pack-refs with: peeled fully-peeled sorted ");
            eol(&mut out);
        }
        Header::Unsorted | Header::UnsortedButOrdered => {
            out.extend_from_slice(b"# pack-refs with: peeled fully-peeled ");
            eol(&mut out);
        }
        Header::None => {}
    }
    let mut spans = Vec::new();
    for r in &b.recs {
        let start = out.len();
        out.extend_from_slice(&r.target);
        out.push(b' ');
        out.extend_from_slice(&r.name);
        eol(&mut out);
        let mid = out.len();
        if let Some(p) = &r.peeled {
            out.push(b'^');
            out.extend_from_slice(p);
            eol(&mut out);
        }
        spans.push((start, mid, out.len()));
    }
    (out, spans)
}

fn to_rec(r: &packed::Reference<'_>) -> Rec {
    Rec {
        name: r.name.as_bstr().to_vec(),
        target: r.target.to_vec(),
        peeled: r.object.map(|o| o.to_vec()),
    }
}

/// linear scan with `Buffer::iter()`: parseable records in iteration order, and the number of unparseable lines
fn linear(buf: &packed::Buffer) -> Result<(Vec<Rec>, usize), String> {
    let mut v = Vec::new();
    let mut errs = 0;
    for r in buf.iter().map_err(|e| format!("iter(): {e}"))? {
        match r {
            Ok(r) => v.push(to_rec(&r)),
            Err(_) => errs += 1,
        }
    }
    Ok((v, errs))
}

fn scan<'a>(l: &'a [Rec], name: &[u8]) -> Option<&'a Rec> {
    l.iter().find(|r| r.name == name)
}

/// full-name queries: every present name, and absent neighbours of selected records
fn gen_queries(t: &mut Tape, present: &[Rec]) -> Vec<Vec<u8>> {
    let mut q: Vec<Vec<u8>> = present.iter().map(|r| r.name.clone()).collect();
    let mut sorted: Vec<&Vec<u8>> = present.iter().map(|r| &r.name).collect();
    sorted.sort();
    let picks = t.range(0, 24).min(sorted.len() * 2);
    let mut extra: Vec<Vec<u8>> = Vec::new();
    for _ in 0..picks {
        let i = t.below(sorted.len());
        let n = sorted[i].clone();
        let mut v = n.clone();
        match t.below(8) {
            0 => {
                v.pop();
            }
            1 => v.push(b'-'),
            2 => v.push(b'0'),
            3 => v.extend_from_slice(b"/a"),
            4 => {
                let l = v.len() - 1;
                v[l] = v[l].wrapping_add(1);
            }
            5 => {
                let l = v.len() - 1;
                v[l] = v[l].wrapping_sub(1);
            }
            6 => {
                // strictly between this record and the next: name + "!" sorts right after name
                v.push(b'!');
            }
            _ => {
                // drop the last component
                if let Some(p) = v.rfind_byte(b'/') {
                    v.truncate(p);
                }
            }
        }
        extra.push(v);
    }
    // before the first and after the last record
    extra.push(b"refs/!".to_vec());
    extra.push(b"refs/+/a".to_vec());
    extra.push(b"refs/zzzz".to_vec());
    extra.push(b"refs/heads/zzzz".to_vec());
    extra.push(b"refs/tags".to_vec());
    extra.push(b"refs/x".to_vec());
    for v in extra {
        // stay inside the lookup's domain: valid names under refs/ that are looked up verbatim
        if v.starts_with(b"refs/") && !v.starts_with(b"refs/worktree/") && valid_full(&v) && !q.contains(&v) {
            q.push(v);
        }
    }
    q
}

fn is_pseudo(name: &[u8]) -> bool {
    name.iter().all(|b| b.is_ascii_uppercase() || *b == b'_')
}

/// short names derived from present records: (query, candidate full names in lookup order)
fn gen_short_queries(t: &mut Tape, present: &[Rec]) -> Vec<(Vec<u8>, Vec<Vec<u8>>)> {
    let mut out = Vec::new();
    if present.is_empty() {
        return out;
    }
    let n = t.range(0, 8);
    for _ in 0..n {
        let r = &present[t.below(present.len())];
        let full = &r.name;
        let short: Vec<u8> = match t.below(3) {
            0 => full[5..].to_vec(), // heads/a
            1 => {
                // a (strip refs/<cat>/)
                let rest = &full[5..];
                match rest.find_byte(b'/') {
                    Some(p) => rest[p + 1..].to_vec(),
                    None => rest.to_vec(),
                }
            }
            _ => {
                // last component only
                match full.rfind_byte(b'/') {
                    Some(p) => full[p + 1..].to_vec(),
                    None => continue,
                }
            }
        };
        if short.is_empty()
            || short.starts_with(b"refs/")
            || short.starts_with(b"main-worktree/")
            || short.starts_with(b"worktrees/")
            || is_pseudo(&short)
            || gix_validate::reference::name_partial(short.as_bstr()).is_err()
        {
            continue;
        }
        // documented order of packed::Buffer::try_find (git's DWIM rules 2..5)
        let cands = ["refs/", "refs/tags/", "refs/heads/", "refs/remotes/"]
            .iter()
            .map(|p| [p.as_bytes(), &short].concat())
            .collect();
        out.push((short, cands));
    }
    out
}

enum Open {
    Bytes,
    File,
    Mmap,
}

fn open(bytes: &[u8], how: &Open) -> Result<Result<packed::Buffer, String>, String> {
    match how {
        Open::Bytes => Ok(packed::Buffer::from_bytes(bytes).map_err(|e| format!("{e:?}"))),
        Open::File | Open::Mmap => {
            let s = Scratch::new("c19").map_err(|e| e.to_string())?;
            let p = s.join("packed-refs");
            std::fs::write(&p, bytes).map_err(|e| e.to_string())?;
            let limit = if matches!(how, Open::Mmap) { 0 } else { u64::MAX };
            // the mapping stays valid after the file is unlinked (scratch dropped)
            Ok(packed::Buffer::open(p, limit).map_err(|e| format!("{e:?}")))
        }
    }
}

/// `strict`: Ok(None) must mean absent and Ok(Some) must be the scanned record; Err is a violation.
/// otherwise (corrupt buffer): Err is fine.
#[derive(Default)]
struct Counts {
    found: usize,
    absent: usize,
    errs: usize,
}

fn check_queries(
    c: &mut Case,
    buf: &packed::Buffer,
    l: &[Rec],
    queries: &[Vec<u8>],
    short: &[(Vec<u8>, Vec<Vec<u8>>)],
    strict: bool,
) -> Counts {
    let mut n = Counts::default();
    let one = |c: &mut Case, n: &mut Counts, q: &[u8], want: Option<&Rec>, what: &str| -> bool {
        let qb: BString = q.into();
        let got = buf.try_find(qb.as_bstr());
        match got {
            Err(e) => {
                n.errs += 1;
                if strict {
                    c.fail_sig(
                        "wellformed-lookup-error",
                        format!("{what} {:?}: try_find failed on a well-formed buffer: {e}", q.as_bstr()),
                    );
                    return false;
                }
            }
            Ok(None) => {
                n.absent += 1;
                if let Some(w) = want {
                    c.fail_sig(
                        "present-not-found",
                        format!("{what} {:?}: try_find returned None, the linear scan finds {w:?}", q.as_bstr()),
                    );
                    return false;
                }
            }
            Ok(Some(r)) => {
                n.found += 1;
                let r = to_rec(&r);
                match want {
                    None => {
                        c.fail_sig(
                            "absent-found",
                            format!("{what} {:?}: try_find returned {r:?}, the linear scan finds nothing", q.as_bstr()),
                        );
                        return false;
                    }
                    Some(w) if *w != r => {
                        c.fail_sig(
                            "wrong-record",
                            format!("{what} {:?}: try_find returned {r:?}, the linear scan finds {w:?}", q.as_bstr()),
                        );
                        return false;
                    }
                    _ => {}
                }
            }
        }
        // find() is try_find() with None mapped to NotFound
        let f = buf.find(qb.as_bstr());
        let consistent = match (&f, buf.try_find(qb.as_bstr())) {
            (Ok(a), Ok(Some(b))) => *a == b,
            (Err(packed::find::existing::Error::NotFound), Ok(None)) => true,
            (Err(packed::find::existing::Error::Find(_)), Err(_)) => true,
            _ => false,
        };
        if !consistent {
            c.fail_sig(
                "find-vs-try_find",
                format!("{what} {:?}: find() = {f:?} is not try_find() mapped", q.as_bstr()),
            );
            return false;
        }
        true
    };
    for q in queries {
        if !one(c, &mut n, q, scan(l, q), "query") {
            return n;
        }
    }
    for (q, cands) in short {
        let want = cands.iter().find_map(|full| scan(l, full));
        if !one(c, &mut n, q, want, "short query") {
            return n;
        }
    }
    n
}

pub fn main() {
    let mut ck = Check::new("C19", "exploration");
    ck.rule("packed-refs buffers of 0..200 distinct valid names under refs/{heads,tags,remotes/o,notes,x,...} built from components {a,b,a-,a.b,a0,ab,-,0,A,a-b,z,a+} and derived from each other (child, sibling, suffix byte below/above '/'), occasional 1..70 byte long components; 40-digit targets, peeled lines with probability 0/23/50/90 %; header with `sorted` (records in byte order), header without `sorted` (shuffled or ordered), no header (shuffled); LF, CRLF or mixed line ends; opened from bytes, from a file, or memory mapped. Queries: every present name, absent neighbours (last byte dropped/+1/-1, suffix '-', '0', '!', '/a', parent), names before the first and after the last record, short names resolved in the documented order. Non-trivial: >= 3 records, at least one peeled line, all present names and at least one absent neighbour queried. The corrupt sub-check damages 1..2 lines (bad hex digit, hash cut short, invalid name, broken peeled line, joined lines, buffer cut inside the last record). Distinct by decoded buffer + damage.");
    ck.assume("names are distinct within a buffer (duplicates would make 'the record a linear scan returns' depend on tie-breaking of the on-the-fly sort); a header that claims `sorted` is only generated over records that are in byte order");
    ck.assume("for damaged buffers the linear scan is Buffer::iter() with unparseable lines skipped; damages are chosen so that a damaged line is unparseable (never a parseable record with a different name), i.e. the remaining records are still in order");

    ck.sub("wellformed", SubCfg::new(6_000, 150_000).max_len(2600), |t, c| {
        let b = gen_buf(t);
        let how = match t.weighted(&[12, 2, 2]) {
            0 => Open::Bytes,
            1 => Open::File,
            _ => Open::Mmap,
        };
        let queries = gen_queries(t, &b.recs);
        let short = gen_short_queries(t, &b.recs);
        c.key(&b);
        c.key(&queries);
        let (bytes, _) = serialize(&b);
        let npeeled = b.recs.iter().filter(|r| r.peeled.is_some()).count();
        c.label(match b.header {
            Header::Sorted => "header-sorted",
            Header::Unsorted => "header-unsorted-shuffled",
            Header::UnsortedButOrdered => "header-unsorted-ordered",
            Header::None => "no-header-shuffled",
        });
        c.label(match b.eol {
            Eol::Lf => "lf",
            Eol::Crlf => "crlf",
            Eol::Mixed => "mixed-eol",
        });
        c.label(match b.recs.len() {
            0 => "records-0",
            1 => "records-1",
            2 => "records-2",
            3..=9 => "records-3..9",
            10..=59 => "records-10..59",
            _ => "records-60+",
        });
        c.label(match how {
            Open::Bytes => "open-bytes",
            Open::File => "open-file",
            Open::Mmap => "open-mmap",
        });
        c.label_if(npeeled > 0, "has-peeled");
        c.label_if(!short.is_empty(), "short-queries");
        let below_slash = b.recs.iter().any(|r| {
            b.recs.iter().any(|o| {
                o.name.len() > r.name.len()
                    && o.name.starts_with(&r.name)
                    && o.name[r.name.len()] == b'/'
                    && b.recs.iter().any(|p| {
                        p.name.len() > r.name.len() && p.name.starts_with(&r.name) && p.name[r.name.len()] < b'/'
                    })
            })
        });
        c.label_if(below_slash, "dir-and-sibling-below-slash");
        let absent_queries = queries.len() - b.recs.len();
        c.nontrivial(b.recs.len() >= 3 && npeeled > 0 && absent_queries > 0);
        c.sample_with(|| {
            format!(
                "{:?} {:?} {} records ({} peeled) {} queries + {} short; first: {:?}",
                b.header,
                b.eol,
                b.recs.len(),
                npeeled,
                queries.len(),
                short.len(),
                b.recs.first().map(|r| r.name.as_bstr())
            )
        });

        let buf = match infra!(c, open(&bytes, &how), "scratch file") {
            Ok(b) => b,
            Err(e) => {
                c.fail_sig(
                    "wellformed-open-error",
                    format!("well-formed buffer refused: {e}; bytes={}", show(&bytes)),
                );
                return;
            }
        };
        let (l, errs) = match linear(&buf) {
            Ok(x) => x,
            Err(e) => {
                c.fail_sig("wellformed-iter-error", format!("{e}; bytes={}", show(&bytes)));
                return;
            }
        };
        ensure_sig!(
            c,
            "wellformed-iter-error",
            errs == 0,
            "iter() reports {errs} unparseable lines in a well-formed buffer: {}",
            show(&bytes)
        );
        let mut want = b.recs.clone();
        want.sort_by(|a, b| a.name.cmp(&b.name));
        ensure_sig!(
            c,
            "iter-differs-from-content",
            l == want,
            "iter() lists {:?}\n but the buffer holds (in byte order) {:?}",
            l.iter().map(|r| (r.name.as_bstr(), r.target.as_bstr(), r.peeled.as_ref().map(|p| p.as_bstr()))).collect::<Vec<_>>(),
            want.iter().map(|r| (r.name.as_bstr(), r.target.as_bstr(), r.peeled.as_ref().map(|p| p.as_bstr()))).collect::<Vec<_>>()
        );
        let n = check_queries(c, &buf, &l, &queries, &short, true);
        if !c.failed() {
            c.label_if(n.found > 0, "some-found");
            c.label_if(n.absent > 0, "some-absent");
        }
    });

    ck.sub("corrupt", SubCfg::new(4_000, 100_000).max_len(2600), |t, c| {
        let mut b = gen_buf(t);
        if !matches!(b.header, Header::Sorted) && t.chance(170) {
            // without `sorted` the damage is (correctly) refused when opening; look mostly behind that
            b.header = Header::Sorted;
            b.recs.sort_by(|x, y| x.name.cmp(&y.name));
        }
        if b.recs.is_empty() {
            // nothing to damage: use a fixed record
            b.recs.push(Rec {
                name: b"refs/heads/a".to_vec(),
                target: hexid(b"a", 0, b.hex_len),
                peeled: None,
            });
        }
        let queries = gen_queries(t, &b.recs);
        let short = gen_short_queries(t, &b.recs);
        let (mut bytes, spans) = serialize(&b);
        // damages are applied from the back so that earlier spans stay valid
        let ndamage = t.range(1, 2);
        let mut victims: Vec<usize> = (0..ndamage).map(|_| t.below(spans.len())).collect();
        victims.sort();
        victims.dedup();
        if victims.len() == 2 && victims[1] - victims[0] < 2 {
            // adjacent damaged lines could combine into a parseable line
            victims.pop();
        }
        victims.reverse();
        let mut kinds: Vec<&'static str> = Vec::new();
        for (k, &v) in victims.iter().enumerate() {
            let (start, mid, end) = spans[v];
            let hl = b.hex_len;
            let is_last = v == spans.len() - 1;
            let kind = match t.below(7) {
                0 => {
                    let p = start + t.below(hl);
                    bytes[p] = *t.pick(b"gGA Z");
                    "bad-hex-digit"
                }
                1 => {
                    // hash cut short: keep k < 40 digits
                    let keep = t.below(40);
                    bytes.drain(start + keep..start + hl);
                    "hash-cut-short"
                }
                2 => {
                    // invalid name
                    let name_at = start + hl + 1;
                    const INS: &[&[u8]] = &[b"..", b" ", b"~", b"//", b"\x01"];
                    let ins: &[u8] = *t.pick(INS);
                    let p = name_at + 5 + t.below(b.recs[v].name.len() - 5);
                    bytes.splice(p..p, ins.iter().copied());
                    "invalid-name"
                }
                3 if mid != end => {
                    // broken peeled line
                    let keep = t.below(40);
                    bytes.drain(mid + 1 + keep..mid + 1 + hl);
                    "peeled-cut-short"
                }
                4 if !is_last => {
                    // join with the next line: remove the line end of the ref line
                    let mut p = mid - 1;
                    bytes.remove(p);
                    if p > 0 && bytes[p - 1] == b'\r' {
                        p -= 1;
                        bytes.remove(p);
                    }
                    "lines-joined"
                }
                5 if is_last && k == 0 => {
                    // the buffer ends inside the last record (never at a line boundary, never between a complete
                    // name and its line end... a cut inside the name leaves a line without newline)
                    let cut = start + 1 + t.below(end - start - 1);
                    let cut = if cut == mid { cut - 1 } else { cut };
                    bytes.truncate(cut);
                    "cut-inside-last-record"
                }
                _ => {
                    // separator replaced
                    bytes[start + hl] = *t.pick(b"\t_-");
                    "separator-replaced"
                }
            };
            kinds.push(kind);
        }
        for k in &kinds {
            c.label(k);
        }
        c.key(&b);
        c.key(&kinds);
        c.key(&bytes);
        let sorted_header = matches!(b.header, Header::Sorted);
        c.label(if sorted_header { "header-sorted" } else { "needs-sorting" });
        c.nontrivial(b.recs.len() >= 3);
        c.sample_with(|| format!("{:?} {} records, damage {kinds:?} at records {victims:?}", b.header, b.recs.len()));

        let buf = match packed::Buffer::from_bytes(&bytes) {
            Ok(buf) => buf,
            Err(_) => {
                c.label("open-reports-error");
                return; // unparseable content reported as an error
            }
        };
        ensure_sig!(
            c,
            "corrupt-unsorted-accepted",
            sorted_header,
            "a damaged buffer without `sorted` header has to be iterated to be sorted, yet from_bytes succeeded: {}",
            show(&bytes)
        );
        let (l, errs) = match linear(&buf) {
            Ok(x) => x,
            Err(_) => {
                c.label("iter-reports-error");
                return;
            }
        };
        ensure_sig!(
            c,
            "corrupt-not-reported",
            errs > 0,
            "iter() reports no error for a damaged buffer ({kinds:?}): {}",
            show(&bytes)
        );
        // nothing invented: every listed record is one of the generated ones, possibly with its peeled line lost
        for r in &l {
            let ok = b.recs.iter().any(|g| {
                g.name == r.name && g.target == r.target && (g.peeled == r.peeled || r.peeled.is_none())
            });
            ensure_sig!(c, "corrupt-iter-invents", ok, "iter() lists {r:?} which was never written; bytes={}", show(&bytes));
        }
        let n = check_queries(c, &buf, &l, &queries, &short, false);
        if !c.failed() {
            c.label_if(n.errs > 0, "lookup-reports-error");
            c.label_if(n.found > 0, "lookup-finds-despite-damage");
        }
    });

    ck.finish();
}
