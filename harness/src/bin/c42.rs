//! C42 — the worktree path stack stays consistent across failures.
//!
//! Sub-checks
//! * `fs-stack`: `gix_fs::Stack::make_relative_path_current` driven with histories of relative paths and a recording
//!   delegate that rejects `push` / fails `push_directory` according to rules drawn from the tape. After EVERY call
//!   (Ok or Err) the recorded directory stack (successful `push_directory` minus `pop_directory`) must be the chain of
//!   directories leading to `current()`.
//! * `wt-stack`: `gix_worktree::Stack` with ignore (+ attribute) state read from an in-memory index mapping. Rejections
//!   are produced by unreadable per-directory files (missing blob => `push_directory` error) and non-normal components.
//!   Every successful query on the long-lived stack must answer like a fresh stack.
use bstr::BString;
use gix_fs::stack::Delegate;
use gix_hash::ObjectId;
use std::collections::HashMap;
use std::path::{Component, Path, PathBuf};
use vp::*;

const COMPS: [&str; 4] = ["a", "b", "c", "ab"];

// ---------------------------------------------------------------------------------------------
// history generator (shared)

#[derive(Clone, Debug, Hash, PartialEq)]
struct Hist {
    paths: Vec<String>,
}

fn gen_path(t: &mut Tape, prev: Option<&str>, special: bool) -> (String, &'static str) {
    if t.chance(14) {
        // outside the documented domain of normalized relative paths, but explicitly refused by the implementation
        // (the empty path is only allowed as the very first one; it is left out where answers are compared)
        let base = prev.unwrap_or("a").to_string();
        return match t.range(if special { 0 } else { 1 }, 5) {
            0 => ("".to_string(), "p-empty"),
            1 => ("..".to_string(), "p-non-normal"),
            2 => (format!("{base}/.."), "p-non-normal"),
            3 => (format!("{base}/../b"), "p-non-normal"),
            4 => (format!("/{base}"), "p-non-normal"),
            _ => (format!("./{base}"), "p-non-normal"),
        };
    }
    let fresh = |t: &mut Tape| {
        let d = t.range(1, 5);
        (0..d).map(|_| *t.pick(&COMPS)).collect::<Vec<_>>().join("/")
    };
    let Some(prev) = prev.filter(|p| !p.is_empty() && p.split('/').all(|c| COMPS.contains(&c))) else {
        return (fresh(t), "p-fresh");
    };
    let mut comps: Vec<&str> = prev.split('/').collect();
    match t.weighted(&[2, 3, 4, 4, 2, 3]) {
        0 => (prev.to_string(), "p-same"),
        1 => {
            // a leading directory of the previous path (file -> its parent as leaf)
            if comps.len() > 1 {
                let keep = t.range(1, comps.len() - 1);
                comps.truncate(keep);
            }
            (comps.join("/"), "p-parent")
        }
        2 => {
            // the previous leaf becomes a directory
            if comps.len() < 5 {
                let n = t.range(1, 5 - comps.len());
                for _ in 0..n {
                    comps.push(*t.pick(&COMPS));
                }
            }
            (comps.join("/"), "p-child")
        }
        3 => {
            // sibling at some depth
            let at = t.below(comps.len());
            comps.truncate(at);
            comps.push(*t.pick(&COMPS));
            if t.bool() && comps.len() < 5 {
                comps.push(*t.pick(&COMPS));
            }
            (comps.join("/"), "p-sibling")
        }
        4 => (fresh(t), "p-fresh"),
        _ => {
            // shares a prefix, then diverges deeper
            let at = t.range(1, comps.len());
            comps.truncate(at);
            let n = t.range(1, (5usize.saturating_sub(comps.len())).max(1));
            for _ in 0..n {
                if comps.len() < 5 {
                    comps.push(*t.pick(&COMPS));
                }
            }
            (comps.join("/"), "p-diverge")
        }
    }
}

fn gen_history(t: &mut Tape, c: &mut Case, max: usize, special: bool) -> Hist {
    let n = t.range(1, max);
    let mut paths: Vec<String> = Vec::new();
    for _ in 0..n {
        let (p, l) = gen_path(t, paths.last().map(|s| s.as_str()), special);
        c.label(l);
        paths.push(p);
    }
    Hist { paths }
}

// ---------------------------------------------------------------------------------------------
// fs-stack: recording delegate

#[derive(Clone, Copy, Debug, Hash, PartialEq)]
enum Leafness {
    Any,
    Leaf,
    NonLeaf,
}

/// A call is rejected when all the criteria that are `Some` match.
#[derive(Clone, Debug, Hash, PartialEq)]
struct Rule {
    on_push_directory: bool,
    name: Option<&'static str>,
    depth: Option<usize>,
    nth: Option<usize>,
    leafness: Leafness,
}

fn gen_rules(t: &mut Tape, c: &mut Case) -> Vec<Rule> {
    let n = t.weighted(&[3, 6, 4, 2]);
    let mut rules = Vec::new();
    for _ in 0..n {
        let on_push_directory = t.chance(56);
        let kind = t.weighted(&[4, 3, 3, 2]);
        let mut r = Rule {
            on_push_directory,
            name: None,
            depth: None,
            nth: None,
            leafness: Leafness::Any,
        };
        match kind {
            0 => r.name = Some(*t.pick(&COMPS)),
            1 => {
                r.name = Some(*t.pick(&COMPS));
                r.depth = Some(t.range(1, 4));
            }
            2 => r.nth = Some(t.range(0, 30)),
            _ => {
                r.depth = Some(t.range(1, 4));
                r.name = Some(*t.pick(&COMPS));
                r.nth = None;
            }
        }
        if !on_push_directory {
            r.leafness = *t.pick(&[Leafness::Any, Leafness::Any, Leafness::Leaf, Leafness::NonLeaf]);
        }
        c.label(if on_push_directory { "rule-push-directory" } else { "rule-push" });
        rules.push(r);
    }
    rules
}

#[derive(Clone, Debug, PartialEq)]
enum Ev {
    PushDir { rel: PathBuf, ok: bool },
    Push { rel: PathBuf, is_last: bool, ok: bool },
    Pop,
}

struct Rec {
    root: PathBuf,
    rules: Vec<Rule>,
    /// successful push_directory minus pop_directory, paths captured at call time
    dirs: Vec<PathBuf>,
    events: Vec<Ev>,
    push_calls: usize,
    pd_calls: usize,
    /// first protocol violation seen inside a callback
    broken: Option<String>,
}

impl Rec {
    fn rejects(&self, on_pd: bool, rel: &Path, is_last: bool, counter: usize) -> bool {
        let depth = rel.components().count();
        let name = rel.file_name().and_then(|n| n.to_str()).unwrap_or("");
        self.rules.iter().any(|r| {
            r.on_push_directory == on_pd
                && r.name.map_or(true, |n| n == name)
                && r.depth.map_or(true, |d| d == depth)
                && r.nth.map_or(true, |n| n == counter)
                && match r.leafness {
                    Leafness::Any => true,
                    Leafness::Leaf => is_last,
                    Leafness::NonLeaf => !is_last,
                }
        })
    }
    fn check_paths(&mut self, stack: &gix_fs::Stack, what: &str) {
        if self.broken.is_none() && stack.current() != self.root.join(stack.current_relative()) {
            self.broken = Some(format!(
                "during {what}: current() = {:?} but root.join(current_relative()) = {:?}",
                stack.current(),
                self.root.join(stack.current_relative())
            ));
        }
    }
}

fn reject_err() -> std::io::Error {
    std::io::Error::new(std::io::ErrorKind::Other, "rejected by the test delegate")
}

impl Delegate for Rec {
    fn push_directory(&mut self, stack: &gix_fs::Stack) -> std::io::Result<()> {
        self.check_paths(stack, "push_directory");
        let rel = stack.current_relative().to_owned();
        let n = self.pd_calls;
        self.pd_calls += 1;
        // the root is never refused
        let refuse = !rel.as_os_str().is_empty() && self.rejects(true, &rel, false, n);
        self.events.push(Ev::PushDir {
            rel: rel.clone(),
            ok: !refuse,
        });
        if refuse {
            return Err(reject_err());
        }
        self.dirs.push(stack.current().to_owned());
        Ok(())
    }
    fn push(&mut self, is_last_component: bool, stack: &gix_fs::Stack) -> std::io::Result<()> {
        self.check_paths(stack, "push");
        let rel = stack.current_relative().to_owned();
        let n = self.push_calls;
        self.push_calls += 1;
        let refuse = self.rejects(false, &rel, is_last_component, n);
        self.events.push(Ev::Push {
            rel,
            is_last: is_last_component,
            ok: !refuse,
        });
        if refuse {
            Err(reject_err())
        } else {
            Ok(())
        }
    }
    fn pop_directory(&mut self) {
        self.events.push(Ev::Pop);
        if self.dirs.pop().is_none() && self.broken.is_none() {
            self.broken = Some("pop_directory() called although no directory is pushed".into());
        }
    }
}

fn normal_components(p: &str) -> (Vec<String>, bool) {
    // (leading normal components, all components are normal)
    let mut out = Vec::new();
    for comp in Path::new(p).components() {
        match comp {
            Component::Normal(n) => out.push(n.to_string_lossy().to_string()),
            _ => return (out, false),
        }
    }
    (out, true)
}

fn rel_components(p: &Path) -> Vec<String> {
    p.components().map(|c| c.as_os_str().to_string_lossy().to_string()).collect()
}

fn chain(root: &Path, comps: &[String], upto: usize) -> Vec<PathBuf> {
    let mut v = vec![root.to_owned()];
    let mut cur = root.to_owned();
    for c in &comps[..upto] {
        cur.push(c);
        v.push(cur.clone());
    }
    v
}

fn run_fs_stack(hist: &Hist, rules: Vec<Rule>, c: &mut Case) {
    let root = PathBuf::from("/vp-c42-root/w");
    let mut stack = gix_fs::Stack::new(root.clone());
    let mut rec = Rec {
        root: root.clone(),
        rules,
        dirs: Vec::new(),
        events: Vec::new(),
        push_calls: 0,
        pd_calls: 0,
        broken: None,
    };
    // classification of the most recent rejection (narrow signatures for known findings)
    let mut last_rej: &'static str = "none";
    let mut empty_ok_seen = false;
    let mut rejected_paths: Vec<(usize, Vec<String>)> = Vec::new();
    let mut nontrivial_followers = 0usize;

    for (idx, req) in hist.paths.iter().enumerate() {
        let (req_normal, all_normal) = normal_components(req);
        let total_comps = Path::new(req).components().count();
        let before_rel = stack.current_relative().to_owned();
        let before_dirs = rec.dirs.clone();
        rec.events.clear();
        let res = stack.make_relative_path_current(Path::new(req), &mut rec);

        // NT bookkeeping: calls after a rejection which share a prefix with the rejected path
        if let Some((at, rp)) = rejected_paths.last() {
            if idx > *at && !rp.is_empty() && req_normal.first() == rp.first() {
                nontrivial_followers += 1;
            }
        }

        let sig = |last_rej: &str, empty_ok_seen: bool| -> String {
            if last_rej != "none" {
                format!("unbalanced-after:{last_rej}")
            } else if empty_ok_seen {
                "unbalanced-after:empty-path-at-root".to_string()
            } else {
                String::new()
            }
        };

        // classify this call's rejection before evaluating invariants so the signature names the cause
        if res.is_err() {
            let cause = rec.events.iter().rev().find_map(|e| match e {
                Ev::Push { ok: false, is_last, .. } => Some(if *is_last { "rejected-leaf-push" } else { "rejected-dir-push" }),
                Ev::PushDir { ok: false, .. } => Some("failed-push-directory"),
                _ => None,
            });
            last_rej = match cause {
                Some(k) => k,
                // refused without touching the stack: the cause of a later imbalance is an earlier refusal
                None if req.is_empty() => last_rej,
                None => "refused-non-normal-component",
            };
            rejected_paths.push((idx, req_normal.clone()));
        }
        let s = sig(last_rej, empty_ok_seen);
        let ctx = |m: String| format!("call #{idx} {req:?} -> {}: {m}; events {:?}; history {:?}", if res.is_ok() { "Ok" } else { "Err" }, rec.events, &hist.paths[..=idx]);

        if let Some(b) = rec.broken.take() {
            c.fail_sig(&s, ctx(b));
            return;
        }
        // I1
        if stack.current() != root.join(stack.current_relative()) {
            c.fail_sig(&s, ctx(format!("current() {:?} != root.join(current_relative() {:?})", stack.current(), stack.current_relative())));
            return;
        }
        let rel = rel_components(stack.current_relative());
        // The directories the delegate must be in afterwards. `k` components are current, `b` were current before,
        // the first `m` of them are shared with the request.
        let before = rel_components(&before_rel);
        let (k, b) = (rel.len(), before.len());
        let m = before.iter().zip(req_normal.iter()).take_while(|(x, y)| x == y).count();
        let entered_now = rec
            .events
            .iter()
            .any(|e| matches!(e, Ev::PushDir { rel: r, ok: true } if r.as_path() == stack.current_relative()));
        let allowed: Vec<Vec<PathBuf>>;
        match &res {
            Ok(()) => {
                // I3: the stack points at the requested path
                if !all_normal || rel != req_normal {
                    c.fail_sig(&s, ctx(format!("Ok, but current_relative() = {:?} for the requested path", stack.current_relative())));
                    return;
                }
                // every new component was announced with the right leaf flag
                let pushes: Vec<(Vec<String>, bool)> = rec
                    .events
                    .iter()
                    .filter_map(|e| match e {
                        Ev::Push { rel, is_last, ok: true } => Some((rel_components(rel), *is_last)),
                        _ => None,
                    })
                    .collect();
                for i in m..req_normal.len() {
                    let want = (req_normal[..=i].to_vec(), i + 1 == req_normal.len());
                    if !pushes.contains(&want) {
                        c.fail_sig(&s, ctx(format!("component {:?} (is_last={}) was never announced through push()", want.0, want.1)));
                        return;
                    }
                }
                for (p, is_last) in &pushes {
                    if !req_normal.starts_with(p) || *is_last != (p.len() == req_normal.len()) {
                        c.fail_sig(&s, ctx(format!("push() announced {p:?} is_last={is_last}, which does not fit the requested path")));
                        return;
                    }
                }
                allowed = if k == 0 {
                    vec![chain(&root, &rel, 0)]
                } else if k > m {
                    // a new leaf: a file as far as the stack knows
                    vec![chain(&root, &rel, k - 1)]
                } else if k == b {
                    // the same path again: nothing changes
                    vec![before_dirs.clone()]
                } else {
                    // a leading directory of the previous path is now the terminal path: it may stay entered (a terminal path may
                    // designate a directory) or be left
                    vec![chain(&root, &rel, k), chain(&root, &rel, k - 1)]
                };
                if req.is_empty() {
                    empty_ok_seen = true;
                }
            }
            Err(_) => {
                if rec.events.is_empty() && stack.current_relative() == before_rel {
                    // refused without touching anything
                    allowed = vec![before_dirs.clone()];
                } else {
                    if !req_normal.starts_with(&rel) {
                        c.fail_sig(&s, ctx(format!("after the error current_relative() = {:?} is not a leading part of the requested path", stack.current_relative())));
                        return;
                    }
                    allowed = if k > m {
                        // newly pushed in this call and still current after the error: it is not the last component of the
                        // request, so it must have been entered as directory
                        vec![chain(&root, &rel, if k < total_comps { k } else { k - 1 })]
                    } else if k < b {
                        // a directory of the previous path
                        vec![chain(&root, &rel, k)]
                    } else if entered_now {
                        // the previous leaf was successfully turned into a directory before the error
                        vec![chain(&root, &rel, k)]
                    } else {
                        // the previous leaf, untouched
                        vec![before_dirs.clone()]
                    };
                }
            }
        }
        let expected_dirs = &allowed;
        // I2: balanced directory notifications
        if !expected_dirs.contains(&rec.dirs) {
            c.fail_sig(
                &s,
                ctx(format!(
                    "directories the delegate is in (push_directory minus pop_directory) = {:?}, but current_relative() = {:?} requires (one of) {:?}",
                    rec.dirs,
                    stack.current_relative(),
                    expected_dirs
                )),
            );
            return;
        }
    }
    c.label_if(last_rej != "none", "has-rejection");
    c.nontrivial(nontrivial_followers >= 2);
}

// ---------------------------------------------------------------------------------------------
// wt-stack: gix_worktree::Stack with ignore/attribute state from an in-memory index mapping

#[derive(Clone)]
struct Mem(HashMap<ObjectId, Vec<u8>>);

impl gix_object::Find for Mem {
    fn try_find<'a>(
        &self,
        id: &gix_hash::oid,
        buffer: &'a mut Vec<u8>,
    ) -> Result<Option<gix_object::Data<'a>>, gix_object::find::Error> {
        match self.0.get(id) {
            Some(d) => {
                buffer.clear();
                buffer.extend_from_slice(d);
                Ok(Some(gix_object::Data {
                    kind: gix_object::Kind::Blob,
                    data: buffer,
                }))
            }
            None => Ok(None),
        }
    }
}

#[derive(Clone, Debug, Hash)]
struct WtWorld {
    /// (path of the .gitignore/.gitattributes file, content or None for "blob missing")
    files: Vec<(String, Option<String>)>,
    with_attributes: bool,
}

fn gen_wt_world(t: &mut Tape, c: &mut Case) -> WtWorld {
    const IGN: [&str; 12] = ["a", "b", "c", "ab", "a/", "!a", "!b", "*b", "/c", "a/b", "**/c", "!*"];
    const ATTR: [&str; 8] = ["a x", "b -x", "* y=1", "c x=2", "ab !x", "*b y", "a/b z", "/c x y=3"];
    let with_attributes = t.chance(100);
    let mut dirs: Vec<String> = vec!["".to_string()];
    let ndirs = t.range(1, 6);
    for _ in 0..ndirs {
        let base = dirs[t.below(dirs.len())].clone();
        if base.split('/').count() >= 3 && !base.is_empty() {
            continue;
        }
        let d = if base.is_empty() {
            t.pick(&COMPS).to_string()
        } else {
            format!("{base}/{}", t.pick(&COMPS))
        };
        if !dirs.contains(&d) {
            dirs.push(d);
        }
    }
    let mut files = Vec::new();
    let mut missing = 0;
    for d in &dirs {
        let mut one = |t: &mut Tape, name: &str, lines: &[&str], files: &mut Vec<(String, Option<String>)>| {
            let p = if d.is_empty() { name.to_string() } else { format!("{d}/{name}") };
            // the root files are always readable (the root is never popped)
            if !d.is_empty() && t.chance(70) {
                files.push((p, None));
                return true;
            }
            let n = t.range(1, 3);
            let body: String = (0..n).map(|_| format!("{}\n", t.pick(lines))).collect();
            files.push((p, Some(body)));
            false
        };
        if t.chance(200) {
            if one(t, ".gitignore", &IGN, &mut files) {
                missing += 1;
            }
        }
        if with_attributes && t.chance(160) {
            if one(t, ".gitattributes", &ATTR, &mut files) {
                missing += 1;
            }
        }
    }
    c.label_if(missing > 0, "has-unreadable-file");
    c.label_if(with_attributes, "attributes+ignore");
    c.label_if(!with_attributes, "ignore-only");
    files.sort();
    WtWorld { files, with_attributes }
}

fn make_wt_stack(w: &WtWorld) -> (gix_worktree::Stack, Mem) {
    use gix_worktree::stack::state;
    let mut mem = HashMap::new();
    let mut mappings: Vec<(BString, ObjectId)> = Vec::new();
    for (i, (p, body)) in w.files.iter().enumerate() {
        let id = match body {
            Some(b) => {
                let id = gix_object::compute_hash(gix_hash::Kind::Sha1, gix_object::Kind::Blob, b.as_bytes());
                mem.insert(id, b.as_bytes().to_vec());
                id
            }
            None => {
                let mut raw = [0xeeu8; 20];
                raw[19] = i as u8;
                ObjectId::from_bytes_or_panic(&raw)
            }
        };
        mappings.push((p.as_str().into(), id));
    }
    mappings.sort_by(|a, b| a.0.cmp(&b.0));
    let ignore = state::Ignore::new(Default::default(), Default::default(), None, state::ignore::Source::IdMapping);
    let st = if w.with_attributes {
        gix_worktree::stack::State::AttributesAndIgnoreStack {
            attributes: state::Attributes::new(
                Default::default(),
                None,
                state::attributes::Source::IdMapping,
                Default::default(),
            ),
            ignore,
        }
    } else {
        gix_worktree::stack::State::IgnoreStack(ignore)
    };
    (
        gix_worktree::Stack::new(
            "/vp-c42-root/wt",
            st,
            gix_glob::pattern::Case::Sensitive,
            Vec::new(),
            mappings,
        ),
        Mem(mem),
    )
}

type Answer = (bool, Option<(String, Option<PathBuf>, usize)>, Vec<(String, String)>);

fn query(stack: &mut gix_worktree::Stack, mem: &Mem, path: &str, with_attributes: bool) -> Result<Answer, String> {
    let mut out = with_attributes.then(|| stack.attribute_matches());
    let platform = stack
        .at_entry(path, Some(gix_index::entry::Mode::FILE), mem)
        .map_err(|e| e.to_string())?;
    let m = platform.matching_exclude_pattern();
    let excluded = platform.is_excluded();
    let pat = m.map(|m| (m.pattern.to_string(), m.source.map(|p| p.to_owned()), m.sequence_number));
    let mut attrs = Vec::new();
    if let Some(out) = out.as_mut() {
        platform.matching_attributes(out);
        for m in out.iter() {
            attrs.push((m.assignment.name.as_str().to_string(), format!("{:?}", m.assignment.state)));
        }
        attrs.sort();
    }
    Ok((excluded, pat, attrs))
}

/// `gix_fs::Stack` documents that paths must be terminal, "point to their designated file or directory". When answers of two
/// stacks are compared, every path therefore keeps one role per history: what was used as a directory is never queried as a
/// file and the other way round (the fs-stack sub-check does mix them).
fn make_roles_consistent(hist: &mut Hist) {
    let mut dirs: Vec<String> = Vec::new();
    let mut files: Vec<String> = Vec::new();
    fn add(v: &mut Vec<String>, s: String) {
        if !v.contains(&s) {
            v.push(s);
        }
    }
    for p in hist.paths.iter_mut() {
        let comps: Vec<String> = p.split('/').map(|s| s.to_string()).collect();
        match comps.iter().position(|c| !COMPS.contains(&c.as_str())) {
            None => {
                let mut out: Vec<String> = Vec::new();
                let mut cut = false;
                for (i, comp) in comps.iter().enumerate() {
                    out.push(comp.clone());
                    if i + 1 < comps.len() && files.contains(&out.join("/")) {
                        // a known file cannot be a directory: query that file again
                        cut = true;
                        break;
                    }
                }
                if !cut {
                    while dirs.contains(&out.join("/")) {
                        out.push("c".to_string());
                    }
                }
                for d in 1..out.len() {
                    add(&mut dirs, out[..d].join("/"));
                }
                add(&mut files, out.join("/"));
                *p = out.join("/");
            }
            Some(0) => {}
            Some(at) => {
                // the normal components before the special one are directories
                let mut keep: Vec<String> = Vec::new();
                for comp in &comps[..at] {
                    let mut q = keep.clone();
                    q.push(comp.clone());
                    if files.contains(&q.join("/")) {
                        break;
                    }
                    keep = q;
                }
                for d in 1..=keep.len() {
                    add(&mut dirs, keep[..d].join("/"));
                }
                keep.extend(comps[at..].iter().cloned());
                *p = keep.join("/");
            }
        }
    }
}

fn run_wt_stack(w: &WtWorld, hist: &Hist, c: &mut Case) {
    let (mut long_lived, mem) = make_wt_stack(w);
    let mut last_err: Option<(usize, String)> = None;
    let mut errs = 0;
    let mut followers = 0;
    for (idx, p) in hist.paths.iter().enumerate() {
        let got = query(&mut long_lived, &mem, p, w.with_attributes);
        let (mut fresh, _) = make_wt_stack(w);
        let want = query(&mut fresh, &mem, p, w.with_attributes);
        let sig = match &last_err {
            Some((_, e)) if e.contains("could not be found") || e.contains("NotFound") => "wt-state-after:failed-push-directory".to_string(),
            Some(_) => "wt-state-after:refused-path".to_string(),
            None => String::new(),
        };
        let ctx = |m: String| format!("query #{idx} {p:?}: {m}; history {:?}; files {:?}", &hist.paths[..=idx], w.files);
        match (&got, &want) {
            (Ok(g), Ok(f)) => {
                if g != f {
                    c.fail_sig(&sig, ctx(format!("long-lived stack answers {g:?}, a fresh stack answers {f:?}")));
                    return;
                }
                if last_err.is_some() {
                    followers += 1;
                }
            }
            (Ok(g), Err(e)) => {
                c.fail_sig(&sig, ctx(format!("long-lived stack answers {g:?} although a fresh stack refuses the path with: {e}")));
                return;
            }
            (Err(e), Ok(f)) => {
                c.fail_sig(&sig, ctx(format!("long-lived stack refuses the path ({e}) although a fresh stack answers {f:?}")));
                return;
            }
            (Err(e), Err(_)) => {
                errs += 1;
                last_err = Some((idx, e.clone()));
            }
        }
    }
    c.label_if(errs > 0, "has-rejection");
    c.nontrivial(errs > 0 && followers >= 2);
}

pub fn main() {
    let mut ck = Check::new("C42", "exploration");
    ck.rule("Histories of 1..40 relative paths over components {a,b,c,ab}, depth 1..5, each derived from the previous one (same, parent, child, sibling, diverging, fresh; a few empty/non-normal ones), with a delegate whose push()/push_directory() refusals follow 0..3 rules (by component name, depth, leaf-ness or call number) drawn from the tape. Non-trivial: at least one refused call followed by >= 2 further calls sharing the first component with the refused path (fs-stack) resp. >= 2 later successful queries (wt-stack). Distinct by (history, rules/world).");
    ck.assume("a push_directory() that returns an error is treated as 'directory not entered' (it is not recorded), and the root directory is never refused");
    ck.assume("after a refused call the stack may rest at any leading part of the requested path; only internal consistency is asserted (current == root.join(current_relative), every component of current_relative except a file leaf entered exactly once as directory, nothing else entered)");

    ck.sub("fs-stack", SubCfg::new(200_000, 4_000_000).max_len(400), |t, c| {
        let rules = gen_rules(t, c);
        let hist = gen_history(t, c, 40, true);
        c.key(&(&hist, &rules));
        c.sample_with(|| format!("{:?} rules {:?}", hist.paths, rules));
        run_fs_stack(&hist, rules, c);
    });

    ck.sub("wt-stack", SubCfg::new(40_000, 1_000_000).max_len(400), |t, c| {
        let w = gen_wt_world(t, c);
        let mut hist = gen_history(t, c, 24, false);
        make_roles_consistent(&mut hist);
        c.key(&(&hist, &w));
        c.sample_with(|| format!("{:?} files {:?}", hist.paths, w.files));
        run_wt_stack(&w, &hist, c);
    });

    ck.finish();
}
