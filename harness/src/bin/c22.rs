//! C22 — lock files give exclusive, atomic updates for every resource path.
//!
//! Sub-checks
//! * `naming`        — one generated resource path (arbitrary bytes in the file name, nested directories below a boundary,
//!                     pre-existing state) and one acquire/write/close/commit/drop script; the oracle is a model of the whole
//!                     directory tree, compared after every step.
//! * `interleavings` — 2..3 logical holders with short scripts on the same resource(s); EVERY interleaving of their API calls
//!                     is executed (sequentially, fresh directory each) against a lock model.
//! * `race-threads`  — 2..8 OS threads race acquire/hold/commit/drop scripts; an O_APPEND journal must never show two holders
//!                     inside, a concurrent reader must only ever see complete tokens, the final content is the last commit.
//! * `race-procs`    — the same with 2..4 worker processes (this binary, `--c22-worker`), each with 1..2 threads.
use gix_lock::acquire::{Error as AcquireError, Fail};
use gix_lock::{File as LockFile, Marker};
use std::collections::BTreeMap;
use std::ffi::OsStr;
use std::io::Write;
use std::os::unix::ffi::OsStrExt;
use std::path::{Path, PathBuf};
use std::time::Duration;
use vp::*;

type Tree = BTreeMap<Vec<u8>, Option<Vec<u8>>>; // relative path -> None (directory) | Some(content)

fn p(bytes: &[u8]) -> &Path {
    Path::new(OsStr::from_bytes(bytes))
}

fn snapshot(root: &Path) -> std::io::Result<Tree> {
    fn walk(root: &Path, dir: &Path, out: &mut Tree) -> std::io::Result<()> {
        for e in std::fs::read_dir(dir)? {
            let e = e?;
            let path = e.path();
            let rel = path.strip_prefix(root).unwrap().as_os_str().as_bytes().to_vec();
            if e.file_type()?.is_dir() {
                out.insert(rel, None);
                walk(root, &path, out)?;
            } else {
                out.insert(rel, Some(std::fs::read(&path)?));
            }
        }
        Ok(())
    }
    let mut out = Tree::new();
    walk(root, root, &mut out)?;
    Ok(out)
}

fn show_tree(t: &Tree) -> String {
    let mut s = String::from("{");
    for (k, v) in t {
        match v {
            None => s.push_str(&format!(" {}/", show(k))),
            Some(c) => s.push_str(&format!(" {}={:?}", show(k), show(&c[..c.len().min(24)]))),
        }
    }
    s.push_str(" }");
    s
}

fn join(a: &[u8], b: &[u8]) -> Vec<u8> {
    if a.is_empty() {
        return b.to_vec();
    }
    let mut v = a.to_vec();
    v.push(b'/');
    v.extend_from_slice(b);
    v
}

// ------------------------------------------------------------------------------------------------
// naming

/// Split like `Path::extension`: (stem, Some(ext)) at the last dot unless that dot starts the name.
fn split_ext(name: &[u8]) -> (&[u8], Option<&[u8]>) {
    if name == b".." {
        return (name, None);
    }
    match name.iter().rposition(|&b| b == b'.') {
        None | Some(0) => (name, None),
        Some(i) => (&name[..i], Some(&name[i + 1..])),
    }
}

/// names like `..a` (two leading dots, no other dot): `Path::with_extension` of the current std yields `..` for them
fn dotdot_class(name: &[u8]) -> bool {
    name.len() > 2 && name.starts_with(b"..") && !name[2..].contains(&b'.')
}

const ASCII_PIECES: &[&[u8]] = &[b"a", b"res", b"HEAD", b"x y", b"-", b"_", b"1", b"index", b"packed-refs", b"~", b"lock", b"A"];
const UTF8_PIECES: &[&[u8]] = &["é".as_bytes(), "✓".as_bytes(), "ü".as_bytes(), "𝄞".as_bytes()];
const RAW_PIECES: &[&[u8]] = &[b"\xff", b"\xe9", b"\xc3", b"\x80\x81", b"\xf0\x9f", b"\xfe\xff", b"a\xffb", b"\xc3\x28"];

fn piece(t: &mut Tape) -> &'static [u8] {
    match t.weighted(&[5, 2, 3]) {
        0 => *t.pick(ASCII_PIECES),
        1 => *t.pick(UTF8_PIECES),
        _ => *t.pick(RAW_PIECES),
    }
}
fn part(t: &mut Tape, max: usize) -> Vec<u8> {
    let n = t.range(1, max);
    let mut v = Vec::new();
    for _ in 0..n {
        v.extend_from_slice(piece(t));
    }
    v
}

fn gen_name(t: &mut Tape) -> Vec<u8> {
    let mut v = Vec::new();
    let dot = |v: &mut Vec<u8>| v.push(b'.');
    match t.weighted(&[3, 6, 3, 2, 2, 3, 2, 2, 1, 1]) {
        0 => v.extend(part(t, 3)),
        1 => {
            v.extend(part(t, 2));
            dot(&mut v);
            v.extend(part(t, 2));
        }
        2 => {
            v.extend(part(t, 2));
            dot(&mut v);
            v.extend(part(t, 2));
            dot(&mut v);
            v.extend(part(t, 2));
        }
        3 => {
            dot(&mut v);
            v.extend(part(t, 2));
        }
        4 => {
            dot(&mut v);
            v.extend(part(t, 2));
            dot(&mut v);
            v.extend(part(t, 2));
        }
        5 => {
            v.extend(part(t, 2));
            dot(&mut v);
        }
        6 => {
            v.extend(part(t, 2));
            v.extend_from_slice(b".lock");
        }
        7 => {
            v.extend(part(t, 2));
            dot(&mut v);
            v.extend(part(t, 2));
            v.extend_from_slice(b".lock");
        }
        8 => {
            v.extend(part(t, 2));
            v.extend_from_slice(b"..");
        }
        _ => {
            v.extend_from_slice(b"..");
            v.extend(part(t, 2));
        }
    }
    v
}

#[derive(Debug, Clone, Hash, PartialEq, Eq)]
struct DirSpec {
    name: Vec<u8>,
    exists: bool,
    sibling: bool,
}

#[derive(Debug, Clone, Copy, Hash, PartialEq, Eq)]
enum Kind {
    File,
    Marker,
}
#[derive(Debug, Clone, Copy, Hash, PartialEq, Eq)]
enum End {
    Commit,
    Drop,
    CloseCommit,
    CloseDrop,
    /// Marker only: `commit()` must be refused and hand the marker back, which is then dropped
    RefusedCommitThenDrop,
}

#[derive(Debug, Hash)]
struct NameCase {
    name: Vec<u8>,
    dirs: Vec<DirSpec>,
    boundary: bool,
    pre: Option<Vec<u8>>,
    /// the boundary directory holds an unrelated file (otherwise it is empty apart from the path to the resource)
    boundary_has_file: bool,
    kind: Kind,
    writes: Vec<Vec<u8>>,
    second: Option<(Kind, bool)>,
    end: End,
    reacquire: bool,
}

fn gen_naming(t: &mut Tape) -> NameCase {
    let name = gen_name(t);
    let boundary = t.chance(180);
    let pre = if t.chance(110) { Some(t.string_of(b"old content\n\x00\xff", 0, 12)) } else { None };
    let ndirs = t.weighted(&[2, 3, 3, 2]);
    let mut dirs = Vec::new();
    let mut exists = true;
    for i in 0..ndirs {
        // a resource that exists implies that its directories exist
        if boundary && pre.is_none() && exists && t.chance(150) {
            exists = false;
        }
        let name = if t.chance(48) { part(t, 2) } else { format!("d{i}").into_bytes() };
        let sibling = exists && t.bool();
        dirs.push(DirSpec { name, exists, sibling });
    }
    let kind = if t.chance(180) { Kind::File } else { Kind::Marker };
    let mut writes = Vec::new();
    if kind == Kind::File {
        for _ in 0..t.weighted(&[2, 4, 2]) {
            writes.push(t.string_of(b"new\n \x00\xfeXYZ", 0, 10));
        }
    }
    let second = if t.chance(128) {
        Some((if t.bool() { Kind::File } else { Kind::Marker }, t.chance(40)))
    } else {
        None
    };
    let end = match kind {
        Kind::File => *t.pick(&[End::Commit, End::Commit, End::Drop, End::Drop, End::CloseCommit, End::CloseDrop]),
        Kind::Marker => *t.pick(&[End::Drop, End::Drop, End::RefusedCommitThenDrop]),
    };
    let reacquire = t.chance(64);
    let boundary_has_file = t.bool();
    NameCase {
        boundary_has_file,
        name,
        dirs,
        boundary,
        pre,
        kind,
        writes,
        second,
        end,
        reacquire,
    }
}

enum Held {
    F(LockFile),
    M(Marker),
}

fn acquire(kind: Kind, at: &Path, mode: Fail, boundary: Option<PathBuf>) -> Result<Held, AcquireError> {
    match kind {
        Kind::File => LockFile::acquire_to_update_resource(at, mode, boundary).map(Held::F),
        Kind::Marker => Marker::acquire_to_hold_resource(at, mode, boundary).map(Held::M),
    }
}

/// remove from `t` the directories which `drop` MAY remove although it did not create them (documented behaviour of
/// AutoRemove::TempfileAndEmptyParentDirectoriesUntil: empty containing directories below the boundary go away)
fn without(t: &Tree, optional: &[Vec<u8>]) -> Tree {
    t.iter().filter(|(k, _)| !optional.contains(k)).map(|(k, v)| (k.clone(), v.clone())).collect()
}

fn run_naming(nc: &NameCase, c: &mut Case) {
    let scratch = infra!(c, Scratch::new("c22"), "scratch");
    let root = scratch.join("w");
    // pre-state
    let mut pre = Tree::new();
    pre.insert(b"outside.txt".to_vec(), Some(b"outside".to_vec()));
    pre.insert(b"bnd".to_vec(), None);
    if nc.boundary_has_file {
        pre.insert(b"bnd/keep.txt".to_vec(), Some(b"keep".to_vec()));
    }
    let mut rel_dir = b"bnd".to_vec();
    let mut optional = Vec::new(); // pre-existing empty directories on the way to the resource
    let mut created = Vec::new();
    for d in &nc.dirs {
        rel_dir = join(&rel_dir, &d.name);
        if d.exists {
            pre.insert(rel_dir.clone(), None);
            if d.sibling {
                pre.insert(join(&rel_dir, b"sibling"), Some(b"s".to_vec()));
            }
        } else {
            created.push(rel_dir.clone());
        }
    }
    // a pre-existing directory is 'optional' after a rollback when it and everything below it on the path is empty
    {
        let mut all_empty_below = true;
        let mut path = rel_dir.clone();
        for d in nc.dirs.iter().rev() {
            if d.exists {
                if d.sibling {
                    all_empty_below = false;
                }
                if all_empty_below && nc.boundary {
                    optional.push(path.clone());
                }
            }
            let cut = path.len() - d.name.len() - 1;
            path.truncate(cut);
        }
    }
    let rel_res = join(&rel_dir, &nc.name);
    let mut rel_lock = rel_res.clone();
    rel_lock.extend_from_slice(b".lock");
    if let Some(content) = &nc.pre {
        pre.insert(rel_res.clone(), Some(content.clone()));
        // the resource makes its directory non-empty
        optional.clear();
    }
    for (k, v) in &pre {
        let path = root.join(p(k));
        match v {
            None => infra!(c, std::fs::create_dir_all(&path), "mkdir"),
            Some(content) => {
                infra!(c, std::fs::create_dir_all(path.parent().unwrap()), "mkdir");
                infra!(c, std::fs::write(&path, content), "write pre-state");
            }
        }
    }
    let got = infra!(c, snapshot(&root), "snapshot");
    if got != pre {
        c.infra(format!("pre-state not as modelled: {} vs {}", show_tree(&got), show_tree(&pre)));
        return;
    }
    let resource = root.join(p(&rel_res));
    let lock = root.join(p(&rel_lock));
    let boundary = nc.boundary.then(|| root.join("bnd"));
    let (_, ext) = split_ext(&nc.name);
    let lossy_class = ext.map_or(false, |e| std::str::from_utf8(e).is_err());

    let mut rounds = if nc.reacquire { 2 } else { 1 };
    let mut current = pre.clone(); // the model of the tree
    while rounds > 0 {
        rounds -= 1;
        let last_round = rounds == 0;
        // ---- acquire
        let mut held = match acquire(nc.kind, &resource, Fail::Immediately, boundary.clone()) {
            Ok(h) => h,
            Err(e) => {
                let sig = if dotdot_class(&nc.name) { "lock-unobtainable-leading-dotdot-name" } else { "" };
                c.fail_sig(sig, format!("acquiring the lock for free resource {} failed: {e:?}", show(&rel_res)));
                return;
            }
        };
        let (lock_path, resource_path) = match &held {
            Held::F(f) => (f.lock_path().to_owned(), f.resource_path()),
            Held::M(m) => (m.lock_path().to_owned(), m.resource_path()),
        };
        if lock_path != lock {
            let sig = if lossy_class && lock_path.as_os_str().as_bytes().windows(3).any(|w| w == "\u{FFFD}".as_bytes()) {
                "lock-path-lossy-non-utf8-extension"
            } else {
                "lock-path-mismatch"
            };
            c.fail_sig(
                sig,
                format!(
                    "lock_path() = {} but the resource is {}: expected the resource path with '.lock' appended",
                    show(lock_path.as_os_str().as_bytes()),
                    show(resource.as_os_str().as_bytes())
                ),
            );
            return;
        }
        ensure!(
            c,
            resource_path == resource,
            "resource_path() = {} for resource {}",
            show(resource_path.as_os_str().as_bytes()),
            show(resource.as_os_str().as_bytes())
        );
        for d in &created {
            current.insert(d.clone(), None);
        }
        current.insert(rel_lock.clone(), Some(Vec::new()));
        let got = infra!(c, snapshot(&root), "snapshot");
        ensure!(
            c,
            got == current,
            "tree while the lock is held: {} expected {}",
            show_tree(&got),
            show_tree(&current)
        );
        // ---- a second holder must be refused, without side effects
        if let Some((kind2, backoff)) = nc.second {
            let mode = if backoff { Fail::AfterDurationWithBackoff(Duration::from_millis(2)) } else { Fail::Immediately };
            match acquire(kind2, &resource, mode, boundary.clone()) {
                Ok(_second) => {
                    c.fail(format!("a second {kind2:?} lock on {} was granted while the first is held", show(&rel_res)));
                    return;
                }
                Err(AcquireError::PermanentlyLocked { resource_path, .. }) => {
                    ensure!(c, resource_path == resource, "PermanentlyLocked names {resource_path:?}");
                }
                Err(e) => {
                    c.fail(format!("second acquisition failed with {e:?} instead of PermanentlyLocked"));
                    return;
                }
            }
            let got = infra!(c, snapshot(&root), "snapshot");
            ensure!(c, got == current, "tree after a refused acquisition: {} expected {}", show_tree(&got), show_tree(&current));
        }
        // ---- writes
        let mut written = Vec::new();
        if let Held::F(f) = &mut held {
            for w in &nc.writes {
                if let Err(e) = f.write_all(w) {
                    c.fail(format!("write to lock file failed: {e}"));
                    return;
                }
                written.extend_from_slice(w);
            }
            current.insert(rel_lock.clone(), Some(written.clone()));
            let got = infra!(c, snapshot(&root), "snapshot");
            ensure!(c, got == current, "tree after writing: {} expected {}", show_tree(&got), show_tree(&current));
        }
        // ---- end
        let committed = match (held, nc.end) {
            (Held::F(f), End::Commit) => match f.commit() {
                Ok((path, _file)) => {
                    ensure!(c, path == resource, "commit() returned {path:?}");
                    true
                }
                Err(e) => {
                    c.fail(format!("commit failed: {e}"));
                    return;
                }
            },
            (Held::F(f), End::CloseCommit | End::CloseDrop) => {
                let m = match f.close() {
                    Ok(m) => m,
                    Err(e) => {
                        c.fail(format!("close failed: {e}"));
                        return;
                    }
                };
                ensure!(c, m.lock_path() == lock && m.resource_path() == resource, "paths changed by close()");
                let got = infra!(c, snapshot(&root), "snapshot");
                ensure!(c, got == current, "tree after close(): {} expected {}", show_tree(&got), show_tree(&current));
                if nc.end == End::CloseCommit {
                    match m.commit() {
                        Ok(path) => {
                            ensure!(c, path == resource, "commit() returned {path:?}");
                            true
                        }
                        Err(e) => {
                            c.fail(format!("commit of closed lock failed: {e}"));
                            return;
                        }
                    }
                } else {
                    drop(m);
                    false
                }
            }
            (Held::M(m), End::RefusedCommitThenDrop) => {
                match m.commit() {
                    Ok(path) => {
                        c.fail(format!("a marker that was never a file committed to {path:?}"));
                        return;
                    }
                    Err(err) => {
                        let got = infra!(c, snapshot(&root), "snapshot");
                        ensure!(c, got == current, "tree after refused commit: {} expected {}", show_tree(&got), show_tree(&current));
                        ensure!(c, err.instance.lock_path() == lock, "refused commit changed the marker");
                        drop(err.instance);
                    }
                }
                false
            }
            (Held::F(f), _) => {
                drop(f);
                false
            }
            (Held::M(m), _) => {
                drop(m);
                false
            }
        };
        current.remove(&rel_lock);
        if committed {
            current.insert(rel_res.clone(), Some(written.clone()));
            let got = infra!(c, snapshot(&root), "snapshot");
            ensure!(
                c,
                got == current,
                "tree after commit: {} expected {} (the resource, and only it, must have been replaced)",
                show_tree(&got),
                show_tree(&current)
            );
            optional.clear();
            created.clear();
        } else {
            if nc.boundary {
                for d in &created {
                    current.remove(d);
                }
            }
            let got = infra!(c, snapshot(&root), "snapshot");
            let (g, w) = (without(&got, &optional), without(&current, &optional));
            ensure!(
                c,
                g == w,
                "tree after dropping the uncommitted lock: {} expected {} (resource untouched, lock file and directories created for it removed, nothing else)",
                show_tree(&got),
                show_tree(&current)
            );
            if !last_round {
                // directories which the rollback was allowed to remove and did remove have to be re-created by the next round
                for d in &optional {
                    if !got.contains_key(d) {
                        current.remove(d);
                        if !created.contains(d) {
                            created.push(d.clone());
                        }
                    }
                }
                created.sort();
                optional.retain(|d| got.contains_key(d));
            }
        }
    }
}

// ------------------------------------------------------------------------------------------------
// interleavings: every order of the API calls of 2..3 logical holders

#[derive(Debug, Clone, Copy, Hash, PartialEq, Eq)]
enum Step {
    Acquire(Kind),
    Write,
    Close,
    Commit,
    Drop,
}

#[derive(Debug, Clone, Hash)]
struct Script {
    res: usize,
    steps: Vec<Step>,
}

fn gen_script(t: &mut Tape, nres: usize, max_steps: usize) -> Script {
    let res = t.below(nres);
    let kind = if t.chance(190) { Kind::File } else { Kind::Marker };
    let mut steps = vec![Step::Acquire(kind)];
    match kind {
        Kind::Marker => steps.push(Step::Drop),
        Kind::File => {
            let want = t.range(2, max_steps);
            if want >= 3 {
                steps.push(Step::Write);
            }
            if want >= 4 {
                steps.push(Step::Close);
            }
            steps.push(if t.chance(150) { Step::Commit } else { Step::Drop });
        }
    }
    Script { res, steps }
}

fn interleavings(lens: &[usize]) -> Vec<Vec<usize>> {
    fn rec(left: &mut Vec<usize>, cur: &mut Vec<usize>, out: &mut Vec<Vec<usize>>) {
        if left.iter().all(|&l| l == 0) {
            out.push(cur.clone());
            return;
        }
        for a in 0..left.len() {
            if left[a] > 0 {
                left[a] -= 1;
                cur.push(a);
                rec(left, cur, out);
                cur.pop();
                left[a] += 1;
            }
        }
    }
    let mut out = Vec::new();
    rec(&mut lens.to_vec(), &mut Vec::new(), &mut out);
    out
}

enum Slot {
    NotStarted,
    Holding(Held, Vec<u8>),
    Refused,
    Done,
}

fn run_interleaving(
    scripts: &[Script],
    order: &[usize],
    nested: bool,
    initial: bool,
    names: &[Vec<u8>],
    c: &mut Case,
) -> Result<(), ()> {
    let Ok(scratch) = Scratch::new("c22i") else {
        c.infra("scratch");
        return Err(());
    };
    let bnd = scratch.join("bnd");
    let dir = if nested { bnd.join("d1").join("d2") } else { bnd.clone() };
    if std::fs::create_dir_all(if nested { &bnd } else { &dir }).is_err() {
        c.infra("mkdir");
        return Err(());
    }
    let res_path = |r: usize| dir.join(p(&names[r]));
    let lock_path = |r: usize| {
        let mut b = res_path(r).into_os_string();
        b.push(".lock");
        PathBuf::from(b)
    };
    let mut content: Vec<Option<Vec<u8>>> = vec![None; names.len()];
    if initial {
        if std::fs::create_dir_all(&dir).is_err() {
            c.infra("mkdir");
            return Err(());
        }
        for r in 0..names.len() {
            content[r] = Some(b"initial".to_vec());
            if std::fs::write(res_path(r), b"initial").is_err() {
                c.infra("write");
                return Err(());
            }
        }
    }
    let mut holder: Vec<Option<usize>> = vec![None; names.len()];
    let mut slots: Vec<Slot> = scripts.iter().map(|_| Slot::NotStarted).collect();
    let mut pc = vec![0usize; scripts.len()];
    let describe = |upto: usize| -> String {
        let mut s = String::new();
        let mut pcs = vec![0usize; scripts.len()];
        for &a in &order[..=upto] {
            s.push_str(&format!(" {}:{:?}(r{})", a, scripts[a].steps[pcs[a]], scripts[a].res));
            pcs[a] += 1;
        }
        s
    };
    macro_rules! bail {
        ($i:expr, $($arg:tt)*) => {{
            c.fail(format!("{} — after schedule{}", format!($($arg)*), describe($i)));
            return Err(());
        }};
    }
    for (i, &a) in order.iter().enumerate() {
        let step = scripts[a].steps[pc[a]];
        pc[a] += 1;
        let r = scripts[a].res;
        let slot = std::mem::replace(&mut slots[a], Slot::Done);
        slots[a] = match (slot, step) {
            (Slot::NotStarted, Step::Acquire(kind)) => {
                match acquire(kind, &res_path(r), Fail::Immediately, Some(bnd.clone())) {
                    Ok(h) => {
                        if let Some(other) = holder[r] {
                            bail!(i, "holder {a} was granted the lock on resource {r} while holder {other} holds it");
                        }
                        holder[r] = Some(a);
                        Slot::Holding(h, Vec::new())
                    }
                    Err(AcquireError::PermanentlyLocked { .. }) => {
                        if holder[r].is_none() {
                            bail!(i, "holder {a} was refused the lock on resource {r} although nobody holds it");
                        }
                        Slot::Refused
                    }
                    Err(e) => bail!(i, "acquisition by {a} failed with {e:?}"),
                }
            }
            (Slot::Refused, _) => Slot::Refused,
            (Slot::Holding(mut h, mut w), Step::Write) => {
                if let Held::F(f) = &mut h {
                    let tok = format!("token-of-{a}");
                    if let Err(e) = f.write_all(tok.as_bytes()) {
                        bail!(i, "write by holder {a} failed: {e}");
                    }
                    w.extend_from_slice(tok.as_bytes());
                }
                Slot::Holding(h, w)
            }
            (Slot::Holding(h, w), Step::Close) => match h {
                Held::F(f) => match f.close() {
                    Ok(m) => Slot::Holding(Held::M(m), w),
                    Err(e) => bail!(i, "close by holder {a} failed: {e}"),
                },
                m => Slot::Holding(m, w),
            },
            (Slot::Holding(h, w), Step::Commit) => {
                let res = match h {
                    Held::F(f) => f.commit().map(|(p, _)| p).map_err(|e| e.error),
                    Held::M(m) => m.commit().map_err(|e| e.error),
                };
                match res {
                    Ok(path) => {
                        if path != res_path(r) {
                            bail!(i, "commit by {a} returned {path:?}");
                        }
                    }
                    Err(e) => bail!(i, "commit by holder {a} failed: {e}"),
                }
                holder[r] = None;
                content[r] = Some(w);
                Slot::Done
            }
            (Slot::Holding(h, _), Step::Drop) => {
                drop(h);
                holder[r] = None;
                Slot::Done
            }
            (Slot::Done, _) | (Slot::NotStarted, _) | (Slot::Holding(..), Step::Acquire(_)) => {
                c.infra("malformed script");
                return Err(());
            }
        };
        // disk must agree with the model after every call
        for r in 0..names.len() {
            let lock_exists = lock_path(r).exists();
            if lock_exists != holder[r].is_some() {
                bail!(i, "lock file of resource {r} exists: {lock_exists}, model holder: {:?}", holder[r]);
            }
            let on_disk = std::fs::read(res_path(r)).ok();
            if on_disk != content[r] {
                bail!(
                    i,
                    "resource {r} is {:?}, expected {:?}",
                    on_disk.as_deref().map(show),
                    content[r].as_deref().map(show)
                );
            }
        }
        if nested {
            let any_file = holder.iter().any(|h| h.is_some()) || content.iter().any(|c| c.is_some());
            let exists = dir.exists();
            if any_file && !exists {
                bail!(i, "the directory holding locks/resources vanished");
            }
            if !any_file && (exists || bnd.join("d1").exists()) {
                bail!(i, "directories created for the lock were not removed after the last rollback (d1 exists: {}, d1/d2 exists: {exists})", bnd.join("d1").exists());
            }
            if !bnd.exists() {
                bail!(i, "the boundary directory was removed");
            }
        }
    }
    Ok(())
}

// ------------------------------------------------------------------------------------------------
// races

#[derive(Debug, Clone, Hash)]
struct Round {
    res: usize,
    kind: Kind,
    backoff_ms: u64,
    perturb: u8,
    end: End,
}

#[derive(Debug, Clone, Hash)]
struct RacePlan {
    nested: bool,
    names: Vec<Vec<u8>>,
    initial: bool,
    /// procs[p][t] = rounds of thread t of process p (thread mode: one "process")
    procs: Vec<Vec<Vec<Round>>>,
}

/// names whose lock name is derived wrongly (known finding: non-UTF-8 extension) would make every race fail for that
/// reason; they get an ASCII extension appended (the non-UTF-8 bytes stay in the name)
fn race_name(t: &mut Tape) -> Vec<u8> {
    let mut n = gen_name(t);
    if let (_, Some(ext)) = split_ext(&n) {
        if std::str::from_utf8(ext).is_err() || dotdot_class(&n) {
            n.extend_from_slice(b".x");
        }
    }
    n
}

fn gen_race(t: &mut Tape, processes: bool) -> RacePlan {
    let nested = t.chance(140);
    let mut names = vec![race_name(t)];
    if t.chance(100) {
        let mut other = race_name(t);
        let locked = |n: &[u8]| {
            let mut l = n.to_vec();
            l.extend_from_slice(b".lock");
            l
        };
        if other == names[0] || locked(&names[0]) == other || locked(&other) == names[0] {
            other.extend_from_slice(b"2");
        }
        names.push(other);
    }
    let initial = t.bool();
    let nprocs = if processes { t.range(2, 4) } else { 1 };
    let mut procs = Vec::new();
    for _ in 0..nprocs {
        let nthreads = if processes { t.range(1, 2) } else { t.range(2, 8) };
        let mut threads = Vec::new();
        for _ in 0..nthreads {
            let nrounds = t.range(2, 6);
            let mut rounds = Vec::new();
            for _ in 0..nrounds {
                let kind = if t.chance(200) { Kind::File } else { Kind::Marker };
                rounds.push(Round {
                    res: t.below(names.len()),
                    kind,
                    backoff_ms: *t.pick(&[0u64, 0, 3, 10, 40]),
                    perturb: t.u8(),
                    end: match kind {
                        Kind::File => *t.pick(&[End::Commit, End::Commit, End::CloseCommit, End::Drop, End::CloseDrop]),
                        Kind::Marker => End::Drop,
                    },
                });
            }
            threads.push(rounds);
        }
        procs.push(threads);
    }
    RacePlan {
        nested,
        names,
        initial,
        procs,
    }
}

fn perturb(b: u8) {
    match b {
        0..=95 => {}
        96..=159 => std::thread::yield_now(),
        160..=223 => {
            for _ in 0..(b as u32 - 159) * 50 {
                std::hint::spin_loop();
            }
        }
        _ => std::thread::sleep(Duration::from_micros((b as u64 - 223) * 20)),
    }
}

fn token(pi: usize, ti: usize, k: usize, b: u8) -> Vec<u8> {
    let len = b as usize * 9;
    let mut v = format!("tok {pi}.{ti} {k} {len}\n").into_bytes();
    v.extend(std::iter::repeat(b'x').take(len));
    v
}

/// a complete token (or the initial content)?
fn well_formed(content: &[u8]) -> bool {
    if content == b"initial" {
        return true;
    }
    let Some(nl) = content.iter().position(|&b| b == b'\n') else { return false };
    let Ok(header) = std::str::from_utf8(&content[..nl]) else { return false };
    let f: Vec<&str> = header.split(' ').collect();
    if f.len() != 4 || f[0] != "tok" {
        return false;
    }
    let Ok(len) = f[3].parse::<usize>() else { return false };
    content.len() == nl + 1 + len && content[nl + 1..].iter().all(|&b| b == b'x')
}

struct RaceDirs {
    bnd: PathBuf,
    dir: PathBuf,
    journal: PathBuf,
}
impl RaceDirs {
    fn new(root: &Path, nested: bool) -> RaceDirs {
        let bnd = root.join("bnd");
        RaceDirs {
            dir: if nested { bnd.join("d1").join("d2") } else { bnd.clone() },
            bnd,
            journal: root.join("journal"),
        }
    }
    fn res(&self, name: &[u8]) -> PathBuf {
        self.dir.join(p(name))
    }
    fn lock(&self, name: &[u8]) -> PathBuf {
        let mut b = self.res(name).into_os_string();
        b.push(".lock");
        PathBuf::from(b)
    }
}

/// One racing thread. Everything it observes goes to the O_APPEND journal (one `write` per line).
fn race_actor(plan: &RacePlan, dirs: &RaceDirs, pi: usize, ti: usize) {
    let mut j = match std::fs::OpenOptions::new().append(true).open(&dirs.journal) {
        Ok(f) => f,
        Err(_) => return,
    };
    let mut log = |line: String| {
        let _ = j.write_all(line.as_bytes());
    };
    for (k, round) in plan.procs[pi][ti].iter().enumerate() {
        let name = &plan.names[round.res];
        let mode = if round.backoff_ms == 0 {
            Fail::Immediately
        } else {
            Fail::AfterDurationWithBackoff(Duration::from_millis(round.backoff_ms))
        };
        let r = round.res;
        match acquire(round.kind, &dirs.res(name), mode, Some(dirs.bnd.clone())) {
            Err(AcquireError::PermanentlyLocked { .. }) => log(format!("L {r} {pi}.{ti}\n")),
            Err(AcquireError::Io(e)) => log(format!("I {r} {pi}.{ti} {:?}\n", e.kind())),
            Ok(mut held) => {
                log(format!("E {r} {pi}.{ti}\n"));
                if !dirs.lock(name).exists() {
                    log(format!("F {pi}.{ti} holds the lock on resource {r} but its lock file does not exist\n"));
                }
                perturb(round.perturb);
                if let Held::F(f) = &mut held {
                    let tok = token(pi, ti, k, round.perturb);
                    // two writes, so that a reader could see half a token if the update was not atomic
                    let half = tok.len() / 2;
                    if f.write_all(&tok[..half]).is_err() || {
                        perturb(round.perturb.rotate_left(3));
                        f.write_all(&tok[half..]).is_err()
                    } {
                        log(format!("F {pi}.{ti} cannot write to its lock file\n"));
                    }
                }
                let commits = matches!(round.end, End::Commit | End::CloseCommit);
                if commits {
                    log(format!("C {r} {pi}.{ti} {k}\n"));
                }
                perturb(round.perturb.rotate_left(5));
                log(format!("X {r} {pi}.{ti}\n"));
                match (held, round.end) {
                    (Held::F(f), End::Commit) => {
                        if let Err(e) = f.commit() {
                            log(format!("F {pi}.{ti} commit failed: {}\n", e.error));
                        }
                    }
                    (Held::F(f), End::CloseCommit) => match f.close() {
                        Ok(m) => {
                            if let Err(e) = m.commit() {
                                log(format!("F {pi}.{ti} commit of closed lock failed: {}\n", e.error));
                            }
                        }
                        Err(e) => log(format!("F {pi}.{ti} close failed: {e}\n")),
                    },
                    (Held::F(f), End::CloseDrop) => match f.close() {
                        Ok(m) => drop(m),
                        Err(e) => log(format!("F {pi}.{ti} close failed: {e}\n")),
                    },
                    (h, _) => drop(h),
                }
            }
        }
        perturb(round.perturb.rotate_left(1));
    }
}

fn run_process_threads(plan: &RacePlan, dirs: &RaceDirs, pi: usize) {
    std::thread::scope(|s| {
        for ti in 0..plan.procs[pi].len() {
            s.spawn(move || {
                let r = std::panic::catch_unwind(std::panic::AssertUnwindSafe(|| race_actor(plan, dirs, pi, ti)));
                if r.is_err() {
                    if let Ok(mut j) = std::fs::OpenOptions::new().append(true).open(&dirs.journal) {
                        let _ = j.write_all(format!("F {pi}.{ti} panicked\n").as_bytes());
                    }
                }
            });
        }
    });
}

fn worker_main(root: &str, tape_hex: &str, pi: &str) -> ! {
    let tape = unhex(tape_hex).unwrap_or_default();
    let mut t = Tape::new(&tape);
    let plan = gen_race(&mut t, true);
    let pi: usize = pi.parse().unwrap_or(0);
    let dirs = RaceDirs::new(Path::new(root), plan.nested);
    // start barrier: the parent creates `go` once all workers are spawned
    let go = Path::new(root).join("go");
    for _ in 0..200_000 {
        if go.exists() {
            break;
        }
        std::thread::sleep(Duration::from_micros(100));
    }
    if pi < plan.procs.len() {
        run_process_threads(&plan, &dirs, pi);
    }
    std::process::exit(0);
}

fn run_race(plan: &RacePlan, tape: &[u8], processes: bool, c: &mut Case) {
    let scratch = infra!(c, Scratch::new("c22r"), "scratch");
    let root = scratch.path.clone();
    let dirs = RaceDirs::new(&root, plan.nested);
    infra!(c, std::fs::create_dir_all(&dirs.bnd), "mkdir");
    infra!(c, std::fs::write(&dirs.journal, b""), "journal");
    if plan.initial {
        infra!(c, std::fs::create_dir_all(&dirs.dir), "mkdir");
        for n in &plan.names {
            infra!(c, std::fs::write(dirs.res(n), b"initial"), "write");
        }
    }
    // concurrent reader: the resource must always be absent, the initial content or one complete token
    let stop = std::sync::atomic::AtomicBool::new(false);
    let torn: std::sync::Mutex<Option<String>> = std::sync::Mutex::new(None);
    let mut worker_trouble = None;
    std::thread::scope(|s| {
        s.spawn(|| {
            let mut reads = 0u64;
            while !stop.load(std::sync::atomic::Ordering::SeqCst) || reads == 0 {
                for (r, n) in plan.names.iter().enumerate() {
                    if let Ok(content) = std::fs::read(dirs.res(n)) {
                        if !well_formed(&content) {
                            torn.lock().unwrap().get_or_insert_with(|| {
                                format!("a reader saw resource {r} with partial content {:?} ({} bytes)", show(&content[..content.len().min(40)]), content.len())
                            });
                        }
                    }
                }
                reads += 1;
                std::thread::yield_now();
            }
        });
        if processes {
            let exe = match std::env::current_exe() {
                Ok(e) => e,
                Err(e) => {
                    worker_trouble = Some(format!("current_exe: {e}"));
                    stop.store(true, std::sync::atomic::Ordering::SeqCst);
                    return;
                }
            };
            let mut children = Vec::new();
            for pi in 0..plan.procs.len() {
                let child = std::process::Command::new(&exe)
                    .arg("--c22-worker")
                    .arg(&root)
                    .arg(hex(tape))
                    .arg(pi.to_string())
                    .stdin(std::process::Stdio::null())
                    .stdout(std::process::Stdio::null())
                    .stderr(std::process::Stdio::null())
                    .spawn();
                match child {
                    Ok(ch) => children.push(ch),
                    Err(e) => worker_trouble = Some(format!("spawn worker: {e}")),
                }
            }
            let _ = std::fs::write(root.join("go"), b"");
            for mut ch in children {
                match ch.wait() {
                    Ok(st) if st.success() => {}
                    Ok(st) => worker_trouble = Some(format!("worker exited with {st}")),
                    Err(e) => worker_trouble = Some(format!("wait: {e}")),
                }
            }
        } else {
            run_process_threads(plan, &dirs, 0);
        }
        stop.store(true, std::sync::atomic::Ordering::SeqCst);
    });
    if let Some(t) = worker_trouble {
        c.infra(t);
        return;
    }
    if let Some(t) = torn.into_inner().unwrap() {
        c.fail(t);
        return;
    }
    // ---- the journal
    let journal = infra!(c, std::fs::read_to_string(&dirs.journal), "read journal");
    let mut holder: Vec<Option<String>> = vec![None; plan.names.len()];
    let mut last_commit: Vec<Option<(String, usize)>> = vec![None; plan.names.len()];
    let mut acquisitions = 0usize;
    let mut refused = 0usize;
    let mut io_errors = 0usize;
    let lines: Vec<&str> = journal.lines().collect();
    let around = |i: usize| lines[i.saturating_sub(4)..(i + 2).min(lines.len())].join(" | ");
    for (i, line) in lines.iter().enumerate() {
        let f: Vec<&str> = line.splitn(4, ' ').collect();
        if f[0] == "F" {
            c.fail(format!("{} (journal: {})", &line[2..], around(i)));
            return;
        }
        if f.len() < 3 {
            c.infra(format!("unparsable journal line {line:?}"));
            return;
        }
        let r: usize = f[1].parse().unwrap_or(0);
        let who = f[2].to_string();
        match f[0] {
            "E" => {
                ensure!(
                    c,
                    holder[r].is_none(),
                    "two holders inside: {who} acquired the lock of resource {r} while {} holds it (journal: {})",
                    holder[r].clone().unwrap_or_default(),
                    around(i)
                );
                holder[r] = Some(who);
                acquisitions += 1;
            }
            "C" | "X" => {
                ensure!(
                    c,
                    holder[r].as_deref() == Some(who.as_str()),
                    "{who} is inside the critical section of resource {r} but the journal has {:?} as holder (journal: {})",
                    holder[r],
                    around(i)
                );
                if f[0] == "C" {
                    last_commit[r] = Some((who, f.get(3).and_then(|k| k.parse().ok()).unwrap_or(0)));
                } else {
                    holder[r] = None;
                }
            }
            "L" => refused += 1,
            "I" => io_errors += 1,
            _ => {
                c.infra(format!("unparsable journal line {line:?}"));
                return;
            }
        }
    }
    let total_rounds: usize = plan.procs.iter().flatten().map(|r| r.len()).sum();
    ensure!(
        c,
        acquisitions + refused + io_errors == total_rounds && holder.iter().all(|h| h.is_none()),
        "journal incomplete: {acquisitions} acquisitions + {refused} refusals + {io_errors} io errors for {total_rounds} rounds; holders left {holder:?}"
    );
    c.label_if(acquisitions >= 2, "race:>=2-acquisitions");
    c.label_if(refused > 0, "race:contention-observed");
    c.label_if(io_errors > 0, "race:io-error-under-directory-race");
    c.nontrivial(acquisitions >= 2);
    // ---- final state
    for (r, n) in plan.names.iter().enumerate() {
        ensure!(c, !dirs.lock(n).exists(), "lock file of resource {r} left behind after all holders are gone");
        let got = std::fs::read(dirs.res(n)).ok();
        let want = match &last_commit[r] {
            Some((who, k)) => {
                let (pi, ti) = who.split_once('.').unwrap_or(("0", "0"));
                let (pi, ti): (usize, usize) = (pi.parse().unwrap_or(0), ti.parse().unwrap_or(0));
                Some(token(pi, ti, *k, plan.procs[pi][ti][*k].perturb))
            }
            None => plan.initial.then(|| b"initial".to_vec()),
        };
        ensure!(
            c,
            got == want,
            "resource {r} ends as {:?}, the last committer per journal is {:?}",
            got.as_deref().map(|g| show(&g[..g.len().min(30)])),
            last_commit[r]
        );
    }
    ensure!(c, dirs.bnd.is_dir(), "boundary directory removed");
    if plan.nested && !plan.initial && last_commit.iter().all(|l| l.is_none()) && io_errors == 0 {
        ensure!(
            c,
            !dirs.bnd.join("d1").exists(),
            "directories created for the locks remain after every lock was rolled back"
        );
    }
}

pub fn main() {
    let args: Vec<String> = std::env::args().collect();
    if args.len() == 5 && args[1] == "--c22-worker" {
        worker_main(&args[2], &args[3], &args[4]);
    }
    let mut ck = Check::new("C22", "exploration");
    ck.rule("naming: a file name built from ASCII, multi-byte UTF-8 and non-UTF-8 pieces in the shapes stem / stem.ext / stem.ext.ext / .stem / .stem.ext / stem. / stem.lock / stem.ext.lock / stem.. / ..stem, 0..3 nested directories below a boundary (existing with or without siblings, or to be created), resource present or absent, File or Marker, writes, optional refused second acquisition, commit / drop / close+commit / close+drop / refused marker commit, optional second round; non-trivial: extension non-UTF-8 or empty, non-UTF-8 stem, name containing '.lock', or directories to create. interleavings: 2..3 scripts over 1..2 resources, all interleavings enumerated; non-trivial: >= 2 scripts on one resource. races: non-trivial with >= 2 successful acquisitions in sequence. Distinct by hash of the decoded case.");
    ck.assume("pre-existing EMPTY directories between the resource and the boundary may or may not survive a rollback (AutoRemove::TempfileAndEmptyParentDirectoriesUntil documents that empty containing directories are removed); everything else in the tree is compared exactly");
    ck.assume("races: an acquisition may fail with an io error when another holder's rollback removes the directory underneath it (not an exclusivity violation); schedules are sampled, not enumerated; `interleavings` enumerates orders of whole API calls only");

    ck.sub("naming", SubCfg::new(6000, 150_000).max_len(128), |t, c| {
        let nc = gen_naming(t);
        let (stem, ext) = split_ext(&nc.name);
        let non_utf8_ext = ext.map_or(false, |e| std::str::from_utf8(e).is_err());
        c.label(match ext {
            None => "ext:none",
            Some(e) if e.is_empty() => "ext:empty",
            Some(_) if non_utf8_ext => "ext:non-utf8",
            Some(e) if e.is_ascii() => "ext:ascii",
            Some(_) => "ext:utf8-multibyte",
        });
        let stem_raw = std::str::from_utf8(stem).is_err();
        c.label_if(stem_raw, "stem:non-utf8");
        c.label_if(nc.name.starts_with(b"."), "leading-dot");
        c.label_if(dotdot_class(&nc.name), "leading-dotdot-no-ext");
        let has_lock = nc.name.windows(5).any(|w| w == b".lock");
        c.label_if(has_lock, "name-contains-.lock");
        let to_create = nc.dirs.iter().filter(|d| !d.exists).count();
        c.label_if(to_create > 0, "creates-directories");
        c.label_if(nc.boundary, "with-boundary");
        c.label(match nc.end {
            End::Commit => "end:commit",
            End::Drop => "end:drop",
            End::CloseCommit => "end:close+commit",
            End::CloseDrop => "end:close+drop",
            End::RefusedCommitThenDrop => "end:marker-commit-refused",
        });
        c.label_if(nc.second.is_some(), "second-acquisition-refused");
        c.key(&nc);
        c.nontrivial(non_utf8_ext || ext == Some(b"") || stem_raw || has_lock || to_create > 0);
        c.sample_with(|| format!("name={} {nc:?}", show(&nc.name)));
        run_naming(&nc, c);
    });

    ck.sub("interleavings", SubCfg::new(1200, 30_000).max_len(64), |t, c| {
        let nested = t.chance(150);
        let initial = !nested && t.bool();
        let mut names = vec![race_name(t)];
        if t.chance(90) {
            names.push(b"other".to_vec());
            if names[0] == b"other" || names[0] == b"other.lock" {
                names[0] = b"res".to_vec();
            }
        }
        let nactors = t.range(2, 3);
        let max_steps = if nactors == 2 { 4 } else { 3 };
        let scripts: Vec<Script> = (0..nactors).map(|_| gen_script(t, names.len(), max_steps)).collect();
        let lens: Vec<usize> = scripts.iter().map(|s| s.steps.len()).collect();
        let orders = interleavings(&lens);
        c.key(&(nested, initial, &names, &scripts));
        let same = scripts.iter().any(|a| scripts.iter().filter(|b| b.res == a.res).count() >= 2);
        c.nontrivial(same);
        c.label(if nactors == 2 { "2-holders" } else { "3-holders" });
        c.label_if(names.len() == 2, "two-resources-one-directory");
        c.label_if(nested, "nested-with-cleanup");
        c.label_if(orders.len() >= 100, ">=100-interleavings");
        c.sample_with(|| format!("nested={nested} names={:?} scripts={scripts:?} interleavings={}", names.iter().map(|n| show(n)).collect::<Vec<_>>(), orders.len()));
        for order in &orders {
            if run_interleaving(&scripts, order, nested, initial, &names, c).is_err() {
                return;
            }
        }
    });

    ck.sub("race-threads", SubCfg::new(1200, 30_000).max_len(200).threads(4).max_shrink(40), |t, c| {
        let plan = gen_race(t, false);
        c.key(&plan);
        c.label_if(plan.nested, "nested-with-cleanup");
        c.label_if(plan.names.len() == 2, "two-resources-one-directory");
        c.sample_with(|| format!("{plan:?}"));
        run_race(&plan, &[], false, c);
    });

    ck.sub("race-procs", SubCfg::new(240, 6_000).max_len(120).threads(3).max_shrink(20), |t, c| {
        // the workers decode the same plan from the same tape
        let mut t2 = Tape::new(t.rest());
        let plan = gen_race(&mut t2, true);
        let tape = t2.consumed().to_vec();
        c.key(&plan);
        c.label_if(plan.nested, "nested-with-cleanup");
        c.label_if(plan.names.len() == 2, "two-resources-one-directory");
        c.label(match plan.procs.len() {
            2 => "2-processes",
            3 => "3-processes",
            _ => "4-processes",
        });
        c.sample_with(|| format!("{plan:?}"));
        run_race(&plan, &tape, true, c);
    });

    ck.finish();
}
