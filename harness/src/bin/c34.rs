//! C34 — no URL can inject arguments into the programs spawned by the ssh and local transports; the repository path
//! reaches the remote shell as exactly one word with its bytes unchanged.
//!
//! Black box: the ssh program is a generated shell script ("fake ssh") that records its argv, parses options the way
//! an ssh client does (everything starting with `-` in front of the destination is an option), joins the words after
//! the destination with spaces and hands that command line to `/bin/sh -c` in a "remote" environment whose `PATH`
//! holds a `git-upload-pack`/`git-receive-pack` that records its own argv.
use std::ffi::OsString;
use std::os::unix::ffi::OsStrExt;
use std::os::unix::fs::PermissionsExt;
use std::path::{Path, PathBuf};

use bstr::{BString, ByteSlice};
use gix_transport::client::ssh::ProgramKind;
use gix_transport::client::Transport;
use gix_transport::{Protocol, Service};
use vp::*;

// ------------------------------------------------------------------------------------------------------------------
// fake programs

fn write_exe(path: &Path, content: &str) -> std::io::Result<()> {
    std::fs::write(path, content)?;
    std::fs::set_permissions(path, std::fs::Permissions::from_mode(0o755))
}

const RECORDER: &str = "#!/bin/sh\nprintf '%s\\0' \"$#\" \"$@\" >> \"$FAKE_OUT\"\n";

/// The fake ssh program. It is written ONCE per process (before any case runs) and reached through per-case symlinks
/// `<world>/<bindir>/<name>`: writing an executable per case would race with forks of other threads (ETXTBSY).
/// It derives its world directory from `$0`. Layout of a world: `<bindir>/<name>` (symlink), `g_status` (exit status of
/// the `-G` probe), `rcwd/` (remote working directory, must stay empty), `rhome/`, and the records `inv.N` (argv of
/// invocation N), `remote.N` (argv records of the remote git service), `remote-stderr.N`.
fn fake_ssh_script(rbin: &Path) -> String {
    format!(
        r#"#!/bin/sh
d=${{0%/*}}
d=${{d%/*}}
n=0
while [ -e "$d/inv.$n" ]; do n=$((n+1)); done
printf '%s\0' "$@" > "$d/inv.$n"
[ $# -gt 0 ] || : > "$d/inv.$n"
check=0
while [ $# -gt 0 ]; do
  case "$1" in
    -G) check=1; shift;;
    -o|-P) shift; [ $# -gt 0 ] && shift;;
    -*) shift;;
    *) break;;
  esac
done
[ $# -gt 0 ] || exit 255
shift
if [ $check = 1 ]; then read -r st < "$d/g_status"; exit "$st"; fi
[ $# -gt 0 ] || exit 0
remote="$*"
cd "$d/rcwd" || exit 97
exec env -i PATH="{rbin}:/usr/bin:/bin" HOME="$d/rhome" FAKE_OUT="$d/remote.$n" /bin/sh -c "$remote" 2>"$d/remote-stderr.$n"
"#,
        rbin = rbin.display()
    )
}

fn make_fake_ssh(fake: &Path, d: &Path, bindir: &str, name: &str, g_status: u8) -> std::io::Result<PathBuf> {
    for sub in [bindir, "rcwd", "rhome"] {
        std::fs::create_dir_all(d.join(sub))?;
    }
    std::fs::write(d.join("g_status"), format!("{g_status}\n"))?;
    let p = d.join(bindir).join(name);
    std::os::unix::fs::symlink(fake, &p)?;
    Ok(p)
}

fn read_nul_list(p: &Path) -> Option<Vec<Vec<u8>>> {
    let data = std::fs::read(p).ok()?;
    if data.is_empty() {
        return Some(vec![]);
    }
    let mut v: Vec<Vec<u8>> = data.split(|b| *b == 0).map(|s| s.to_vec()).collect();
    v.pop(); // data ends with NUL
    Some(v)
}

/// Parse `argc NUL arg NUL ...` records written by the recorder.
fn parse_records(words: &[Vec<u8>]) -> Option<Vec<Vec<Vec<u8>>>> {
    let mut out = Vec::new();
    let mut i = 0;
    while i < words.len() {
        let n: usize = std::str::from_utf8(&words[i]).ok()?.parse().ok()?;
        if i + 1 + n > words.len() {
            return None;
        }
        out.push(words[i + 1..i + 1 + n].to_vec());
        i += 1 + n;
    }
    Some(out)
}

// ------------------------------------------------------------------------------------------------------------------
// generator

const PWN: &str = "touch @D@/pwned";

fn meta_token(t: &mut Tape) -> String {
    let templ = *t.pick(&[
        "$(@P@)", "`@P@`", ";@P@;", "|@P@", "&@P@&", "&&@P@", "||@P@", "\n@P@\n", "';@P@;'", "\";@P@;\"", "'$(@P@)'", "'`@P@`'", "\\';@P@;\\'", "'\\'';@P@;'\\''",
        "$IFS", "${IFS}", "$HOME", "$0", "$@", "*", "?", "[a-z]*", "{a,b}", "~", "!", "!!", "!$", "\\", "\\\\", "'", "''", "\"", "#", " #x", "<x", ">x", ">@D@/pwned",
        "(x)", "a b", "a\tb", "a\nb", " ", "\n", "$'\\n'", "%", "^", "://", "x://y",
    ]);
    templ.replace("@P@", PWN)
}

fn plain_token(t: &mut Tape) -> String {
    String::from_utf8(t.string_of(b"abcxyzR019._", 1, 6)).unwrap()
}

fn dash_token(t: &mut Tape) -> String {
    t.pick(&[
        "-oProxyCommand=touch${IFS}@D@/pwned",
        "-oProxyCommand=touch @D@/pwned",
        "-oProxyCommand=x",
        "-F/dev/null",
        "-",
        "--",
        "-G",
        "-l",
        "-p22",
        "-P",
        "-batch",
        "-h",
        "--upload-pack=touch @D@/pwned",
        "--exec=@D@/x",
        "-x y",
    ])
    .to_string()
}

fn component(t: &mut Tape, dash_w: u32, meta_w: u32) -> (String, bool, bool) {
    let mut s = String::new();
    let mut dash = false;
    let mut meta = false;
    if t.weighted(&[16 - dash_w.min(15), dash_w]) == 1 {
        s.push_str(&dash_token(t));
        dash = true;
    }
    let n = t.range(if dash { 0 } else { 1 }, 3);
    for _ in 0..n {
        if t.weighted(&[16 - meta_w.min(15), meta_w]) == 1 {
            s.push_str(&meta_token(t));
            meta = true;
        } else {
            s.push_str(&plain_token(t));
        }
    }
    (s, dash, meta)
}

struct GenUrl {
    template: String,
    dash: bool,
    meta: bool,
    tilde: bool,
    scp: bool,
}

fn gen_ssh_url(t: &mut Tape) -> GenUrl {
    let scp = t.chance(140);
    let mut s = String::new();
    let mut dash = false;
    let mut meta = false;
    let mut tilde = false;
    if !scp {
        s.push_str(*t.pick(&["ssh://", "ssh://", "ssh://", "ssh+git://", "git+ssh://", "SSH://"]));
    }
    if t.chance(140) {
        let (u, d, m) = component(t, 5, 4);
        dash |= d;
        meta |= m;
        s.push_str(&u);
        if !scp && t.chance(64) {
            s.push(':');
            let (p, d, m) = component(t, 3, 4);
            dash |= d;
            meta |= m;
            s.push_str(&p);
        }
        s.push('@');
    }
    match t.weighted(&[8, 4, 1, 1]) {
        0 => s.push_str(*t.pick(&["host", "example.com", "h", "127.0.0.1", "HOST.xy"])),
        1 => {
            let (h, d, m) = component(t, 8, 3);
            dash |= d;
            meta |= m;
            s.push_str(&h);
        }
        2 => s.push_str(if scp { "h6" } else { "[::1]" }),
        _ => {}
    }
    if !scp {
        match t.weighted(&[10, 3, 1, 1]) {
            0 => {}
            1 => s.push_str(":22"),
            2 => s.push_str(&format!(":{}", t.range(0, 65535))),
            _ => s.push_str(":0"),
        }
    }
    s.push(if scp { ':' } else { '/' });
    // path
    let lead = t.weighted(&[6, 3, 2, 2, 1, 1, 1]);
    match lead {
        0 => {}
        1 => {
            s.push_str(*t.pick(&["~/", "~user/", "~", "~user", "~-oProxyCommand=x/", "~-x", "~ /", "~'/", "~$(touch @D@/pwned)/"]));
            tilde = true;
        }
        2 => {
            s.push_str(&dash_token(t));
            dash = true;
        }
        3 => {
            s.push_str(*t.pick(&[" ", "\t", "\n", "  ", "\u{a0}", "\u{2003}"]));
            s.push_str(&dash_token(t));
            dash = true;
        }
        4 => s.push('/'),
        5 => {
            s.push('/');
            s.push_str(&dash_token(t));
            dash = true;
        }
        _ => s.push_str("./"),
    }
    let nseg = t.range(if lead == 0 { 1 } else { 0 }, 3);
    for i in 0..nseg {
        if i > 0 {
            s.push('/');
        }
        let (c, d, m) = component(t, 2, 7);
        dash |= d;
        meta |= m;
        s.push_str(&c);
    }
    if t.chance(40) {
        s.push('/');
    }
    GenUrl {
        template: s,
        dash,
        meta,
        tilde,
        scp,
    }
}

#[derive(Clone, Copy, Debug, PartialEq, Eq, Hash)]
enum Naming {
    /// `kind: Some(k)`, program named after the kind
    Explicit(K),
    /// `kind: None`, program name implies the kind
    ByName(K),
    /// `kind: None`, unknown program name: `-G` feature check decides (status 0 -> Ssh, else Simple)
    Probe { g_ok: bool },
    /// `kind: Some(k)`, unrelated program name
    ExplicitOddName(K),
}

#[derive(Clone, Copy, Debug, PartialEq, Eq, Hash)]
enum K {
    Ssh,
    Plink,
    Putty,
    Tortoise,
    Simple,
}

impl K {
    fn kind(self) -> ProgramKind {
        match self {
            K::Ssh => ProgramKind::Ssh,
            K::Plink => ProgramKind::Plink,
            K::Putty => ProgramKind::Putty,
            K::Tortoise => ProgramKind::TortoisePlink,
            K::Simple => ProgramKind::Simple,
        }
    }
    fn exe(self, t: &mut Tape) -> &'static str {
        match self {
            K::Ssh => *t.pick(&["ssh", "ssh.exe", "SSH"]),
            K::Plink => *t.pick(&["plink", "plink.exe", "PLink"]),
            K::Putty => *t.pick(&["putty", "putty.exe"]),
            K::Tortoise => *t.pick(&["tortoiseplink.exe", "TortoisePlink", "tortoiseplink"]),
            K::Simple => *t.pick(&["myssh", "ssh-wrapper", "s"]),
        }
    }
}

#[derive(Clone, Debug, Hash)]
struct Variant {
    naming: Naming,
    exe: &'static str,
    /// put the program into a directory whose name makes gix-command use `sh -c '<cmd> "$@"'`
    shell_dir: bool,
    disallow_shell: bool,
    version: u8,
    receive: bool,
}

fn gen_variant(t: &mut Tape) -> Variant {
    let k = *t.pick(&[K::Ssh, K::Ssh, K::Plink, K::Putty, K::Tortoise, K::Simple]);
    let (naming, exe) = match t.weighted(&[3, 4, 3, 1]) {
        0 => (Naming::Explicit(k), k.exe(t)),
        1 if k != K::Simple => (Naming::ByName(k), k.exe(t)),
        1 | 2 => (Naming::Probe { g_ok: t.bool() }, K::Simple.exe(t)),
        _ => (Naming::ExplicitOddName(k), *t.pick(&["ssh", "plink", "custom"])),
    };
    Variant {
        naming,
        exe,
        shell_dir: t.bool(),
        disallow_shell: t.chance(64),
        version: *t.pick(&[1u8, 2, 2, 0]),
        receive: t.chance(48),
    }
}

impl Variant {
    fn effective(&self) -> K {
        match self.naming {
            Naming::Explicit(k) | Naming::ByName(k) | Naming::ExplicitOddName(k) => k,
            Naming::Probe { g_ok } => {
                if g_ok {
                    K::Ssh
                } else {
                    K::Simple
                }
            }
        }
    }
    fn option_kind(&self) -> Option<ProgramKind> {
        match self.naming {
            Naming::Explicit(k) | Naming::ExplicitOddName(k) => Some(k.kind()),
            _ => None,
        }
    }
    fn protocol(&self) -> Protocol {
        match self.version {
            0 => Protocol::V0,
            1 => Protocol::V1,
            _ => Protocol::V2,
        }
    }
}

/// `gix_url::expand_path::for_shell` as documented: `/~/x` -> `~/x`, `/~user/x` -> `~user/x`, everything else unchanged.
fn model_for_shell(path: &[u8]) -> Vec<u8> {
    if let Some(rest) = path.strip_prefix(b"/") {
        let (first, tail) = match rest.find_byte(b'/') {
            Some(i) => (&rest[..i], &rest[i + 1..]),
            None => (rest, &b""[..]),
        };
        if first.starts_with(b"~") {
            let mut v = first.to_vec();
            v.push(b'/');
            v.extend_from_slice(tail);
            return v;
        }
    }
    path.to_vec()
}

fn starts_with_dash_after_ws(b: &[u8]) -> bool {
    b.trim().first() == Some(&b'-')
}

enum Outcome {
    /// refused before spawning: description
    Refused(String),
    /// a process was (or should have been) spawned and the conversation failed afterwards
    Spawned(String),
}

fn ssh_case(c: &mut Case, fake: &Path, url: &gix_url::Url, v: &Variant, d: &Path, idx: usize) {
    let wd = d.join(format!("w{idx}"));
    let bindir = if v.shell_dir { "b=n" } else { "bin" };
    let g_status = match v.naming {
        Naming::Probe { g_ok: false } => 1,
        _ => 0,
    };
    let prog = infra!(c, make_fake_ssh(fake, &wd, bindir, v.exe, g_status), "fake ssh");
    let options = gix_transport::client::connect::Options {
        version: v.protocol(),
        ssh: gix_transport::client::ssh::connect::Options {
            command: Some(OsString::from(&prog)),
            disallow_shell: v.disallow_shell,
            kind: v.option_kind(),
        },
        trace: false,
    };
    let service = if v.receive { Service::ReceivePack } else { Service::UploadPack };
    let outcome = match gix_transport::connect(url.clone(), options) {
        Err(e) => Outcome::Refused(format!("connect: {e:?}")),
        Ok(mut transport) => {
            let o = match transport.handshake(service, &[]).map(|_| ()) {
                Ok(()) => Outcome::Spawned("handshake ok".into()),
                Err(gix_transport::client::Error::SshInvocation(e)) => Outcome::Refused(format!("invocation: {e}")),
                Err(gix_transport::client::Error::AmbiguousPath { path }) => Outcome::Refused(format!("ambiguous path {path:?}")),
                Err(gix_transport::client::Error::InvokeProgram { source, command }) => {
                    c.infra(format!("fake ssh {command:?} could not be started: {source}"));
                    return;
                }
                Err(e) => Outcome::Spawned(format!("{e}")),
            };
            drop(transport);
            o
        }
    };

    // what was executed
    let mut invs: Vec<Vec<Vec<u8>>> = Vec::new();
    for n in 0.. {
        match read_nul_list(&wd.join(format!("inv.{n}"))) {
            Some(a) => invs.push(a),
            None => break,
        }
    }
    let user = url.user();
    let host = url.host().unwrap_or("");
    let ctx = |what: &str| format!("{what}; url {url:?}; variant {v:?}");

    // no word handed to the ssh program may be URL-derived and start with '-': compare against the fixed option words
    let mut main: Option<(usize, &Vec<Vec<u8>>)> = None;
    for (n, argv) in invs.iter().enumerate() {
        if argv.first().map(|a| a.as_slice()) == Some(b"-G") {
            let expected_probe = matches!(v.naming, Naming::Probe { .. });
            ensure_sig!(
                c,
                "probe-argv",
                expected_probe && n == 0 && argv.len() == 2 && argv[1] == host.as_bytes() && !argv[1].starts_with(b"-"),
                "{}",
                ctx(&format!("feature probe invoked as {:?}", argv.iter().map(|a| show(a)).collect::<Vec<_>>()))
            );
            continue;
        }
        ensure!(c, main.is_none(), "{}", ctx("the ssh program was invoked more than once"));
        main = Some((n, argv));
    }

    let kind = v.effective();
    let path_word = model_for_shell(&url.path);
    let refusal_justified = user.map_or(false, |u| u.starts_with('-'))
        || host.starts_with('-')
        || url.host().is_none()
        || starts_with_dash_after_ws(&path_word)
        || (kind == K::Simple && url.port.is_some());
    let no_pwned = |c: &mut Case, wd: &Path| -> bool {
        let rcwd_empty = std::fs::read_dir(wd.join("rcwd")).map(|mut r| r.next().is_none()).unwrap_or(false);
        if d.join("pwned").exists() || !rcwd_empty {
            c.fail_sig("command-executed", ctx("a command embedded in the URL was executed (canary file appeared)"));
            return false;
        }
        true
    };

    let Some((n, argv)) = main else {
        if !no_pwned(c, &wd) {
            return;
        }
        match outcome {
            Outcome::Refused(why) => {
                c.label("refused");
                ensure_sig!(
                    c,
                    "refused-without-reason",
                    refusal_justified,
                    "{}",
                    ctx(&format!("connection refused ({why}) although no component could be mistaken for an option"))
                );
            }
            Outcome::Spawned(why) => {
                c.infra(ctx(&format!("no invocation was recorded but the transport reports: {why}")));
            }
        }
        return;
    };
    c.label("spawned");
    let shown: Vec<String> = argv.iter().map(|a| show(a)).collect();
    let mut opts: Vec<Vec<u8>> = Vec::new();
    match kind {
        K::Ssh => {
            if v.version != 1 {
                opts.push(b"-o".to_vec());
                opts.push(b"SendEnv=GIT_PROTOCOL".to_vec());
            }
            if let Some(p) = url.port {
                opts.push(format!("-p{p}").into_bytes());
            }
        }
        K::Plink | K::Putty | K::Tortoise => {
            if kind == K::Tortoise {
                opts.push(b"-batch".to_vec());
            }
            if let Some(p) = url.port {
                opts.push(b"-P".to_vec());
                opts.push(p.to_string().into_bytes());
            }
        }
        K::Simple => {}
    }
    let k = opts.len();
    ensure_sig!(
        c,
        "argv-shape",
        argv.len() == k + 3 && argv[..k] == opts[..],
        "{}",
        ctx(&format!("ssh program argv {shown:?}: expected option words {:?} followed by destination, service, path", opts.iter().map(|a| show(a)).collect::<Vec<_>>()))
    );
    let dest = match user {
        Some(u) => format!("{u}@{host}"),
        None => host.to_string(),
    };
    ensure_sig!(
        c,
        "destination-is-option",
        !argv[k].starts_with(b"-"),
        "{}",
        ctx(&format!("destination word {} starts with '-': argv {shown:?}", show(&argv[k])))
    );
    ensure_sig!(
        c,
        "destination-differs",
        argv[k] == dest.as_bytes(),
        "{}",
        ctx(&format!("destination word {} is not {dest:?}: argv {shown:?}", show(&argv[k])))
    );
    ensure!(c, argv[k + 1] == service.as_str().as_bytes(), "{}", ctx(&format!("service word wrong: argv {shown:?}")));
    ensure_sig!(
        c,
        "path-word-is-option",
        !argv[k + 2].starts_with(b"-"),
        "{}",
        ctx(&format!("path word starts with '-': argv {shown:?}"))
    );
    if !no_pwned(c, &wd) {
        return;
    }
    // what the remote shell made of the command line
    let words = read_nul_list(&wd.join(format!("remote.{n}"))).unwrap_or_default();
    let Some(records) = parse_records(&words) else {
        c.infra(ctx("unparsable recorder output"));
        return;
    };
    let stderr = std::fs::read(wd.join(format!("remote-stderr.{n}"))).unwrap_or_default();
    ensure_sig!(
        c,
        "remote-word-count",
        records.len() == 1 && records[0].len() == 1,
        "{}",
        ctx(&format!(
            "the remote shell ran the service {} time(s) with arguments {:?} for command line {} (stderr: {})",
            records.len(),
            records.iter().map(|r| r.iter().map(|a| show(a)).collect::<Vec<_>>()).collect::<Vec<_>>(),
            show(&argv[k + 2]),
            show(&stderr)
        ))
    );
    let got = &records[0][0];
    ensure_sig!(
        c,
        "remote-path-differs",
        got == &path_word,
        "{}",
        ctx(&format!("the remote service received {} but the URL path is {} (quoted as {})", show(got), show(&path_word), show(&argv[k + 2])))
    );
    ensure_sig!(
        c,
        "remote-path-is-option",
        !got.starts_with(b"-"),
        "{}",
        ctx(&format!("the remote service received {} which starts with '-'", show(got)))
    );
    ensure!(c, stderr.is_empty(), "{}", ctx(&format!("remote shell complained: {}", show(&stderr))));
}

pub fn main() {
    // process-wide recorder for the local transport (`git-upload-pack` is looked up on PATH); set before any thread exists
    let proc_dir = Scratch::new("c34-proc").expect("scratch");
    let lbin = proc_dir.join("lbin");
    std::fs::create_dir_all(&lbin).expect("lbin");
    let local_rec = proc_dir.join("local.rec");
    let rec = format!("#!/bin/sh\nprintf '%s\\0' \"$#\" \"$@\" >> '{}'\n", local_rec.display());
    write_exe(&lbin.join("git-upload-pack"), &rec).expect("recorder");
    write_exe(&lbin.join("git-receive-pack"), &rec).expect("recorder");
    let rbin = proc_dir.join("rbin");
    std::fs::create_dir_all(&rbin).expect("rbin");
    write_exe(&rbin.join("git-upload-pack"), RECORDER).expect("recorder");
    write_exe(&rbin.join("git-receive-pack"), RECORDER).expect("recorder");
    let fake_ssh = proc_dir.join("fake-ssh");
    write_exe(&fake_ssh, &fake_ssh_script(&rbin)).expect("fake ssh");
    let old_path = std::env::var_os("PATH").unwrap_or_default();
    let mut new_path = OsString::from(&lbin);
    new_path.push(":");
    new_path.push(&old_path);
    std::env::set_var("PATH", &new_path);
    vp::git::cleanup_stale_scratch();

    let mut ck = Check::new("C34", "exploration");
    ck.rule("ssh URLs (ssh://, ssh+git://, git+ssh://, scp-like) whose user, password, host and path are built from plain tokens, option look-alikes ('-oProxyCommand=..', '-G', '--upload-pack=..', '-', '--'), shell metacharacter payloads (command substitution, ';', '|', '&', newline, quotes, '!', '$IFS', globs, redirections; payloads create a canary file when executed), '~'/'~user' prefixes and whitespace-led dashes; each URL is run against 3 program variants: kind given explicitly / implied by the program name (ssh, plink, putty, tortoiseplink incl. .exe and case variants) / unknown name with the '-G' probe answering yes or no, program path with or without a character that makes gix-command wrap it in `sh -c`, disallow_shell, protocol V0/V1/V2, upload-pack/receive-pack. Local transport: paths and file:// URLs with leading '-', whitespace-led '-', and metacharacters. Non-trivial: a component starts with '-' or contains a shell metacharacter. Distinct by URL template and variants.");
    ck.assume("the remote side is modelled by the fake ssh script: option parsing stops at the first word not starting with '-', the words after the destination are joined with spaces and evaluated by /bin/sh (dash), like OpenSSH does; the documented rewriting of '/~' paths (gix_url::expand_path::for_shell) is applied by the oracle's own transcription");
    ck.assume("refusing a URL is accepted when user or host start with '-', the host is missing, the (trimmed) path word starts with '-', or the Simple variant is asked for a port; any other refusal is reported");

    ck.sub("ssh-spawn", SubCfg::new(1_200, 40_000).max_len(160).max_shrink(60).max_discard_pct(40), |t, c| {
        let g = gen_ssh_url(t);
        let variants: Vec<Variant> = (0..3).map(|_| gen_variant(t)).collect();
        c.key(&(&g.template, &variants));
        let scratch = infra!(c, Scratch::new("c34"), "scratch");
        let d = scratch.path.clone();
        let s = g.template.replace("@D@", &d.display().to_string());
        let url = match gix_url::parse(s.as_bytes().as_bstr()) {
            Ok(u) if u.scheme == gix_url::Scheme::Ssh => u,
            _ => {
                c.discard();
                return;
            }
        };
        c.label(if g.scp { "scp-like" } else { "ssh-url" });
        c.label_if(g.dash, "dash-component");
        c.label_if(g.meta, "metachar");
        c.label_if(g.tilde, "tilde-path");
        c.label_if(url.user().map_or(false, |u| u.starts_with('-')), "user-dash");
        c.label_if(url.host().map_or(false, |u| u.starts_with('-')), "host-dash");
        c.label_if(url.path.starts_with(b"-"), "path-dash");
        c.label_if(url.path.contains(&b'\''), "path-single-quote");
        c.label_if(url.path.contains(&b'!'), "path-bang");
        c.label_if(url.port.is_some(), "port");
        c.nontrivial(g.dash || g.meta);
        c.sample_with(|| format!("{} with {:?}", show(g.template.as_bytes()), variants));
        for (i, v) in variants.iter().enumerate() {
            c.label(match v.effective() {
                K::Ssh => "kind:ssh",
                K::Plink => "kind:plink",
                K::Putty => "kind:putty",
                K::Tortoise => "kind:tortoiseplink",
                K::Simple => "kind:simple",
            });
            c.label_if(matches!(v.naming, Naming::Probe { .. }), "probe");
            c.label_if(v.shell_dir && !v.disallow_shell, "via-sh-c");
            ssh_case(c, &fake_ssh, &url, v, &d, i);
            if c.failed() {
                return;
            }
        }
    });

    // gix_quote::single evaluated by a shell: arbitrary bytes (also non-UTF-8, which URL paths cannot carry)
    ck.sub("single-quote-eval", SubCfg::new(400, 20_000).max_len(700).max_shrink(80), |t, c| {
        let mut values: Vec<Vec<u8>> = Vec::new();
        for _ in 0..24 {
            let mut v = Vec::new();
            for _ in 0..t.range(0, 8) {
                match t.weighted(&[4, 4, 3, 2, 2]) {
                    0 => v.extend(t.string_of(b"abc/._-~", 1, 3)),
                    1 => v.extend_from_slice(b"'"),
                    2 => v.extend_from_slice(t.pick(&["!", "\\", "\\'", "'\\''", "\"", "$", "`", " ", "\n", "\t", ";", "&", "|", "*", "$(x)", "#"]).as_bytes()),
                    3 => v.push(t.range(1, 255) as u8),
                    _ => v.extend_from_slice(t.pick(&["é", "日本", "\u{a0}"]).as_bytes()),
                }
            }
            values.push(v);
        }
        c.key(&values);
        let quotes = values.iter().filter(|v| v.contains(&b'\'') || v.contains(&b'!')).count();
        c.nontrivial(quotes > 0);
        c.label_if(values.iter().any(|v| v.contains(&b'\'')), "single-quote");
        c.label_if(values.iter().any(|v| v.contains(&b'!')), "bang");
        c.label_if(values.iter().any(|v| std::str::from_utf8(v).is_err()), "non-utf8");
        c.sample_with(|| format!("24 values, e.g. {} / {}", show(&values[0]), show(&values[1])));
        let mut script = b"printf '%s\\0'".to_vec();
        for v in &values {
            script.push(b' ');
            script.extend_from_slice(&gix_quote::single(v.as_bstr()));
        }
        let out = std::process::Command::new("/bin/sh")
            .arg("-c")
            .arg(std::ffi::OsStr::from_bytes(&script))
            .env_clear()
            .current_dir("/")
            .stdin(std::process::Stdio::null())
            .output();
        let out = infra!(c, out, "sh");
        let got = read_words(&out.stdout);
        ensure_sig!(
            c,
            "single-quote-eval",
            out.status.success() && got == values,
            "sh evaluates {} to {:?} (stderr {}), expected {:?}",
            show(&script),
            got.iter().map(|a| show(a)).collect::<Vec<_>>(),
            show(&out.stderr),
            values.iter().map(|a| show(a)).collect::<Vec<_>>()
        );
    });

    // local transport: git-upload-pack is spawned directly with the path as its only argument
    let rec_file = local_rec.clone();
    ck.sub("local-spawn", SubCfg::new(800, 30_000).max_len(64).threads(1).max_shrink(60).max_discard_pct(40), move |t, c| {
        let mut s = String::new();
        let file_url = t.chance(80);
        if file_url {
            s.push_str("file://");
            s.push_str(*t.pick(&["/", "/", "/", "", "//"]));
        } else {
            s.push_str(*t.pick(&["", "", "/", "./", "../", "a/", " ", "\t", "\n ", "~/"]));
        }
        let mut dash = false;
        let mut meta = false;
        let n = t.range(1, 3);
        for i in 0..n {
            if i > 0 {
                s.push('/');
            }
            let (cpt, d, m) = component(t, if i == 0 { 7 } else { 2 }, 5);
            dash |= d;
            meta |= m;
            s.push_str(&cpt);
        }
        c.key(&s);
        let template = s.clone();
        let scratch = infra!(c, Scratch::new("c34l"), "scratch");
        let s = s.replace("@D@", &scratch.path.display().to_string());
        let url = match gix_url::parse(s.as_bytes().as_bstr()) {
            Ok(u) if u.scheme == gix_url::Scheme::File && u.host().is_none() => u,
            _ => {
                c.discard();
                return;
            }
        };
        c.label(if file_url { "file-url" } else { "local-path" });
        c.label_if(dash, "dash-component");
        c.label_if(meta, "metachar");
        c.label_if(url.path.starts_with(b"-"), "path-dash");
        c.label_if(starts_with_dash_after_ws(&url.path) && !url.path.starts_with(b"-"), "path-ws-dash");
        c.nontrivial(dash || meta);
        c.sample_with(|| format!("{}", show(template.as_bytes())));
        let version = *t.pick(&[Protocol::V1, Protocol::V2, Protocol::V0]);
        let receive = t.chance(48);
        let service = if receive { Service::ReceivePack } else { Service::UploadPack };
        let _ = std::fs::remove_file(&rec_file);
        let path: BString = url.path.clone();
        let res = std::panic::catch_unwind(std::panic::AssertUnwindSafe(|| {
            let options = gix_transport::client::connect::Options {
                version,
                ..Default::default()
            };
            match gix_transport::connect(url.clone(), options) {
                Err(e) => Outcome::Refused(format!("connect: {e:?}")),
                Ok(mut tr) => match tr.handshake(service, &[]).map(|_| ()) {
                    Ok(()) => Outcome::Spawned("ok".into()),
                    Err(gix_transport::client::Error::AmbiguousPath { path }) => Outcome::Refused(format!("ambiguous path {path:?}")),
                    Err(e) => Outcome::Spawned(format!("{e:?}")),
                },
            }
        }));
        let words = read_nul_list(&rec_file).unwrap_or_default();
        let Some(records) = parse_records(&words) else {
            c.infra("unparsable recorder output".to_string());
            return;
        };
        ensure_sig!(
            c,
            "command-executed",
            !scratch.join("pwned").exists(),
            "a command embedded in {} was executed",
            show(s.as_bytes())
        );
        let outcome = match res {
            Ok(o) => o,
            Err(_) => {
                // a crash is not an injection: nothing may have been spawned, that is all this property asks
                c.label("panic-before-spawn (out of scope: file.rs new_local expects a re-parsable path)");
                ensure!(c, records.is_empty(), "panic after spawning {:?}", records);
                return;
            }
        };
        match outcome {
            Outcome::Refused(why) => {
                c.label("refused");
                ensure!(c, records.is_empty(), "refused ({why}) but the service was spawned with {:?}", records);
                ensure_sig!(
                    c,
                    "refused-without-reason",
                    starts_with_dash_after_ws(&path),
                    "local path {} refused ({why}) although it does not start with '-'",
                    show(&path)
                );
            }
            Outcome::Spawned(why) => {
                c.label("spawned");
                if records.is_empty() {
                    c.infra(format!("nothing recorded for {}: {why}", show(&path)));
                    return;
                }
                ensure_sig!(
                    c,
                    "local-argv",
                    records.len() == 1 && records[0].len() == 1 && records[0][0] == path.as_slice(),
                    "git service spawned with {:?}, expected the single argument {}",
                    records.iter().map(|r| r.iter().map(|a| show(a)).collect::<Vec<_>>()).collect::<Vec<_>>(),
                    show(&path)
                );
                ensure_sig!(
                    c,
                    "local-path-is-option",
                    !records[0][0].starts_with(b"-"),
                    "git service received {} which starts with '-'",
                    show(&records[0][0])
                );
            }
        }
    });

    drop(proc_dir);
    ck.finish();
}

fn read_words(data: &[u8]) -> Vec<Vec<u8>> {
    if data.is_empty() {
        return vec![];
    }
    let mut v: Vec<Vec<u8>> = data.split(|b| *b == 0).map(|s| s.to_vec()).collect();
    v.pop();
    v
}
