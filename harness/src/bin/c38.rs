//! C38 — attribute values agree with `git check-attr`.
//!
//! One case = one generated worktree with `.gitattributes` files at random levels, `info/attributes`,
//! `core.attributesFile`, macros (custom, nested, redefined, misplaced), all assignment forms, plus ~30-60 query
//! paths. Oracle: one `git check-attr -z --stdin <all names>` call per world. gitoxide: `Repository::attributes_only()`,
//! `at_entry(path)` + `matching_attributes()` on one shared stack, three ways per path: all attributes
//! (`attribute_matches()` / `iter()`), a selection of all names (`iter_selected()`), and a random sub-selection
//! (exercises the early-exit bookkeeping). Compared per (path, attribute): set / unset / value(v) / unspecified.
use bstr::{BString, ByteSlice};
use std::collections::BTreeMap;
use vp::*;

#[derive(Clone, Debug, Hash, PartialEq, Eq)]
enum Loc {
    Dir(Vec<u8>),
    Info,
    Global,
}

#[derive(Clone, Debug, Hash)]
struct Spec {
    dirs: Vec<Vec<u8>>,
    files: Vec<Vec<u8>>,
    attr_files: Vec<(Loc, Vec<u8>)>,
    ignore_case: bool,
    /// (path as given to gitoxide, is it queried as directory)
    queries: Vec<(Vec<u8>, bool)>,
    names: Vec<&'static str>,
    sub_selection: Vec<&'static str>,
}

const DIR_NAMES: &[&str] = &["a", "b", "dir", "Dir", "sub", "x.d", "A", "foo", "d e", "s*r", "build"];
const FILE_NAMES: &[&str] = &[
    "a", "b", "f.txt", "F.TXT", "b.o", "x", "foo", "Foo", ".hid", "a b", "#h", "!n", "c]", "q?", "s*r", "ba\\ck", "main.c",
    "Main.C", "x.o", "[ab]", "\"q",
];
/// attribute names used in assignments; the macro names are in MACROS
const ATTRS: &[&str] = &["a", "b", "c", "text", "diff", "merge", "eol", "filter", "x-y", "A", "d.e", "_u"];
const MACROS: &[&str] = &["binary", "m1", "m2", "m3"];
const NEVER_ASSIGNED: &[&str] = &["zz", "export-ignore"];
const VALUES: &[&str] = &["v", "1", "lf", "x=y", "", "a,b", "Set", "-", "!"];

fn join(dir: &[u8], name: &[u8]) -> Vec<u8> {
    if dir.is_empty() {
        name.to_vec()
    } else {
        let mut v = dir.to_vec();
        v.push(b'/');
        v.extend_from_slice(name);
        v
    }
}

fn escape_glob(name: &[u8], out: &mut Vec<u8>, first: bool) {
    for (i, b) in name.iter().enumerate() {
        if matches!(b, b'*' | b'?' | b'[' | b'\\') || (first && i == 0 && matches!(b, b'!' | b'#')) {
            out.push(b'\\');
        }
        out.push(*b);
    }
}

/// the pattern as it has to be written in an attributes line (C-quoted if it contains blanks or starts with a quote)
fn quote_if_needed(pat: &[u8]) -> Vec<u8> {
    if !pat.iter().any(|b| matches!(b, b' ' | b'\t' | b'\r')) && pat.first() != Some(&b'"') {
        return pat.to_vec();
    }
    let mut out = vec![b'"'];
    for b in pat {
        match b {
            b'"' => out.extend_from_slice(b"\\\""),
            b'\\' => out.extend_from_slice(b"\\\\"),
            b'\t' => out.extend_from_slice(b"\\t"),
            b'\r' => out.extend_from_slice(b"\\r"),
            _ => out.push(*b),
        }
    }
    out.push(b'"');
    out
}

fn gen_pattern(t: &mut Tape, base: &[u8], all_paths: &[Vec<u8>], c: &mut Case) -> Vec<u8> {
    let below: Vec<&Vec<u8>> = all_paths
        .iter()
        .filter(|p| base.is_empty() || (p.len() > base.len() + 1 && p.starts_with(base) && p[base.len()] == b'/'))
        .collect();
    let target: Vec<u8> = if !below.is_empty() && !t.chance(24) {
        let p = below[t.below(below.len())];
        if base.is_empty() {
            p.to_vec()
        } else {
            p[base.len() + 1..].to_vec()
        }
    } else if !all_paths.is_empty() {
        all_paths[t.below(all_paths.len())].clone()
    } else {
        b"a".to_vec()
    };
    let comps: Vec<&[u8]> = target.split(|b| *b == b'/').collect();
    let base_name = comps[comps.len() - 1];
    let mut pat = Vec::new();
    match t.weighted(&[8, 6, 4, 5, 5, 4, 2]) {
        0 => {
            c.label("pat-basename");
            escape_glob(base_name, &mut pat, true);
        }
        1 => {
            c.label("pat-relative-path");
            for (i, comp) in comps.iter().enumerate() {
                if i > 0 {
                    pat.push(b'/');
                }
                escape_glob(comp, &mut pat, i == 0);
            }
        }
        2 => {
            c.label("pat-anchored");
            for comp in comps.iter() {
                pat.push(b'/');
                escape_glob(comp, &mut pat, false);
            }
        }
        3 => {
            c.label("pat-star-affix");
            match base_name.rfind_byte(b'.') {
                Some(dot) if dot > 0 && t.bool() => {
                    pat.push(b'*');
                    escape_glob(&base_name[dot..], &mut pat, false);
                }
                _ => {
                    let keep = t.range(1, base_name.len().max(1)).min(base_name.len());
                    escape_glob(&base_name[..keep], &mut pat, true);
                    pat.push(b'*');
                }
            }
        }
        4 => {
            c.label("pat-starstar");
            match t.weighted(&[3, 3, 3, 2, 2, 1]) {
                5 => {
                    // `lit**/name`: git lets this `**` cross directories (recorded deviation class)
                    c.label("pat-doublestar-after-literal");
                    let keep = t.range(1, comps[0].len().max(1)).min(comps[0].len());
                    escape_glob(&comps[0][..keep], &mut pat, true);
                    pat.extend_from_slice(b"**/");
                    escape_glob(base_name, &mut pat, false);
                }
                0 => {
                    pat.extend_from_slice(b"**/");
                    escape_glob(base_name, &mut pat, false);
                }
                1 => {
                    escape_glob(comps[0], &mut pat, true);
                    pat.extend_from_slice(b"/**");
                }
                2 => {
                    escape_glob(comps[0], &mut pat, true);
                    pat.extend_from_slice(b"/**/");
                    escape_glob(base_name, &mut pat, false);
                }
                3 => {
                    pat.extend_from_slice(b"*/");
                    escape_glob(base_name, &mut pat, false);
                }
                _ => {
                    escape_glob(comps[0], &mut pat, true);
                    pat.extend_from_slice(b"/*");
                }
            }
        }
        5 => {
            c.label("pat-pool");
            let pool: &[&[u8]] = &[
                b"*", b"/*", b"**", b"?", b"*.o", b"*.[oa]", b"a/**/b", b"/**", b"*/*", b"[a-z]*", b"*.c", b"*.txt", b"**/*",
                b"?*", b"[!a]*",
            ];
            pat.extend_from_slice(pool[t.below(pool.len())]);
        }
        _ => {
            c.label("pat-one-char-globbed");
            let pos = t.below(base_name.len().max(1));
            for (i, b) in base_name.iter().enumerate() {
                if i == pos {
                    if t.bool() {
                        pat.push(b'?');
                    } else {
                        pat.push(b'[');
                        if matches!(b, b']' | b'\\' | b'[' | b'!' | b'^' | b'-') {
                            pat.push(b'\\');
                        }
                        pat.push(b.to_ascii_lowercase());
                        pat.push(b']');
                    }
                } else {
                    escape_glob(&[*b], &mut pat, i == 0);
                }
            }
        }
    }
    if t.chance(24) {
        c.label("pat-dir-only");
        pat.push(b'/');
    }
    if t.chance(32) {
        let mut in_bracket = false;
        let mut i = 0;
        while i < pat.len() {
            match pat[i] {
                b'\\' => i += 1,
                b'[' => in_bracket = true,
                b']' => in_bracket = false,
                b if b.is_ascii_alphabetic() && !in_bracket && t.chance(100) => pat[i] ^= 0x20,
                _ => {}
            }
            i += 1;
        }
        c.label("pat-case-flipped");
    }
    if t.chance(8) {
        c.label("pat-negative");
        pat.insert(0, b'!');
    }
    pat.retain(|b| *b != b'\n' && *b != 0);
    if pat.is_empty() {
        pat.push(b'*');
    }
    pat
}

fn gen_assignments(t: &mut Tape, c: &mut Case, allow_macro_names: bool, out: &mut Vec<u8>) {
    let n = t.weighted(&[1, 8, 6, 3, 1]);
    for i in 0..n {
        out.push(if t.chance(24) { b'\t' } else { b' ' });
        if i > 0 && t.chance(12) {
            out.push(b' ');
        }
        let name: &str = if allow_macro_names && t.chance(56) {
            c.label("uses-macro-name");
            *t.pick(MACROS)
        } else {
            *t.pick(ATTRS)
        };
        let is_macro_name = MACROS.contains(&name);
        // other forms than plain `m` for macros are a recorded deviation class: keep them at about 1 in 10
        let form = if is_macro_name && !t.chance(28) { 0 } else { t.weighted(&[8, 5, 3, 5, 1]) };
        match form {
            0 => out.extend_from_slice(name.as_bytes()),
            1 => {
                out.push(b'-');
                out.extend_from_slice(name.as_bytes());
            }
            2 => {
                c.label("assign-unspecified");
                out.push(b'!');
                out.extend_from_slice(name.as_bytes());
            }
            3 => {
                out.extend_from_slice(name.as_bytes());
                out.push(b'=');
                out.extend_from_slice(t.pick(VALUES).as_bytes());
            }
            _ => {
                // forms with odd syntax: prefix plus value, invalid names
                c.label("assign-odd");
                let odd: &[&[u8]] = &[b"-a=v", b"!b=1", b"-", b"!", b"a=", b"=v", b"\xc3\xa4", b"a!b", b"--x", b"a=="];
                out.extend_from_slice(odd[t.below(odd.len())]);
            }
        }
    }
}

fn gen_attr_file(t: &mut Tape, base: &[u8], macros_ok: bool, all_paths: &[Vec<u8>], c: &mut Case) -> Vec<u8> {
    let mut out = Vec::new();
    if t.chance(10) {
        c.label("file-bom");
        out.extend_from_slice(b"\xef\xbb\xbf");
    }
    let crlf = t.chance(16);
    c.label_if(crlf, "file-crlf");
    let n = t.range(1, 7);
    for _ in 0..n {
        match t.weighted(&[if macros_ok { 5 } else { 1 }, 18, 1, 1, 1]) {
            0 => {
                c.label(if macros_ok { "macro-definition" } else { "macro-definition-misplaced" });
                out.extend_from_slice(b"[attr]");
                if t.chance(12) {
                    out.extend_from_slice(t.pick(&["-m", "m 1", "", "ä"]).as_bytes());
                } else {
                    // redefining the built-in `binary` is a recorded deviation class: rare
                    let m = if t.chance(24) { "binary" } else { *t.pick(&MACROS[1..]) };
                    out.extend_from_slice(m.as_bytes());
                }
                gen_assignments(t, c, true, &mut out);
            }
            1 => {
                if t.chance(16) {
                    out.extend_from_slice(if t.bool() { b"  " } else { b"\t" });
                    c.label("line-leading-blank");
                }
                let pat = gen_pattern(t, base, all_paths, c);
                if t.chance(6) {
                    // a quote that is never closed: git falls back to the blank-delimited token
                    c.label("pat-bad-quote");
                    out.push(b'"');
                    out.extend(pat.iter().filter(|b| !matches!(b, b' ' | b'\t' | b'"' | b'\\')));
                } else {
                    let q = quote_if_needed(&pat);
                    c.label_if(q.len() != pat.len(), "pat-quoted");
                    out.extend(q);
                }
                gen_assignments(t, c, true, &mut out);
            }
            2 => out.extend_from_slice(b"# comment a b"),
            3 => {}
            _ => {
                // a pattern without attributes
                out.extend(quote_if_needed(&gen_pattern(t, base, all_paths, c)));
            }
        }
        if t.chance(12) {
            out.extend_from_slice(b"  ");
        }
        if crlf {
            out.push(b'\r');
        }
        out.push(b'\n');
    }
    if t.chance(48) {
        c.label("file-no-final-newline");
        out.pop();
        if crlf {
            out.pop();
        }
    }
    out
}

fn gen_spec(t: &mut Tape, c: &mut Case) -> Spec {
    let mut dirs: Vec<Vec<u8>> = Vec::new();
    let mut frontier: Vec<(Vec<u8>, usize)> = vec![(Vec::new(), 0)];
    for _ in 0..t.range(1, 7) {
        let (parent, depth) = frontier[t.below(frontier.len())].clone();
        let d = join(&parent, t.pick(DIR_NAMES).as_bytes());
        if !dirs.contains(&d) {
            if depth + 1 < 4 {
                frontier.push((d.clone(), depth + 1));
            }
            dirs.push(d);
        }
    }
    let mut parents: Vec<Vec<u8>> = vec![Vec::new()];
    parents.extend(dirs.iter().cloned());
    let mut files: Vec<Vec<u8>> = Vec::new();
    for _ in 0..t.range(2, 12) {
        let parent = &parents[t.below(parents.len())];
        let f = join(parent, t.pick(FILE_NAMES).as_bytes());
        if !files.contains(&f) && !dirs.contains(&f) {
            files.push(f);
        }
    }
    let mut all_paths = dirs.clone();
    all_paths.extend(files.iter().cloned());
    let ignore_case = t.chance(64);
    c.label(if ignore_case { "ignorecase-on" } else { "ignorecase-off" });

    let mut attr_files = Vec::new();
    if t.chance(216) {
        attr_files.push((Loc::Dir(Vec::new()), gen_attr_file(t, b"", true, &all_paths, c)));
    }
    for d in &dirs {
        if t.chance(100) {
            attr_files.push((Loc::Dir(d.clone()), gen_attr_file(t, d, false, &all_paths, c)));
        }
    }
    if t.chance(90) {
        c.label("has-info-attributes");
        attr_files.push((Loc::Info, gen_attr_file(t, b"", true, &all_paths, c)));
    }
    if t.chance(90) {
        c.label("has-attributes-file");
        attr_files.push((Loc::Global, gen_attr_file(t, b"", true, &all_paths, c)));
    }

    let mut queries: Vec<(Vec<u8>, bool)> = files.iter().map(|f| (f.clone(), false)).collect();
    for d in &dirs {
        // a directory is asked about both ways: as directory (git: trailing slash) and as plain path
        queries.push((d.clone(), true));
        if t.chance(64) {
            queries.push((d.clone(), false));
        }
    }
    for _ in 0..t.range(3, 10) {
        let q = match t.weighted(&[5, 3, 3]) {
            0 => join(&parents[t.below(parents.len())], t.pick(FILE_NAMES).as_bytes()),
            1 => {
                let d = join(&parents[t.below(parents.len())], t.pick(&["nodir", "a", "build"]).as_bytes());
                join(&d, t.pick(FILE_NAMES).as_bytes())
            }
            _ => {
                let mut p = all_paths[t.below(all_paths.len())].clone();
                for b in p.iter_mut() {
                    if b.is_ascii_alphabetic() && t.chance(128) {
                        *b ^= 0x20;
                    }
                }
                p
            }
        };
        if !queries.iter().any(|(p, _)| *p == q) {
            queries.push((q, false));
        }
    }
    for i in (1..queries.len()).rev() {
        let j = t.below(i + 1);
        queries.swap(i, j);
    }
    let mut names: Vec<&'static str> = Vec::new();
    names.extend(ATTRS);
    names.extend(MACROS);
    names.extend(NEVER_ASSIGNED);
    let mut sub_selection = Vec::new();
    for n in &names {
        if t.chance(64) {
            sub_selection.push(*n);
        }
    }
    if sub_selection.is_empty() {
        sub_selection.push(names[t.below(names.len())]);
    }
    Spec {
        dirs,
        files,
        attr_files,
        ignore_case,
        queries,
        names,
        sub_selection,
    }
}

fn os(p: &[u8]) -> &std::ffi::OsStr {
    use std::os::unix::ffi::OsStrExt;
    std::ffi::OsStr::from_bytes(p)
}

fn build(spec: &Spec) -> Result<World, String> {
    let world = World::new("c38", false)?;
    let root = world.repo();
    let e = |e: std::io::Error| e.to_string();
    for d in &spec.dirs {
        std::fs::create_dir_all(root.join(os(d))).map_err(e)?;
    }
    for f in &spec.files {
        std::fs::write(root.join(os(f)), b"").map_err(e)?;
    }
    let global = world.scratch.join("home").join("global-attributes");
    for (loc, content) in &spec.attr_files {
        let p = match loc {
            Loc::Dir(d) => root.join(os(d)).join(".gitattributes"),
            Loc::Info => {
                std::fs::create_dir_all(root.join(".git/info")).map_err(e)?;
                root.join(".git/info/attributes")
            }
            Loc::Global => global.clone(),
        };
        std::fs::write(p, content).map_err(e)?;
    }
    let mut cfg = std::fs::read(root.join(".git/config")).map_err(e)?;
    cfg.extend_from_slice(
        format!(
            "[core]\n\tattributesFile = {}\n\tignoreCase = {}\n",
            global.display(),
            spec.ignore_case
        )
        .as_bytes(),
    );
    std::fs::write(root.join(".git/config"), cfg).map_err(e)?;
    Ok(world)
}

#[derive(Clone, Debug, PartialEq, Eq)]
enum St {
    Set,
    Unset,
    Value(BString),
    Unspecified,
}

fn show_st(s: &St) -> String {
    match s {
        St::Set => "set".into(),
        St::Unset => "unset".into(),
        St::Unspecified => "unspecified".into(),
        St::Value(v) => format!("value `{}`", show(v)),
    }
}

/// git's answers: per query, attribute name -> state
fn git_answers(world: &World, spec: &Spec) -> Result<Vec<BTreeMap<String, St>>, String> {
    let mut input = Vec::new();
    for (q, as_dir) in &spec.queries {
        input.extend_from_slice(q);
        if *as_dir {
            input.push(b'/');
        }
        input.push(0);
    }
    let mut args: Vec<&str> = vec!["check-attr", "-z", "--stdin"];
    args.extend(spec.names.iter());
    let git = world.git.clone().env("GIT_ATTR_NOSYSTEM", "1");
    let (ok, out, err) = git.try_run(args, Some(&input))?;
    if !ok {
        return Err(format!("git check-attr failed: {}", String::from_utf8_lossy(&err)));
    }
    let fields: Vec<&[u8]> = out.split(|b| *b == 0).collect();
    let expect = spec.queries.len() * spec.names.len() * 3 + 1;
    if fields.len() != expect {
        return Err(format!("git check-attr printed {} fields, expected {}", fields.len(), expect));
    }
    let mut res = Vec::new();
    let mut i = 0;
    for (q, as_dir) in &spec.queries {
        let mut m = BTreeMap::new();
        for name in &spec.names {
            let (path, attr, info) = (fields[i], fields[i + 1], fields[i + 2]);
            i += 3;
            let mut want = q.clone();
            if *as_dir {
                want.push(b'/');
            }
            if path != want.as_slice() || attr != name.as_bytes() {
                return Err(format!(
                    "git check-attr answered for {:?}/{:?}, expected {:?}/{name}",
                    path.as_bstr(),
                    attr.as_bstr(),
                    want.as_bstr()
                ));
            }
            let st = match info {
                b"set" => St::Set,
                b"unset" => St::Unset,
                b"unspecified" => St::Unspecified,
                v => St::Value(v.into()),
            };
            m.insert(name.to_string(), st);
        }
        res.push(m);
    }
    Ok(res)
}

fn to_st(s: gix_attributes::StateRef<'_>) -> St {
    match s {
        gix_attributes::StateRef::Set => St::Set,
        gix_attributes::StateRef::Unset => St::Unset,
        gix_attributes::StateRef::Unspecified => St::Unspecified,
        gix_attributes::StateRef::Value(v) => St::Value(v.as_bstr().to_owned()),
    }
}

fn describe_world(spec: &Spec) -> String {
    let mut s = format!(
        "dirs={:?} files={:?} ignoreCase={} ",
        spec.dirs.iter().map(|d| show(d)).collect::<Vec<_>>(),
        spec.files.iter().map(|d| show(d)).collect::<Vec<_>>(),
        spec.ignore_case
    );
    for (loc, content) in &spec.attr_files {
        let name = match loc {
            Loc::Dir(d) => show(&join(d, b".gitattributes")),
            Loc::Info => ".git/info/attributes".into(),
            Loc::Global => "core.attributesFile".into(),
        };
        s.push_str(&format!("| {name}: `{}` ", show(content)));
    }
    s
}

/// One assignment token of an attributes line: (name, is it the plain `name` form)
fn tokens_of_line(line: &[u8]) -> Option<(Vec<u8>, Vec<(Vec<u8>, bool)>)> {
    let line = line.trim_start_with(|c| c == ' ' || c == '\t' || c == '\r');
    if line.is_empty() || line[0] == b'#' {
        return None;
    }
    // first token: pattern or [attr]name, possibly C-quoted
    let mut end = 0;
    if line[0] == b'"' {
        let mut i = 1;
        let mut closed = false;
        while i < line.len() {
            match line[i] {
                b'\\' => i += 1,
                b'"' => {
                    closed = true;
                    break;
                }
                _ => {}
            }
            i += 1;
        }
        if closed {
            end = i + 1;
        }
    }
    if end == 0 {
        end = line.iter().position(|b| matches!(b, b' ' | b'\t' | b'\r')).unwrap_or(line.len());
    }
    let head = line[..end].to_vec();
    let toks = line[end..]
        .split(|b| matches!(b, b' ' | b'\t' | b'\r'))
        .filter(|t| !t.is_empty())
        .map(|t| {
            let prefixed = matches!(t[0], b'-' | b'!');
            let rest = if prefixed { &t[1..] } else { t };
            let name = rest.split(|b| *b == b'=').next().unwrap_or(b"").to_vec();
            (name, !prefixed && !rest.contains(&b'='))
        })
        .collect();
    Some((head, toks))
}

/// What the attribute files of a world contain, as far as the recorded deviation classes are concerned
struct Analysis {
    /// attribute names that can be influenced by: a macro that is assigned in another form than plain `m` somewhere
    reach_macro_not_set: Vec<Vec<u8>>,
    /// ... a line that has an assignment with an empty attribute name (`-`, `!`, `=v`)
    reach_empty_name: Vec<Vec<u8>>,
    /// ... a macro that is defined more than once (the built-in `binary` counts)
    reach_macro_redefined: Vec<Vec<u8>>,
    /// ... info/attributes, provided a .gitattributes below the root assigns something in that set as well
    reach_info_vs_subdir: Vec<Vec<u8>>,
    /// ... a line whose pattern is of the form `lit**...`
    reach_dstar: Vec<Vec<u8>>,
    /// ... a line that starts with the bare token `[attr]` (git: a bracket-expression pattern; gitoxide: a macro without name)
    reach_bare_attr: Vec<Vec<u8>>,
    /// ... a line that starts with a double quote which is never closed (git: the blank-delimited token is the pattern;
    /// gitoxide: the line is dropped)
    reach_bad_quote: Vec<Vec<u8>>,
}

fn analyse(spec: &Spec) -> Analysis {
    let mut bodies: Vec<(Vec<u8>, Vec<Vec<u8>>)> = vec![(
        b"binary".to_vec(),
        vec![b"diff".to_vec(), b"merge".to_vec(), b"text".to_vec()],
    )];
    struct Line {
        loc: Loc,
        names: Vec<Vec<u8>>,
        has_empty_name: bool,
        not_set: Vec<Vec<u8>>,
        dstar: bool,
        bad_quote: bool,
        bare_attr: bool,
        defines_macro: Option<Vec<u8>>,
    }
    let mut lines = Vec::new();
    let mut defined_in_root_or_info: Vec<Vec<u8>> = Vec::new();
    for (loc, content) in &spec.attr_files {
        let content = content.strip_prefix(b"\xef\xbb\xbf").unwrap_or(content);
        for l in content.lines() {
            let Some((head, toks)) = tokens_of_line(l) else { continue };
            let macros_ok = !matches!(loc, Loc::Dir(d) if !d.is_empty());
            if let Some(name) = head.strip_prefix(b"[attr]") {
                if macros_ok {
                    bodies.push((name.to_vec(), toks.iter().map(|t| t.0.clone()).collect()));
                    if !matches!(loc, Loc::Global) {
                        defined_in_root_or_info.push(name.to_vec());
                    }
                }
            }
            lines.push(Line {
                loc: loc.clone(),
                names: toks.iter().map(|t| t.0.clone()).collect(),
                defines_macro: head.strip_prefix(b"[attr]").filter(|n| !n.is_empty()).map(|n| n.to_vec()),
                has_empty_name: toks.iter().any(|t| t.0.is_empty()),
                // `[attr]` followed by a blank is an empty macro name for gitoxide, and a pattern (bracket expression) for git
                bare_attr: head == b"[attr]",
                not_set: toks.iter().filter(|t| !t.1).map(|t| t.0.clone()).collect(),
                dstar: doublestar_after_literal_prefix(&effective_pattern(&head)),
                bad_quote: head[0] == b'"' && {
                    // properly closed means: tokens_of_line() found the closing quote, i.e. the head ends with an
                    // unescaped quote that is not the opening one
                    let l = l.trim_start_with(|c| c == ' ' || c == '\t' || c == '\r');
                    let mut i = 1;
                    let mut closed = false;
                    while i < l.len() {
                        match l[i] {
                            b'\\' => i += 1,
                            b'"' => {
                                closed = true;
                                break;
                            }
                            _ => {}
                        }
                        i += 1;
                    }
                    !closed
                },
            });
        }
    }
    let closure = |start: Vec<Vec<u8>>| -> Vec<Vec<u8>> {
        let mut set = start;
        let mut i = 0;
        while i < set.len() {
            let cur = set[i].clone();
            for (name, body) in &bodies {
                if *name == cur {
                    for b in body {
                        if !set.contains(b) {
                            set.push(b.clone());
                        }
                    }
                }
            }
            i += 1;
        }
        set
    };
    let is_macro = |n: &Vec<u8>| bodies.iter().any(|(m, _)| m == n);
    // macro assigned in a form other than `m`: its body (not the macro attribute itself) is what gitoxide sets wrongly
    let mut start = Vec::new();
    for l in &lines {
        for n in &l.not_set {
            if is_macro(n) {
                for (m, body) in &bodies {
                    if m == n {
                        start.extend(body.iter().cloned());
                    }
                }
            }
        }
    }
    let reach_macro_not_set = closure(start);
    // if the line with the empty name is a macro definition, git drops that definition and gitoxide uses it: everything
    // that any definition of that macro can reach is affected
    let mut empty_name_start: Vec<Vec<u8>> =
        lines.iter().filter(|l| l.has_empty_name).flat_map(|l| l.names.iter().cloned()).collect();
    for l in lines.iter().filter(|l| l.has_empty_name) {
        if let Some(m) = &l.defines_macro {
            empty_name_start.push(m.clone());
            for (o, body) in &bodies {
                if o == m {
                    empty_name_start.extend(body.iter().cloned());
                }
            }
        }
    }
    let reach_empty_name = closure(empty_name_start);
    // An Outcome copies macro bodies when it is created and afterwards only when the NUMBER of known names changes. It
    // is created before the root .gitattributes and info/attributes are loaded, so macros that are defined there (for the
    // first time or again, also with an empty body) can be missing or stale, depending on which files were loaded since.
    let mut redefined = Vec::new();
    for (i, (m, _)) in bodies.iter().enumerate() {
        if bodies.iter().skip(i + 1).any(|(o, _)| o == m) {
            for (o, body) in &bodies {
                if o == m {
                    redefined.extend(body.iter().cloned());
                }
            }
        }
    }
    for (m, body) in &bodies {
        if defined_in_root_or_info.contains(m) {
            redefined.extend(body.iter().cloned());
        }
    }
    let reach_macro_redefined = closure(redefined);
    let info = closure(lines.iter().filter(|l| l.loc == Loc::Info).flat_map(|l| l.names.iter().cloned()).collect());
    let subdir = closure(
        lines
            .iter()
            .filter(|l| matches!(&l.loc, Loc::Dir(d) if !d.is_empty()))
            .flat_map(|l| l.names.iter().cloned())
            .collect(),
    );
    let reach_info_vs_subdir = info.into_iter().filter(|n| subdir.contains(n)).collect();
    let reach_dstar = closure(lines.iter().filter(|l| l.dstar).flat_map(|l| l.names.iter().cloned()).collect());
    let reach_bad_quote = closure(lines.iter().filter(|l| l.bad_quote).flat_map(|l| l.names.iter().cloned()).collect());
    let reach_bare_attr = closure(lines.iter().filter(|l| l.bare_attr).flat_map(|l| l.names.iter().cloned()).collect());
    Analysis {
        reach_bare_attr,
        reach_bad_quote,
        reach_dstar,
        reach_macro_not_set,
        reach_empty_name,
        reach_macro_redefined,
        reach_info_vs_subdir,
    }
}

/// `lit**...`: the first wildcard of the pattern is a `**` that follows a non-slash literal. git compares the literal
/// prefix separately and hands only the rest to wildmatch, where the `**` is then at the start of the pattern and may
/// match across directories; gitoxide matches the whole pattern, where it is an ordinary `*`.
fn doublestar_after_literal_prefix(pat: &[u8]) -> bool {
    let pat = pat.strip_prefix(b"/").unwrap_or(pat);
    match pat.iter().position(|b| matches!(b, b'*' | b'?' | b'[' | b'\\')) {
        Some(n) if n > 0 => pat[n - 1] != b'/' && pat[n..].starts_with(b"**"),
        _ => false,
    }
}

/// the pattern git uses for the first token of a line
fn effective_pattern(head: &[u8]) -> Vec<u8> {
    if head.len() >= 2 && head[0] == b'"' && head[head.len() - 1] == b'"' {
        let mut out = Vec::new();
        let inner = &head[1..head.len() - 1];
        let mut i = 0;
        while i < inner.len() {
            if inner[i] == b'\\' && i + 1 < inner.len() {
                i += 1;
                out.push(match inner[i] {
                    b't' => b'\t',
                    b'r' => b'\r',
                    b'n' => b'\n',
                    o => o,
                });
            } else {
                out.push(inner[i]);
            }
            i += 1;
        }
        out
    } else {
        head.to_vec()
    }
}

const SIG_BARE_ATTR: &str = "bare-attr-token-is-a-pattern-for-git";
const SIG_BAD_QUOTE: &str = "unterminated-quote-line-dropped";
const SIG_DSTAR: &str = "doublestar-after-literal-prefix";
const SIG_INFO: &str = "info-attributes-below-subdirectory-files";
const SIG_MACRO_NOT_SET: &str = "macro-expanded-although-not-set";
const SIG_MACRO_REDEF: &str = "macro-definition-not-refreshed-in-outcome";
const SIG_EMPTY_NAME: &str = "empty-attribute-name-accepted";

/// The recorded deviation class that can explain a difference in attribute `name`, if any
fn classify(a: &Analysis, name: &str) -> Option<&'static str> {
    let n = name.as_bytes().to_vec();
    if a.reach_bare_attr.contains(&n) {
        Some(SIG_BARE_ATTR)
    } else if a.reach_bad_quote.contains(&n) {
        Some(SIG_BAD_QUOTE)
    } else if a.reach_dstar.contains(&n) {
        Some(SIG_DSTAR)
    } else if a.reach_info_vs_subdir.contains(&n) {
        Some(SIG_INFO)
    } else if a.reach_macro_not_set.contains(&n) {
        Some(SIG_MACRO_NOT_SET)
    } else if a.reach_macro_redefined.contains(&n) {
        Some(SIG_MACRO_REDEF)
    } else if a.reach_empty_name.contains(&n) {
        Some(SIG_EMPTY_NAME)
    } else {
        None
    }
}

/// Triage helper for pinning known findings: `VP_PIN=<signature>` makes failures of that class carry an unknown signature
/// (`<signature>#pin`) so that the runner shrinks them and writes a case file even though the class is listed as known.
fn pin(sig: &str) -> String {
    match std::env::var("VP_PIN") {
        Ok(p) if p == sig => format!("{sig}#pin"),
        _ => sig.to_string(),
    }
}
fn pinning() -> bool {
    std::env::var_os("VP_PIN").is_some()
}

/// `C38_PROBE=<worktree> c38 path...`: gitoxide's attributes per path (a trailing slash = directory); triage helper
fn probe(dir: &str) {
    let repo = gix::open_opts(dir, gix::open::Options::isolated()).expect("open");
    let index = repo.index_or_empty().expect("index");
    let mut stack = repo
        .attributes_only(&index, gix::worktree::stack::state::attributes::Source::WorktreeThenIdMapping)
        .expect("stack");
    let mut out = stack.attribute_matches();
    for q in std::env::args().skip(1) {
        let platform = stack.at_entry(q.as_bytes().as_bstr(), None).expect("at_entry");
        platform.matching_attributes(&mut out);
        let all: Vec<String> = out.iter().map(|m| m.assignment.to_string()).collect();
        println!("{q}\t{}", all.join(" "));
    }
}

fn main() {
    if let Ok(dir) = std::env::var("C38_PROBE") {
        probe(&dir);
        return;
    }
    let mut ck = Check::new("C38", "exploration");
    ck.rule("Worktrees with up to 7 directories (depth <= 4) and 2..12 files (names with case variants, blanks, quotes and glob characters); attribute files at random levels (.gitattributes per directory, info/attributes, core.attributesFile) with 1..7 lines: patterns derived from existing paths (basename, relative, anchored, *affix, ** forms, one character globbed, pool), C-quoted when needed, badly quoted, negative (ignored by git), with trailing '/', case flips; 0..4 assignments per line out of 12 attribute names and 4 macro names in the forms a, -a, !a, a=v (9 values incl. empty) and odd forms (-a=v, invalid names); macro definitions ([attr]m ... incl. redefinition of 'binary', macros using macros, self reference, invalid macro names) in the places where git allows them and misplaced in sub-directories; comments, blank lines, CRLF, BOM, missing final newline; core.ignoreCase on (1/4) or off. Queries: every file, every directory as directory (and sometimes as plain path), 3..10 paths that do not exist, shuffled, on one shared stack. NON-TRIVIAL world: some answer of git comes from a macro expansion (an attribute that is only assigned inside a macro definition is specified for some path) or some attribute name is assigned in >= 2 different attribute files. Distinct by world description.");
    ck.assume(&format!("oracle: {} check-attr -z --stdin <18 names>, one call per world, empty index, GIT_ATTR_NOSYSTEM=1", Git::version()));
    ck.assume("a non-directory path is never used as leading directory of another query on the same stack (gix_fs::Stack requires terminal paths); such paths get a stack and outcomes of their own");
    ck.assume("disagreements that belong to a recorded deviation class (signatures in known_findings.json; decided per differing attribute: it must be reachable, through macro bodies, from the construct that defines the class) fail the world only in 1 of 4 worlds ('strict-world'); elsewhere they are tolerated and counted as 'tolerated:<signature>' labels; where the full view deviates in a recorded way the two selection views are compared with the full view instead of git; any other disagreement fails in every world");
    ck.assume("attribute values never equal the words set/unset/unspecified (check-attr output would be ambiguous); upper-case letters are not generated inside bracket expressions (wildmatch case-folding deviation recorded under C36); core.attributesFile is always configured");

    ck.sub("world", SubCfg::new(1000, 25_000).max_len(3000).max_shrink(60), |t, c| {
        // see C37: recorded deviation classes fail the world in 1 of 4 worlds (strict) and are tolerated and counted in the
        // others, so that the search continues behind them; anything outside these classes fails at once everywhere
        let strict = t.chance(64);
        if pinning() && !strict {
            // pinned tapes must fail when replayed without VP_PIN: only strict worlds may be shrunk
            c.discard();
            return;
        }
        c.label(if strict { "strict-world" } else { "tolerant-world" });
        let early_outcome = t.chance(32);
        c.label(if early_outcome { "outcome-created-before-root-is-loaded" } else { "outcome-created-after-root-is-loaded" });
        let spec = gen_spec(t, c);
        c.key(&(&spec, early_outcome));
        let mut analysis = analyse(&spec);
        if !early_outcome {
            analysis.reach_macro_redefined.clear();
        }
        let mut deferred: Option<(&'static str, String)> = None;
        let world = infra!(c, build(&spec), "build world");
        let git = infra!(c, git_answers(&world, &spec), "git check-attr");
        let root = world.repo();
        let repo = infra!(
            c,
            gix::open_opts(&root, gix::open::Options::isolated()).map_err(|e| e.to_string()),
            "gix open"
        );
        let index = infra!(c, repo.index_or_empty().map_err(|e| e.to_string()), "gix index");
        let source = gix::worktree::stack::state::attributes::Source::WorktreeThenIdMapping;
        let mut stack = match repo.attributes_only(&index, source) {
            Ok(s) => s,
            Err(e) => {
                c.fail(format!("Repository::attributes_only() failed: {e}"));
                return;
            }
        };
        // An Outcome that is created before the root .gitattributes and info/attributes are loaded (which happens on the first
        // at_entry()) can miss macro definitions (recorded class macro-definition-not-refreshed-in-outcome). That call
        // order is used in 1 of 8 worlds; in the others the root is loaded first, so that this class cannot occur and
        // cannot be mistaken for other macro-related disagreements.
        if !early_outcome {
            if let Err(e) = stack.at_entry("probe-to-load-the-root".as_bytes().as_bstr(), None) {
                c.fail(format!("at_entry() failed: {e}"));
                return;
            }
        }
        let mut out_all = stack.attribute_matches();
        let mut out_sel = stack.selected_attribute_matches(spec.names.iter().copied());
        let mut out_sub = stack.selected_attribute_matches(spec.sub_selection.iter().copied());

        // non-trivial: macro expansion visible, or an attribute assigned in several files
        let mut assigned_in: BTreeMap<&str, usize> = BTreeMap::new();
        let mut only_in_macro_bodies: Vec<&str> = Vec::new();
        for name in ATTRS {
            let mut files_with = 0;
            let mut in_pattern_line = false;
            let mut in_macro_body = false;
            for (_, content) in &spec.attr_files {
                let mut here = false;
                for line in content.lines() {
                    let is_macro = line.trim_start().starts_with(b"[attr]");
                    let has = line
                        .fields()
                        .skip(1)
                        .any(|f| f.trim_start_with(|c| c == '-' || c == '!').split_str("=").next() == Some(name.as_bytes()));
                    if has {
                        here = true;
                        if is_macro {
                            in_macro_body = true;
                        } else {
                            in_pattern_line = true;
                        }
                    }
                }
                files_with += here as usize;
            }
            assigned_in.insert(name, files_with);
            if in_macro_body && !in_pattern_line {
                only_in_macro_bodies.push(name);
            }
        }
        let multi_file = assigned_in.values().any(|n| *n >= 2);
        let mut via_macro = false;
        let mut n_specified = 0usize;

        for ((q, as_dir), g) in spec.queries.iter().zip(git.iter()) {
            for n in &only_in_macro_bodies {
                via_macro |= g.get(*n).map_or(false, |s| *s != St::Unspecified);
            }
            n_specified += g.values().filter(|s| **s != St::Unspecified).count();
            let mode = if *as_dir {
                Some(gix::index::entry::Mode::DIR)
            } else if spec.files.contains(q) {
                Some(gix::index::entry::Mode::FILE)
            } else {
                None
            };
            // a path that is not queried as directory must not be a leading directory of another query on the same stack
            // (gix_fs::Stack: paths must be terminal)
            let used_as_dir_elsewhere = !spec.dirs.contains(q)
                && spec
                    .queries
                    .iter()
                    .any(|(o, _)| o.len() > q.len() && o.starts_with(q) && o[q.len()] == b'/');
            let mut own_stack;
            let mut own_outcomes = None;
            let st = if used_as_dir_elsewhere {
                own_stack = match repo.attributes_only(&index, source) {
                    Ok(s) => s,
                    Err(e) => {
                        c.fail(format!("Repository::attributes_only() failed: {e}"));
                        return;
                    }
                };
                if !early_outcome {
                    if let Err(e) = own_stack.at_entry("probe-to-load-the-root".as_bytes().as_bstr(), None) {
                        c.fail(format!("at_entry() failed: {e}"));
                        return;
                    }
                }
                own_outcomes = Some((
                    own_stack.attribute_matches(),
                    own_stack.selected_attribute_matches(spec.names.iter().copied()),
                    own_stack.selected_attribute_matches(spec.sub_selection.iter().copied()),
                ));
                &mut own_stack
            } else {
                &mut stack
            };
            let platform = match st.at_entry(q.as_bstr(), mode) {
                Ok(p) => p,
                Err(e) => {
                    c.fail(format!("at_entry({:?}) failed: {e}", q.as_bstr()));
                    return;
                }
            };
            // an Outcome belongs to the attribute collection of the stack it was created from
            let (mut own_all, mut own_sel, mut own_sub);
            let (out_all, out_sel, out_sub) = if let Some(own) = own_outcomes {
                (own_all, own_sel, own_sub) = own;
                (&mut own_all, &mut own_sel, &mut own_sub)
            } else {
                (&mut out_all, &mut out_sel, &mut out_sub)
            };
            // 1. all attributes
            platform.matching_attributes(out_all);
            let mut ours_all: BTreeMap<String, St> = BTreeMap::new();
            for m in out_all.iter() {
                ours_all.insert(m.assignment.name.as_str().to_string(), to_st(m.assignment.state));
            }
            // 2. selection of all names, 3. sub-selection
            platform.matching_attributes(out_sel);
            let ours_sel: Vec<(String, St)> = out_sel
                .iter_selected()
                .map(|m| (m.assignment.name.as_str().to_string(), to_st(m.assignment.state)))
                .collect();
            platform.matching_attributes(out_sub);
            let ours_sub: Vec<(String, St)> = out_sub
                .iter_selected()
                .map(|m| (m.assignment.name.as_str().to_string(), to_st(m.assignment.state)))
                .collect();

            let ctx = |how: &str, name: &str, ours: &St, want: &St| {
                format!(
                    "path {:?}{} attribute `{name}` ({how}): git says {}, gitoxide says {} (ignoreCase={}); world: {}",
                    q.as_bstr(),
                    if *as_dir { "/ (as directory)" } else { "" },
                    show_st(want),
                    show_st(ours),
                    spec.ignore_case,
                    describe_world(&spec)
                )
            };
            let diffs: Vec<String> = spec
                .names
                .iter()
                .filter_map(|name| {
                    let want = &g[*name];
                    let ours = ours_all.get(*name).cloned().unwrap_or(St::Unspecified);
                    (ours != *want).then(|| format!("{name}: git {} / gitoxide {}", show_st(want), show_st(&ours)))
                })
                .collect();
            let differing: Vec<&str> = spec
                .names
                .iter()
                .copied()
                .filter(|name| ours_all.get(*name).cloned().unwrap_or(St::Unspecified) != g[*name])
                .collect();
            if !differing.is_empty() {
                let name = differing[0].to_string();
                let want = &g[name.as_str()];
                let ours = ours_all.get(name.as_str()).cloned().unwrap_or(St::Unspecified);
                let msg = format!("{} ALL DIFFERENCES for this path: {:?}", ctx("all attributes", &name, &ours, want), diffs);
                let classes: Vec<Option<&'static str>> = differing.iter().map(|n| classify(&analysis, n)).collect();
                if classes.iter().any(|c| c.is_none()) {
                    c.fail(msg);
                    return;
                }
                let sig = classes[0].expect("checked");
                if strict {
                    deferred.get_or_insert((sig, msg));
                } else {
                    c.label(match sig {
                        SIG_DSTAR => "tolerated:doublestar-after-literal-prefix",
                        SIG_BAD_QUOTE => "tolerated:unterminated-quote-line-dropped",
                        SIG_BARE_ATTR => "tolerated:bare-attr-token-is-a-pattern-for-git",
                        SIG_INFO => "tolerated:info-attributes-below-subdirectory-files",
                        SIG_MACRO_NOT_SET => "tolerated:macro-expanded-although-not-set",
                        SIG_MACRO_REDEF => "tolerated:macro-definition-not-refreshed-in-outcome",
                        _ => "tolerated:empty-attribute-name-accepted",
                    });
                }
            }
            // the selections must agree with git; where the full view already deviates in a recorded way, with the full view
            let reference = |name: &str| -> St {
                if differing.is_empty() {
                    g[name].clone()
                } else {
                    ours_all.get(name).cloned().unwrap_or(St::Unspecified)
                }
            };
            // names gitoxide reports that were not asked of git would be attributes that nobody wrote
            for (name, st) in &ours_all {
                if !spec.names.contains(&name.as_str()) && *st != St::Unspecified {
                    let msg = format!(
                        "gitoxide reports attribute `{name}` = {} for {:?}, which is not a valid attribute name; world: {}",
                        show_st(st),
                        q.as_bstr(),
                        describe_world(&spec)
                    );
                    if name.is_empty() {
                        if strict {
                            deferred.get_or_insert((SIG_EMPTY_NAME, msg));
                        } else {
                            c.label("tolerated:empty-attribute-name-accepted");
                        }
                    } else {
                        c.fail(msg);
                        return;
                    }
                }
            }
            ensure!(
                c,
                ours_sel.len() == spec.names.len(),
                "iter_selected() yields {} items for {} selected names",
                ours_sel.len(),
                spec.names.len()
            );
            for ((name, ours), asked) in ours_sel.iter().zip(spec.names.iter()) {
                ensure!(c, name == asked, "iter_selected() order: got `{name}` where `{asked}` was selected");
                let want = &reference(asked);
                ensure!(c, ours == want, "{}", ctx("selection of all names", name, ours, want));
            }
            ensure!(
                c,
                ours_sub.len() == spec.sub_selection.len(),
                "iter_selected() yields {} items for {} selected names",
                ours_sub.len(),
                spec.sub_selection.len()
            );
            for ((name, ours), asked) in ours_sub.iter().zip(spec.sub_selection.iter()) {
                ensure!(c, name == asked, "iter_selected() order: got `{name}` where `{asked}` was selected");
                let want = &reference(asked);
                ensure!(
                    c,
                    ours == want,
                    "{}",
                    ctx(&format!("sub-selection {:?}", spec.sub_selection), name, ours, want)
                );
            }
        }
        c.label_if(via_macro, "resolved-via-macro");
        c.label_if(multi_file, "attribute-in-2+-files");
        c.label_if(n_specified == 0, "nothing-specified");
        c.nontrivial(via_macro || multi_file);
        c.sample_with(|| describe_world(&spec));
        if let Some((sig, msg)) = deferred {
            c.fail_sig(&pin(sig), msg);
        }
    });
    ck.finish();
}
