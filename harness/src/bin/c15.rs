//! C15 — reference names are validated like git; sanitizing always yields a valid name.
//!
//! Sub-checks
//! * `model`    : gitoxide's three entry points against a transcription of git's `check_refname_format`
//!                (refs.c, git 2.39); every disagreement is put to real git before it is reported (3-way vote).
//! * `sanitize` : `name_partial_or_sanitize` returns, its output validates (gitoxide and model), is idempotent.
//! * `git-vote` : batches of names put to real `git check-ref-format [--allow-onelevel]` (and to
//!                `git update-ref --stdin -z` for names with a leading '-'), compared with gitoxide *and* the model.
use gix_object::bstr::{BString, ByteSlice};
use std::ffi::OsStr;
use std::os::unix::ffi::OsStrExt;
use vp::*;

// ---------------------------------------------------------------------------------------------
// reference model: git's refs.c check_refname_format(), transcribed

/// 0 ok, 1 end of component, 2 '.', 3 '{', 4 bad, 5 '*'
fn disposition(b: u8) -> u8 {
    match b {
        b'/' => 1,
        b'.' => 2,
        b'{' => 3,
        // NUL terminates a C string; an *embedded* NUL cannot be given to git at all. It is an ASCII control
        // character, which the documentation of check-ref-format rejects: treated as bad.
        0..=0x20 | 0x7f | b':' | b'?' | b'[' | b'\\' | b'^' | b'~' => 4,
        b'*' => 5,
        _ => 0,
    }
}

fn git_model(name: &[u8], allow_onelevel: bool) -> bool {
    if name == b"@" {
        return false;
    }
    let mut rest = name;
    let mut components = 0;
    loop {
        let mut last = 0u8;
        let mut i = 0;
        while i < rest.len() {
            let ch = rest[i];
            match disposition(ch) {
                1 => break,
                2 if last == b'.' => return false,
                3 if last == b'@' => return false,
                4 | 5 => return false,
                _ => {}
            }
            last = ch;
            i += 1;
        }
        if i == 0 {
            return false; // zero length component
        }
        if rest[0] == b'.' {
            return false;
        }
        if i >= 5 && &rest[i - 5..i] == b".lock" {
            return false;
        }
        components += 1;
        if i == rest.len() {
            if rest[i - 1] == b'.' {
                return false;
            }
            break;
        }
        rest = &rest[i + 1..];
    }
    allow_onelevel || components >= 2
}

// ---------------------------------------------------------------------------------------------
// real git

struct GitOracle {
    scratch: Scratch,
    inited: bool,
}

impl GitOracle {
    fn new() -> Result<GitOracle, String> {
        Ok(GitOracle {
            scratch: Scratch::new("c15").map_err(|e| e.to_string())?,
            inited: false,
        })
    }
    fn git(&self) -> Git {
        Git::new(&self.scratch.path, &self.scratch.path)
    }
    /// Does git accept `name`? `None` when the question cannot be put to git (embedded NUL).
    fn accepts(&mut self, name: &[u8], allow_onelevel: bool) -> Result<Option<bool>, String> {
        if name.contains(&0) {
            return Ok(None);
        }
        if name.first() == Some(&b'-') {
            // check-ref-format would take it for an option. `update-ref --stdin -z` runs
            // check_refname_format(name, REFNAME_ALLOW_ONELEVEL) and dies with "invalid ref format".
            if !self.inited {
                self.git().run(["init", "-q", "--bare", "repo"])?;
                self.inited = true;
            }
            let g = self.git().at(self.scratch.join("repo"));
            let mut stdin = b"verify ".to_vec();
            stdin.extend_from_slice(name);
            stdin.extend_from_slice(b"\0\0");
            let (ok, _out, err) = g.try_run(["update-ref", "--stdin", "-z"], Some(&stdin))?;
            let err = String::from_utf8_lossy(&err).to_string();
            let onelevel = if ok || err.contains("refusing to update ref with bad name") {
                true
            } else if err.contains("invalid ref format") {
                false
            } else {
                return Err(format!("unexpected update-ref reply for {:?}: {err}", name.as_bstr()));
            };
            // check_refname_format without ALLOW_ONELEVEL additionally wants two components
            return Ok(Some(if allow_onelevel {
                onelevel
            } else {
                onelevel && name.contains(&b'/')
            }));
        }
        let mut args: Vec<&OsStr> = vec![OsStr::new("check-ref-format")];
        if allow_onelevel {
            args.push(OsStr::new("--allow-onelevel"));
        }
        args.push(OsStr::from_bytes(name));
        let out = self.git().output(args, None).map_err(|e| format!("spawn git: {e}"))?;
        match out.status.code() {
            Some(0) => Ok(Some(true)),
            Some(1) => Ok(Some(false)),
            other => Err(format!(
                "git check-ref-format {:?}: unexpected exit {:?}: {}",
                name.as_bstr(),
                other,
                String::from_utf8_lossy(&out.stderr)
            )),
        }
    }
}

// ---------------------------------------------------------------------------------------------
// generator

const SPECIAL: &[&[u8]] = &[
    b".", b"/", b"@", b"{", b"*", b":", b"~", b"^", b"?", b"[", b"\\", b" ", b"\x7f", b"\x01", b"\x80", b"\xff",
    b".lock", b"..", b"@{", b"//", b"\t", b"\n", b"\x1f", b"/.", b"./", b".lock/", b"/.lock", b".lock.lock", b"lock",
    b"-", b"_", b"]", b"}", b"@/", b"/@", b"\xc3\xa4", b"!", b"\"", b"#", b"$", b"%", b"&", b"'", b"(", b")", b"+",
    b",", b";", b"<", b"=", b">", b"`", b"|",
];
const WORDS: &[&[u8]] = &[
    b"a", b"b", b"main", b"HEAD", b"X_Y", b"refs", b"heads", b"tags", b"v1.0", b"FETCH_HEAD", b"A", b"Z9", b"x-y", b"lock",
    b"@", b"a.b", b"l", b"o.l",
];
const RAW_ALPHA: &[u8] = b"./@{*:~^?[\\ \x7f\x01\x80\xffabAZ_-lock09]}\t";

fn is_special_fragment(f: &[u8]) -> bool {
    SPECIAL.contains(&f) && !matches!(f, b"-" | b"_" | b"lock")
}

struct Name {
    bytes: Vec<u8>,
    /// number of distinct special fragments used in building it (for the non-trivial rule)
    special: usize,
    class: &'static str,
}

fn gen_valid(t: &mut Tape) -> Vec<u8> {
    let n = t.weighted(&[3, 3, 3, 1]) + 1;
    let mut v = Vec::new();
    for i in 0..n {
        if i > 0 {
            v.push(b'/');
        }
        v.extend_from_slice(*t.pick(WORDS));
        if t.chance(40) {
            v.extend_from_slice(*t.pick(WORDS));
        }
    }
    v
}

fn gen_name(t: &mut Tape) -> Name {
    let mut used: Vec<&[u8]> = Vec::new();
    let mut note = |f: &'static [u8], used: &mut Vec<&[u8]>| {
        if is_special_fragment(f) && !used.contains(&f) {
            used.push(f);
        }
    };
    let (bytes, class): (Vec<u8>, &'static str) = match t.weighted(&[5, 7, 3, 2, 3, 2]) {
        // fragments
        0 => {
            let n = t.range(0, 8);
            let mut v = Vec::new();
            for _ in 0..n {
                if t.chance(120) {
                    v.extend_from_slice(*t.pick(WORDS));
                } else {
                    let f: &'static [u8] = *t.pick(SPECIAL);
                    note(f, &mut used);
                    v.extend_from_slice(f);
                }
            }
            (v, "gen-fragments")
        }
        // valid name with 0..3 mutations: exactly the rule under the mutation decides
        1 => {
            let mut v = gen_valid(t);
            let m = t.weighted(&[2, 5, 3, 1]);
            for _ in 0..m {
                let f: &'static [u8] = *t.pick(SPECIAL);
                note(f, &mut used);
                let pos = match t.weighted(&[2, 2, 4]) {
                    0 => 0,
                    1 => v.len(),
                    _ => t.below(v.len() + 1),
                };
                if t.chance(40) && pos < v.len() {
                    // replace one byte
                    v.splice(pos..pos + 1, f.iter().copied());
                } else {
                    v.splice(pos..pos, f.iter().copied());
                }
            }
            (v, "gen-mutated-valid")
        }
        // raw over the alphabet
        2 => {
            let v = t.string_of(RAW_ALPHA, 0, 40);
            for f in SPECIAL {
                if is_special_fragment(f) && v.find(f).is_some() && !used.contains(f) {
                    used.push(f);
                }
            }
            (v, "gen-raw")
        }
        // separators only
        3 => {
            let v = t.string_of(b"//./", 0, 6);
            (v, "gen-separators")
        }
        // one-level, mostly upper-case
        4 => {
            let mut v = t.string_of(b"ABHEADXYZ_", 0, 10);
            if t.chance(60) {
                let p = t.below(v.len() + 1);
                v.insert(p, *t.pick(b"-a0.@z/"));
            }
            (v, "gen-onelevel-upper")
        }
        // embedded NUL or other low control, in an otherwise valid name (model only)
        _ => {
            let mut v = gen_valid(t);
            let p = t.below(v.len() + 1);
            v.insert(p, *t.pick(&[0u8, 0, 1, 0x1f, 0x7f, 0x20]));
            (v, "gen-control")
        }
    };
    Name {
        bytes,
        special: used.len(),
        class,
    }
}

/// gitoxide's documented one-level rule for complete names
fn gix_onelevel_rule(name: &[u8]) -> bool {
    name.iter().all(|b| b.is_ascii_uppercase() || *b == b'_')
}
/// git's pseudo-ref syntax admits '-' as well: names of upper-case, '_' and at least one '-' are ambiguous
fn ambiguous_onelevel(name: &[u8]) -> bool {
    !name.contains(&b'/')
        && name.contains(&b'-')
        && name.iter().all(|b| b.is_ascii_uppercase() || *b == b'_' || *b == b'-')
}

fn reduces_to_empty(name: &[u8]) -> bool {
    name.iter().all(|b| *b == b'/')
}

/// What the property demands for `reference::name()` given git's verdicts; None = excluded (ambiguous)
fn expected_complete(name: &[u8], git_full: bool, git_onelevel: bool) -> Option<bool> {
    if name.contains(&b'/') {
        Some(git_full)
    } else if ambiguous_onelevel(name) {
        None
    } else {
        Some(git_onelevel && gix_onelevel_rule(name))
    }
}

fn gix_partial(name: &[u8]) -> bool {
    gix_validate::reference::name_partial(name.as_bstr()).is_ok()
}
fn gix_complete(name: &[u8]) -> bool {
    gix_validate::reference::name(name.as_bstr()).is_ok()
}

/// A model/gitoxide disagreement: ask git. Returns Err(infra message) when the model is the one that is wrong.
fn vote(name: &[u8], allow_onelevel: bool, model: bool) -> Result<(), String> {
    let mut g = GitOracle::new()?;
    match g.accepts(name, allow_onelevel)? {
        None => Ok(()), // not expressible: the model stands
        Some(git) if git == model => Ok(()),
        Some(git) => Err(format!(
            "MODEL-BUG: model says {model} but git says {git} for {:?} (allow_onelevel={allow_onelevel})",
            name.as_bstr()
        )),
    }
}

fn check_validation(c: &mut Case, name: &[u8], m_one: bool, m_full: bool) {
    let partial = gix_partial(name);
    if partial != m_one {
        if let Err(e) = vote(name, true, m_one) {
            c.infra(e);
            return;
        }
        let sig = if name == b"@" { "lone-at" } else { "partial-vs-git" };
        c.fail_sig(
            sig,
            format!(
                "name_partial({:?}) accepted={partial} but git check-ref-format --allow-onelevel accepted={m_one}",
                name.as_bstr()
            ),
        );
        return;
    }
    let complete = gix_complete(name);
    match expected_complete(name, m_full, m_one) {
        None => c.label("excluded_ambiguous"),
        Some(want) => {
            if complete != want {
                let multi = name.contains(&b'/');
                if let Err(e) = vote(name, !multi, if multi { m_full } else { m_one }) {
                    c.infra(e);
                    return;
                }
                c.fail_sig(
                    "complete-vs-git",
                    format!(
                        "reference::name({:?}) accepted={complete}, expected {want} (git full={m_full}, git one-level={m_one}, one-level rule [A-Z_]+={})",
                        name.as_bstr(),
                        gix_onelevel_rule(name)
                    ),
                );
                return;
            }
        }
    }
    // the gix-ref conversions are the same decision
    let owned: BString = name.into();
    let pn = gix_ref::PartialName::try_from(owned.clone()).is_ok();
    let fnm = gix_ref::FullName::try_from(owned.clone()).is_ok();
    let pnr = <&gix_ref::PartialNameRef>::try_from(owned.as_bstr()).is_ok();
    let fnr = <&gix_ref::FullNameRef>::try_from(owned.as_bstr()).is_ok();
    if pn != partial || pnr != partial || fnm != complete || fnr != complete {
        c.fail_sig(
            "gix-ref-conversion",
            format!(
                "gix-ref conversions disagree with gix-validate for {:?}: PartialName={pn} PartialNameRef={pnr} (name_partial={partial}), FullName={fnm} FullNameRef={fnr} (name={complete})",
                name.as_bstr()
            ),
        );
    }
}

fn check_sanitize(c: &mut Case, name: &[u8], m_one: bool) -> Option<BString> {
    // a panic here is caught by the runner: signature panic:gix-validate/src/tag.rs:<line>
    let out = gix_validate::reference::name_partial_or_sanitize(name.as_bstr());
    let lone_at = out.as_slice() == b"@";
    if !gix_partial(&out) {
        c.fail_sig(
            "sanitize-output-invalid",
            format!(
                "name_partial_or_sanitize({:?}) = {:?} which name_partial() rejects",
                name.as_bstr(),
                out
            ),
        );
        return None;
    }
    if !git_model(&out, true) {
        if let Err(e) = vote(&out, true, false) {
            c.infra(e);
            return None;
        }
        c.fail_sig(
            if lone_at { "lone-at" } else { "sanitize-output-rejected-by-git" },
            format!(
                "name_partial_or_sanitize({:?}) = {:?} which git check-ref-format --allow-onelevel rejects",
                name.as_bstr(),
                out
            ),
        );
        return None;
    }
    if m_one && out.as_slice() != name {
        c.fail_sig(
            "sanitize-changes-valid",
            format!("valid name {:?} was changed to {:?} by sanitizing", name.as_bstr(), out),
        );
        return None;
    }
    // sanitizing is a projection
    let again = gix_validate::reference::name_partial_or_sanitize(out.as_ref());
    if again != out {
        c.fail_sig(
            "sanitize-not-idempotent",
            format!("sanitize({:?}) = {:?}, sanitized again = {:?}", name.as_bstr(), out, again),
        );
        return None;
    }
    Some(out)
}

fn labels(c: &mut Case, n: &Name, m_one: bool) {
    c.label(n.class);
    let b = &n.bytes;
    c.label(if m_one { "git-accepts-onelevel" } else { "git-rejects" });
    c.label(if b.contains(&b'/') { "multi-level" } else { "one-level" });
    c.label_if(b.is_empty(), "empty");
    c.label_if(!b.is_empty() && reduces_to_empty(b), "only-slashes");
    c.label_if(
        !b.is_empty() && b.iter().all(|x| *x == b'/' || *x == b'.'),
        "only-separators",
    );
    c.label_if(b.as_slice() == b"@", "lone-at");
    c.label_if(b.find(b".lock").is_some(), "has-.lock");
    c.label_if(b.find(b"@{").is_some(), "has-@{");
    c.label_if(b.find(b"..").is_some(), "has-..");
    c.label_if(b.contains(&0), "has-nul");
    c.label_if(b.iter().any(|x| *x >= 0x80), "non-ascii");
    c.label_if(!b.is_empty() && !b.contains(&b'/') && gix_onelevel_rule(b), "one-level-upper");
    c.label_if(b.first() == Some(&b'-'), "leading-dash");
    c.nontrivial(n.special >= 2 || reduces_to_empty(b));
}

pub fn main() {
    let mut ck = Check::new("C15", "exploration");
    ck.rule("Byte strings of length 0..~45 from six generators: special fragments ('.', '/', '@', '{', '*', ':', '~', '^', '?', '[', '\\\\', SP, TAB, LF, DEL, 0x01, 0x1f, 0x80, 0xff, '.lock', '..', '@{', '//', '/.', './', ...) mixed with words; valid multi-component names with 0..3 inserted/replacing special fragments at start/end/random position; raw strings over the special alphabet; strings of only '/' and '.'; one-level mostly upper-case names; names with one embedded control byte incl. NUL. Non-trivial: >= 2 distinct special fragments, or the name is empty/only slashes (reduces to empty). Distinct by name bytes.");
    ck.assume(&format!(
        "oracle: {} check-ref-format [--allow-onelevel]; names with a leading '-' (an option to check-ref-format) are put to `git update-ref --stdin -z` (verify), whose 'invalid ref format' error is check_refname_format(ALLOW_ONELEVEL); for those the no-flag verdict is derived as onelevel && contains '/'",
        Git::version()
    ));
    ck.assume("names with an embedded NUL cannot be given to git: the model rejects them as ASCII control characters (git-check-ref-format(1))");
    ck.assume("one-level names for reference::name(): accepted iff git --allow-onelevel accepts and the name matches gitoxide's documented rule [A-Z_]+; names of upper-case/'_' with at least one '-' (git's pseudo-ref syntax admits '-') are excluded from the iff (label excluded_ambiguous)");
    ck.assume("the harness model is git 2.39 refs.c check_refname_format transcribed; every model/gitoxide disagreement is confirmed with real git before it is reported, and the git-vote sub-check validates the model on every run");

    ck.sub("model", SubCfg::new(60_000, 2_000_000).max_len(96), |t, c| {
        let n = gen_name(t);
        c.key(&n.bytes);
        let m_one = git_model(&n.bytes, true);
        let m_full = git_model(&n.bytes, false);
        labels(c, &n, m_one);
        c.sample_with(|| format!("{:?} git-onelevel={m_one} git-full={m_full}", n.bytes.as_bstr()));
        check_validation(c, &n.bytes, m_one, m_full);
    });

    ck.sub("sanitize", SubCfg::new(60_000, 2_000_000).max_len(96), |t, c| {
        let n = gen_name(t);
        c.key(&n.bytes);
        let m_one = git_model(&n.bytes, true);
        labels(c, &n, m_one);
        let out = check_sanitize(c, &n.bytes, m_one);
        if let Some(out) = out {
            c.label_if(out.as_slice() != n.bytes.as_slice(), "changed");
            c.label_if(out.as_slice() == b"-", "became-dash");
            c.sample_with(|| format!("{:?} -> {:?}", n.bytes.as_bstr(), out));
        }
    });

    // one case = 10 names put to real git (2 processes each, 3 with the sanitized form)
    ck.sub("git-vote", SubCfg::new(200, 5_000).max_len(1024).max_shrink(40), |t, c| {
        let mut names = Vec::new();
        for _ in 0..10 {
            let n = gen_name(t);
            if n.bytes.contains(&0) {
                continue;
            }
            names.push(n);
        }
        let key: Vec<&Vec<u8>> = names.iter().map(|n| &n.bytes).collect();
        c.key(&key);
        c.nontrivial(names.iter().any(|n| n.special >= 2 || reduces_to_empty(&n.bytes)));
        c.sample_with(|| format!("{:?}", names.iter().map(|n| n.bytes.as_bstr()).collect::<Vec<_>>()));
        let mut g = infra!(c, GitOracle::new(), "scratch");
        // failures of the lone-'@' class are reported only if nothing else fails in the batch, so that the
        // search continues behind that (known) class
        let mut deferred: Option<String> = None;
        for n in &names {
            let b = &n.bytes;
            c.label(n.class);
            let g_one = infra!(c, g.accepts(b, true), "git").expect("no NUL");
            let g_full = infra!(c, g.accepts(b, false), "git").expect("no NUL");
            c.label(if g_one { "git-accepts-onelevel" } else { "git-rejects" });
            c.label_if(b.first() == Some(&b'-'), "leading-dash");
            // model validation (every run)
            if git_model(b, true) != g_one || git_model(b, false) != g_full {
                c.infra(format!(
                    "MODEL-BUG: {:?}: model onelevel={} full={} but git onelevel={g_one} full={g_full}",
                    b.as_bstr(),
                    git_model(b, true),
                    git_model(b, false)
                ));
                return;
            }
            // gitoxide against git directly
            let partial = gix_partial(b);
            if partial != g_one {
                let msg = format!(
                    "name_partial({:?}) accepted={partial} but git check-ref-format --allow-onelevel accepted={g_one}",
                    b.as_bstr()
                );
                if b.as_slice() == b"@" {
                    c.label("lone-at");
                    deferred.get_or_insert(msg);
                } else {
                    c.fail_sig("partial-vs-git", msg);
                    return;
                }
            }
            match expected_complete(b, g_full, g_one) {
                None => c.label("excluded_ambiguous"),
                Some(want) => {
                    let complete = gix_complete(b);
                    ensure_sig!(
                        c,
                        "complete-vs-git",
                        complete == want,
                        "reference::name({:?}) accepted={complete}, expected {want} (git full={g_full}, one-level={g_one})",
                        b.as_bstr()
                    );
                }
            }
            // sanitized form against git directly
            let out = gix_validate::reference::name_partial_or_sanitize(b.as_bstr());
            let g_out = if out.as_slice() == b.as_slice() {
                Some(g_one) // same question as above
            } else {
                infra!(c, g.accepts(&out, true), "git")
            };
            if g_out != Some(true) {
                let msg = format!(
                    "name_partial_or_sanitize({:?}) = {:?} which git check-ref-format --allow-onelevel rejects",
                    b.as_bstr(),
                    out
                );
                if out.as_slice() == b"@" {
                    deferred.get_or_insert(msg);
                } else {
                    c.fail_sig("sanitize-output-rejected-by-git", msg);
                    return;
                }
            }
            if g_one {
                ensure_sig!(
                    c,
                    "sanitize-changes-valid",
                    out.as_slice() == b.as_slice(),
                    "valid name {:?} was changed to {:?} by sanitizing",
                    b.as_bstr(),
                    out
                );
            }
        }
        if let Some(msg) = deferred {
            c.fail_sig("lone-at", msg);
        }
    });

    ck.finish();
}
