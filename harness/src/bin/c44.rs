//! C44 — tree diffs agree with git.
//!
//! One case = one pair of related trees (A, B): A is a random nested tree over the name alphabet around '/',
//! B is A after a handful of edits (add, delete, modify, chmod, blob<->symlink, blob<->submodule, file<->directory
//! swap under the same name, moves, subtree addition/removal, empty-to-full). All tree objects are written by
//! `git mktree --batch` (ids cross-checked against the harness' own serialisation).
//!
//! Oracles, for both directions A->B and B->A:
//!  * `git diff-tree -r --no-renames --raw -z --no-abbrev A B` (and the `-t` variant for tree entries) must equal the
//!    multiset of changes recorded by `gix_diff::tree(.., Recorder)` (path, old mode/id, new mode/id);
//!  * `gix_diff::tree_with_rewrites` with rewrites off (the function behind `gix::Repository::diff_tree_to_tree`) must
//!    report the same multiset;
//!  * applying the recorded non-tree changes to the flattened listing of the first tree (`git ls-tree -r`) yields the
//!    flattened listing of the second;
//!  * `Location::FileName` tracking reports the base name of each path, record by record.
use std::collections::BTreeMap;

use gix_diff::tree::recorder::{Change as RChange, Location};
use gix_hash::ObjectId;
use gix_object::bstr::{BString, ByteSlice};
use gix_object::FindExt;
use vp::gen;
use vp::*;

const M_FILE: u32 = 0o100644;
const M_EXE: u32 = 0o100755;
const M_LINK: u32 = 0o120000;
const M_SUB: u32 = 0o160000;
const M_TREE: u32 = 0o040000;

#[derive(Clone, Debug, PartialEq, Eq, Hash)]
enum Node {
    Leaf { mode: u32, oid: [u8; 20] },
    Dir(BTreeMap<Vec<u8>, Node>),
}

type DirMap = BTreeMap<Vec<u8>, Node>;

/// small pool so that equal content occurs in several places (moves, mode-only changes)
fn leaf_oid(t: &mut Tape) -> [u8; 20] {
    let k = t.below(7) as u8;
    let mut id = [0x11u8.wrapping_mul(k + 1); 20];
    id[0] = k;
    id[19] = 0xa0 | k;
    id
}

fn leaf_mode(t: &mut Tape) -> u32 {
    [M_FILE, M_FILE, M_EXE, M_LINK, M_SUB][t.weighted(&[5, 3, 3, 2, 1])]
}

fn gen_leaf(t: &mut Tape) -> Node {
    Node::Leaf {
        mode: leaf_mode(t),
        oid: leaf_oid(t),
    }
}

/// a name that is new in `dir`, often derived from a sibling so that prefix relations around '/' arise
fn new_name(t: &mut Tape, dir: &DirMap) -> Option<Vec<u8>> {
    for _ in 0..4 {
        let name = if !dir.is_empty() && t.chance(150) {
            let idx = t.below(dir.len());
            let mut base = dir.keys().nth(idx).cloned().unwrap_or_default();
            match t.below(4) {
                0 => base.push(*t.pick(b"-.0a \x01")),
                1 => {
                    if base.len() > 1 {
                        base.pop();
                    } else {
                        base.push(b'.');
                    }
                }
                2 => base.extend_from_slice(&gen::entry_name(t)),
                _ => {
                    let last = base.len() - 1;
                    base[last] = *t.pick(b"-.0~a");
                }
            }
            base
        } else {
            gen::entry_name(t)
        };
        if !name.is_empty() && !dir.contains_key(&name) && name != b"." && name != b".." && name != b".git" {
            return Some(name);
        }
    }
    None
}

fn gen_dir(t: &mut Tape, depth: usize, max_entries: usize) -> DirMap {
    let mut dir = DirMap::new();
    let n = t.range(if depth == 0 { 0 } else { 1 }, max_entries);
    for _ in 0..n {
        let Some(name) = new_name(t, &dir) else { continue };
        let node = if depth < 3 && t.chance(70) {
            Node::Dir(gen_dir(t, depth + 1, 4))
        } else {
            gen_leaf(t)
        };
        dir.insert(name, node);
    }
    dir
}

/// all directory paths of the tree (root = empty path)
fn dir_paths(dir: &DirMap, prefix: &mut Vec<Vec<u8>>, out: &mut Vec<Vec<Vec<u8>>>) {
    out.push(prefix.clone());
    for (name, node) in dir {
        if let Node::Dir(sub) = node {
            prefix.push(name.clone());
            dir_paths(sub, prefix, out);
            prefix.pop();
        }
    }
}

fn dir_mut<'a>(root: &'a mut DirMap, path: &[Vec<u8>]) -> Option<&'a mut DirMap> {
    let mut cur = root;
    for comp in path {
        match cur.get_mut(comp) {
            Some(Node::Dir(sub)) => cur = sub,
            _ => return None,
        }
    }
    Some(cur)
}

fn prune_empty(dir: &mut DirMap) {
    let names: Vec<Vec<u8>> = dir.keys().cloned().collect();
    for name in names {
        let mut remove = false;
        if let Some(Node::Dir(sub)) = dir.get_mut(&name) {
            prune_empty(sub);
            remove = sub.is_empty();
        }
        if remove {
            dir.remove(&name);
        }
    }
}

/// does some name of this directory sort differently as a tree than as a blob relative to a sibling?
fn order_sensitive(dir: &DirMap) -> bool {
    let names: Vec<&Vec<u8>> = dir.keys().collect();
    for n in &names {
        for m in &names {
            if m.len() > n.len() && m.starts_with(n) && m[n.len()] < b'/' {
                return true;
            }
        }
    }
    false
}

#[derive(Default)]
struct EditStats {
    swaps: usize,
    edits_in_sensitive_dir: usize,
    labels: Vec<&'static str>,
}

fn pick_name(t: &mut Tape, dir: &DirMap, want: impl Fn(&Node) -> bool) -> Option<Vec<u8>> {
    let candidates: Vec<&Vec<u8>> = dir.iter().filter(|(_, n)| want(n)).map(|(k, _)| k).collect();
    if candidates.is_empty() {
        None
    } else {
        Some(candidates[t.below(candidates.len())].clone())
    }
}

fn is_leaf(n: &Node) -> bool {
    matches!(n, Node::Leaf { .. })
}
fn is_dir(n: &Node) -> bool {
    matches!(n, Node::Dir(_))
}

fn apply_edit(t: &mut Tape, root: &mut DirMap, st: &mut EditStats) {
    let mut paths = Vec::new();
    dir_paths(root, &mut Vec::new(), &mut paths);
    let path = paths[t.below(paths.len())].clone();
    let op = t.weighted(&[4, 4, 4, 3, 2, 2, 4, 4, 3, 2]);
    let Some(dir) = dir_mut(root, &path) else { return };
    let sensitive_before = order_sensitive(dir);
    let mut done = true;
    match op {
        0 => {
            // add a file
            if let Some(name) = new_name(t, dir) {
                dir.insert(name, gen_leaf(t));
                st.labels.push("edit-add");
            } else {
                done = false;
            }
        }
        1 => {
            // delete any entry (a whole subtree when it is a directory)
            if let Some(name) = pick_name(t, dir, |_| true) {
                let was_dir = is_dir(&dir[&name]);
                dir.remove(&name);
                st.labels.push(if was_dir { "edit-delete-subtree" } else { "edit-delete" });
            } else {
                done = false;
            }
        }
        2 => {
            // modify content
            if let Some(name) = pick_name(t, dir, is_leaf) {
                if let Some(Node::Leaf { oid, .. }) = dir.get_mut(&name) {
                    let new = leaf_oid(t);
                    if new != *oid {
                        *oid = new;
                        st.labels.push("edit-modify");
                    } else {
                        done = false;
                    }
                }
            } else {
                done = false;
            }
        }
        3 => {
            // chmod, content unchanged
            if let Some(name) = pick_name(t, dir, |n| matches!(n, Node::Leaf { mode, .. } if *mode == M_FILE || *mode == M_EXE)) {
                if let Some(Node::Leaf { mode, .. }) = dir.get_mut(&name) {
                    *mode = if *mode == M_FILE { M_EXE } else { M_FILE };
                    st.labels.push("edit-chmod-only");
                }
            } else {
                done = false;
            }
        }
        4 | 5 => {
            // type change between file kinds, with or without a content change
            if let Some(name) = pick_name(t, dir, is_leaf) {
                if let Some(Node::Leaf { mode, oid }) = dir.get_mut(&name) {
                    let target = if op == 4 { M_LINK } else { M_SUB };
                    *mode = if *mode == target { M_FILE } else { target };
                    if t.bool() {
                        *oid = leaf_oid(t);
                    }
                    st.labels.push(if op == 4 { "edit-symlink-typechange" } else { "edit-submodule-typechange" });
                }
            } else {
                done = false;
            }
        }
        6 => {
            // file -> directory under the same name
            if let Some(name) = pick_name(t, dir, is_leaf) {
                let old = dir[&name].clone();
                let mut sub = gen_dir(t, 3, 3);
                if t.bool() {
                    // keep the old content somewhere inside
                    if let Some(n) = new_name(t, &sub) {
                        sub.insert(n, old);
                    }
                }
                if sub.is_empty() {
                    sub.insert(b"f".to_vec(), gen_leaf(t));
                }
                dir.insert(name, Node::Dir(sub));
                st.swaps += 1;
                st.labels.push("edit-file-to-dir");
            } else {
                done = false;
            }
        }
        7 => {
            // directory -> file under the same name
            if let Some(name) = pick_name(t, dir, is_dir) {
                dir.insert(name, gen_leaf(t));
                st.swaps += 1;
                st.labels.push("edit-dir-to-file");
            } else {
                done = false;
            }
        }
        8 => {
            // move an entry: to a new name here, or into another directory
            if let Some(name) = pick_name(t, dir, |_| true) {
                let node = dir.remove(&name).expect("present");
                let into_other = t.bool();
                let target_path = if into_other { paths[t.below(paths.len())].clone() } else { path.clone() };
                // the target may have vanished (it was inside the moved node)
                let target = match dir_mut(root, &target_path) {
                    Some(d) => d,
                    None => dir_mut(root, &path).expect("source dir still exists"),
                };
                let new = if into_other && !target.contains_key(&name) {
                    Some(name.clone())
                } else {
                    new_name(t, target)
                };
                match new {
                    Some(n) => {
                        target.insert(n, node);
                        st.labels.push("edit-move");
                    }
                    None => {
                        st.labels.push("edit-delete");
                    }
                }
            } else {
                done = false;
            }
        }
        _ => {
            // add a subtree
            if let Some(name) = new_name(t, dir) {
                let mut sub = gen_dir(t, 2, 4);
                if sub.is_empty() {
                    sub.insert(b"f".to_vec(), gen_leaf(t));
                }
                dir.insert(name, Node::Dir(sub));
                st.labels.push("edit-add-subtree");
            } else {
                done = false;
            }
        }
    }
    if done {
        let sensitive_after = dir_mut(root, &path).map_or(false, |d| order_sensitive(d));
        if sensitive_before || sensitive_after {
            st.edits_in_sensitive_dir += 1;
        }
    }
}

/// harness-side serialisation: returns the tree id and records every distinct tree bottom-up
fn write_trees(dir: &DirMap, out: &mut Vec<([u8; 20], Vec<(u32, Vec<u8>, [u8; 20])>)>) -> [u8; 20] {
    let mut entries: Vec<(u32, Vec<u8>, [u8; 20])> = Vec::new();
    for (name, node) in dir {
        match node {
            Node::Leaf { mode, oid } => entries.push((*mode, name.clone(), *oid)),
            Node::Dir(sub) => {
                let id = write_trees(sub, out);
                entries.push((M_TREE, name.clone(), id));
            }
        }
    }
    entries.sort_by(|a, b| gen::git_tree_cmp(&a.1, a.0 == M_TREE, &b.1, b.0 == M_TREE));
    let mut body = Vec::new();
    for (mode, name, oid) in &entries {
        body.extend_from_slice(format!("{:o} ", mode).as_bytes());
        body.extend_from_slice(name);
        body.push(0);
        body.extend_from_slice(oid);
    }
    let id_hex = object_sha1("tree", &body);
    let mut id = [0u8; 20];
    id.copy_from_slice(&unhex(&id_hex).expect("hex"));
    if !out.iter().any(|(i, _)| *i == id) {
        out.push((id, entries));
    }
    id
}

fn flatten(dir: &DirMap, prefix: &mut Vec<u8>, out: &mut BTreeMap<Vec<u8>, (u32, [u8; 20])>) {
    for (name, node) in dir {
        let len = prefix.len();
        if !prefix.is_empty() {
            prefix.push(b'/');
        }
        prefix.extend_from_slice(name);
        match node {
            Node::Leaf { mode, oid } => {
                out.insert(prefix.clone(), (*mode, *oid));
            }
            Node::Dir(sub) => flatten(sub, prefix, out),
        }
        prefix.truncate(len);
    }
}

/// (path, old mode, old id, new mode, new id); absent side = (0, null id)
type Row = (Vec<u8>, u32, [u8; 20], u32, [u8; 20]);

fn parse_raw_z(out: &[u8]) -> Result<Vec<Row>, String> {
    let mut rows = Vec::new();
    let mut it = out.split(|b| *b == 0);
    loop {
        let Some(meta) = it.next() else { break };
        if meta.is_empty() {
            break;
        }
        let path = it.next().ok_or("missing path")?;
        let meta = std::str::from_utf8(meta).map_err(|e| e.to_string())?;
        let meta = meta.strip_prefix(':').ok_or_else(|| format!("unexpected record {meta:?}"))?;
        let f: Vec<&str> = meta.split(' ').collect();
        if f.len() != 5 {
            return Err(format!("unexpected record {meta:?}"));
        }
        let om = u32::from_str_radix(f[0], 8).map_err(|e| e.to_string())?;
        let nm = u32::from_str_radix(f[1], 8).map_err(|e| e.to_string())?;
        let mut oo = [0u8; 20];
        let mut no = [0u8; 20];
        oo.copy_from_slice(&unhex(f[2]).ok_or("bad hex")?);
        no.copy_from_slice(&unhex(f[3]).ok_or("bad hex")?);
        let status = f[4];
        // the status letter must be consistent with the modes: it is redundant, so not part of the row
        let expect = if om == 0 {
            "A"
        } else if nm == 0 {
            "D"
        } else if (om & 0o170000) != (nm & 0o170000) {
            "T"
        } else {
            "M"
        };
        if status != expect {
            return Err(format!("status {status} unexpected for modes {om:o} {nm:o}"));
        }
        rows.push((path.to_vec(), om, oo, nm, no));
    }
    Ok(rows)
}

fn id20(id: &gix_hash::oid) -> [u8; 20] {
    let mut a = [0u8; 20];
    a.copy_from_slice(id.as_bytes());
    a
}

fn rows_of_records(records: &[RChange]) -> Vec<Row> {
    records
        .iter()
        .map(|r| match r {
            RChange::Addition {
                entry_mode, oid, path, ..
            } => (path.to_vec(), 0, [0u8; 20], entry_mode.0 as u32, id20(oid)),
            RChange::Deletion {
                entry_mode, oid, path, ..
            } => (path.to_vec(), entry_mode.0 as u32, id20(oid), 0, [0u8; 20]),
            RChange::Modification {
                previous_entry_mode,
                previous_oid,
                entry_mode,
                oid,
                path,
            } => (
                path.to_vec(),
                previous_entry_mode.0 as u32,
                id20(previous_oid),
                entry_mode.0 as u32,
                id20(oid),
            ),
        })
        .collect()
}

fn is_tree_row(r: &Row) -> bool {
    r.1 == M_TREE || r.3 == M_TREE
}

fn show_rows(rows: &[Row]) -> String {
    let mut s = String::new();
    for (p, om, oo, nm, no) in rows {
        s.push_str(&format!("[{} {:06o} {} -> {:06o} {}] ", show(p), om, &hex(oo)[..6], nm, &hex(no)[..6]));
    }
    s
}

fn sorted(mut v: Vec<Row>) -> Vec<Row> {
    v.sort();
    v
}

/// classify a difference between what git and gitoxide report, for signatures
fn classify(git: &[Row], gix: &[Row]) -> &'static str {
    let missing: Vec<&Row> = git.iter().filter(|r| !gix.contains(r)).collect();
    let invented: Vec<&Row> = gix.iter().filter(|r| !git.contains(r)).collect();
    if invented.is_empty() && !missing.is_empty() && missing.iter().all(|r| r.1 != 0 && r.3 != 0 && r.2 == r.4) {
        "mode-only-change-dropped"
    } else if invented.is_empty() {
        "change-dropped"
    } else if missing.is_empty() {
        "change-invented"
    } else {
        "change-differs"
    }
}

/// a bare repository skeleton written by hand (saves the `git init` spawn)
struct FastWorld {
    #[allow(dead_code)]
    scratch: Scratch,
    git: Git,
}

impl FastWorld {
    fn new(tag: &str) -> Result<FastWorld, String> {
        let scratch = Scratch::new(tag).map_err(|e| format!("scratch: {e}"))?;
        let home = scratch.join("home");
        let repo = scratch.join("repo");
        let mk = |p: std::path::PathBuf| std::fs::create_dir_all(&p).map_err(|e| format!("mkdir {}: {e}", p.display()));
        mk(home.clone())?;
        mk(repo.join("objects").join("info"))?;
        mk(repo.join("objects").join("pack"))?;
        mk(repo.join("refs").join("heads"))?;
        mk(repo.join("refs").join("tags"))?;
        std::fs::write(repo.join("HEAD"), "ref: refs/heads/main\n").map_err(|e| e.to_string())?;
        std::fs::write(
            repo.join("config"),
            "[core]\n\trepositoryformatversion = 0\n\tfilemode = true\n\tbare = true\n",
        )
        .map_err(|e| e.to_string())?;
        let git = Git::new(&repo, &home);
        Ok(FastWorld { scratch, git })
    }
    fn repo(&self) -> std::path::PathBuf {
        self.git.dir.clone()
    }
}

/// parse the output of `diff-tree --stdin -z`: per pair an optional header line `<a> <b>\n` followed by records
fn parse_stdin_output(out: &[u8], fwd: (&str, &str)) -> Result<(Vec<Row>, Vec<Row>), String> {
    let mut sections: Vec<(String, Vec<u8>)> = Vec::new();
    let mut p = 0;
    while p < out.len() {
        if out[p] == b':' {
            // record: meta NUL path NUL
            let start = p;
            let mut nuls = 0;
            while p < out.len() && nuls < 2 {
                if out[p] == 0 {
                    nuls += 1;
                }
                p += 1;
            }
            if nuls < 2 {
                return Err("truncated record".into());
            }
            match sections.last_mut() {
                Some(s) => s.1.extend_from_slice(&out[start..p]),
                None => return Err("record before any header".into()),
            }
        } else {
            let end = out[p..].iter().position(|b| *b == b'\n').ok_or("unterminated header")? + p;
            let header = String::from_utf8_lossy(&out[p..end]).to_string();
            if header.len() != 81 {
                return Err(format!("unexpected header {header:?}"));
            }
            sections.push((header, Vec::new()));
            p = end + 1;
        }
    }
    let mut f = Vec::new();
    let mut r = Vec::new();
    for (header, body) in sections {
        let rows = parse_raw_z(&body)?;
        if header == format!("{} {}", fwd.0, fwd.1) {
            f = rows;
        } else if header == format!("{} {}", fwd.1, fwd.0) {
            r = rows;
        } else {
            return Err(format!("unexpected header {header:?}"));
        }
    }
    Ok((f, r))
}

fn mode_only(r: &Row) -> bool {
    r.1 != 0 && r.3 != 0 && r.1 != r.3 && r.2 == r.4
}

fn without_mode_only(rows: &[Row]) -> Vec<Row> {
    rows.iter().filter(|r| !mode_only(r)).cloned().collect()
}

fn mode_of(m: gix_object::tree::EntryMode) -> u32 {
    m.0 as u32
}

pub fn main() {
    let mut ck = Check::new("C44", "exploration");
    ck.rule("Pairs of related trees (A, B) built by `git mktree`: A random (depth <= 4, names over the alphabet around '/' with prefix-related siblings, modes 100644/100755/120000/160000, ids from a pool of 7), B = A after 1..7 edits (add, delete entry/subtree, modify, chmod-only, blob<->symlink, blob<->submodule, file<->directory swap under the same name, move, subtree add), plus empty-to-full / full-to-empty / identical pairs; both directions are diffed. Non-trivial: the pair contains a file<->directory swap, or >= 2 edits in a directory that has sibling names sorting differently as tree vs blob. Distinct by hash of (A, B).");
    ck.assume(&format!(
        "oracle: {} `diff-tree -r [-t] --no-renames --raw -z --no-abbrev` and `ls-tree -r -z`; blob/commit ids in trees do not exist as objects (mktree --missing), neither side reads them",
        Git::version()
    ));
    ck.assume("changes are compared as multisets of (path, old mode, old id, new mode, new id); the order of changes and the `relation` field are not part of the property");

    ck.sub(
        "pairs",
        SubCfg::new(6_000, 150_000).max_len(1500).max_shrink(60),
        |t, c| {
            // ---- generate
            let class = t.weighted(&[30, 3, 2, 1]);
            let allow_empty_dirs = t.chance(20);
            let mut a = if class == 1 { DirMap::new() } else { gen_dir(t, 0, 6) };
            if !allow_empty_dirs {
                prune_empty(&mut a);
            }
            let mut st = EditStats::default();
            let mut b = a.clone();
            match class {
                0 => {
                    let n = t.range(1, 7);
                    for _ in 0..n {
                        apply_edit(t, &mut b, &mut st);
                    }
                    // edits can be no-ops (nothing to pick) or cancel each other
                    let mut tries = 0;
                    while b == a && tries < 4 {
                        apply_edit(t, &mut b, &mut st);
                        tries += 1;
                    }
                }
                1 => {
                    b = gen_dir(t, 0, 6);
                    st.labels.push("empty-to-full");
                }
                2 => {
                    b = DirMap::new();
                    st.labels.push("full-to-empty");
                }
                _ => st.labels.push("identical"),
            }
            if !allow_empty_dirs {
                prune_empty(&mut b);
            }
            c.key(&(&a, &b));
            for l in &st.labels {
                c.label(l);
            }
            c.label_if(allow_empty_dirs, "empty-subtrees-allowed");
            c.label_if(a == b, "no-change");
            c.label_if(st.swaps > 0, "file-dir-swap");
            c.label_if(st.edits_in_sensitive_dir >= 2, "edits-in-order-sensitive-dir");
            c.nontrivial(a != b && (st.swaps > 0 || st.edits_in_sensitive_dir >= 2));
            let mut flat_a = BTreeMap::new();
            let mut flat_b = BTreeMap::new();
            flatten(&a, &mut Vec::new(), &mut flat_a);
            flatten(&b, &mut Vec::new(), &mut flat_b);
            c.sample_with(|| {
                let f = |m: &BTreeMap<Vec<u8>, (u32, [u8; 20])>| {
                    m.iter()
                        .map(|(p, (mode, oid))| format!("{}:{:o}:{}", show(p), mode, &hex(oid)[..4]))
                        .collect::<Vec<_>>()
                        .join(" ")
                };
                format!("A = {{{}}}  B = {{{}}}", f(&flat_a), f(&flat_b))
            });

            // ---- build with git
            let world = infra!(c, FastWorld::new("c44"), "world");
            let git = &world.git;
            let mut trees = Vec::new();
            let id_a = write_trees(&a, &mut trees);
            let id_b = write_trees(&b, &mut trees);
            let mut input = Vec::new();
            for (_, entries) in &trees {
                for (mode, name, oid) in entries {
                    let kind = match *mode {
                        M_TREE => "tree",
                        M_SUB => "commit",
                        _ => "blob",
                    };
                    input.extend_from_slice(format!("{:06o} {} {}\t", mode, kind, hex(oid)).as_bytes());
                    input.extend_from_slice(name);
                    input.push(0);
                }
                input.push(0);
            }
            let out = infra!(
                c,
                git.run_in(["mktree", "-z", "--missing", "--batch"], Some(&input)),
                "git mktree"
            );
            let got: Vec<&str> = std::str::from_utf8(&out).unwrap_or("").lines().collect();
            let want: Vec<String> = trees.iter().map(|(id, _)| hex(id)).collect();
            if got.len() != want.len() || got.iter().zip(&want).any(|(g, w)| g != w) {
                c.infra(format!("git mktree ids {got:?} differ from the harness serialisation {want:?}"));
                return;
            }
            let (hex_a, hex_b) = (hex(&id_a), hex(&id_b));

            // the flattened listings according to git (model validation on a fixed fraction of the cases)
            if t.chance(48) {
                c.label("model-validated-by-ls-tree");
                for (id, flat) in [(&hex_a, &flat_a), (&hex_b, &flat_b)] {
                    let out = infra!(c, git.run(["ls-tree", "-r", "-z", "--full-tree", id.as_str()]), "git ls-tree");
                    let mut listed = BTreeMap::new();
                    for rec in out.split(|b| *b == 0).filter(|r| !r.is_empty()) {
                        let tab = rec.iter().position(|b| *b == b'\t').unwrap_or(0);
                        let meta = String::from_utf8_lossy(&rec[..tab]).to_string();
                        let f: Vec<&str> = meta.split(' ').collect();
                        if f.len() != 3 {
                            c.infra(format!("unexpected ls-tree record {meta:?}"));
                            return;
                        }
                        let mut oid = [0u8; 20];
                        oid.copy_from_slice(&unhex(f[2]).unwrap_or(vec![0; 20]));
                        listed.insert(rec[tab + 1..].to_vec(), (u32::from_str_radix(f[0], 8).unwrap_or(0), oid));
                    }
                    if &listed != flat {
                        c.infra("git ls-tree -r disagrees with the harness' flattened model".to_string());
                        return;
                    }
                }
            }

            // ---- git's answers for both directions (one process per variant)
            let pairs_in = format!("{hex_a} {hex_b}\n{hex_b} {hex_a}\n");
            let out_t = infra!(
                c,
                git.run_in(
                    ["diff-tree", "--stdin", "-r", "-t", "--no-renames", "--raw", "-z", "--no-abbrev"],
                    Some(pairs_in.as_bytes())
                ),
                "git diff-tree -t"
            );
            let out_r = infra!(
                c,
                git.run_in(
                    ["diff-tree", "--stdin", "-r", "--no-renames", "--raw", "-z", "--no-abbrev"],
                    Some(pairs_in.as_bytes())
                ),
                "git diff-tree"
            );
            let (t_fwd, t_rev) = infra!(c, parse_stdin_output(&out_t, (&hex_a, &hex_b)), "parse diff-tree -t");
            let (r_fwd, r_rev) = infra!(c, parse_stdin_output(&out_r, (&hex_a, &hex_b)), "parse diff-tree");

            // ---- gitoxide
            let odb = infra!(c, gix_odb::at(world.repo().join("objects")), "open object database");
            let repo = infra!(
                c,
                gix::open_opts(world.repo(), gix::open::Options::isolated()),
                "open repository"
            );
            let empty_index = gix_index::State::new(gix_hash::Kind::Sha1);
            let stack = infra!(
                c,
                repo.attributes_only(&empty_index, gix_worktree::stack::state::attributes::Source::IdMapping),
                "attribute stack"
            )
            .detach();
            let mut resource_cache = infra!(
                c,
                gix::diff::resource_cache(&repo, gix_diff::blob::pipeline::Mode::ToGit, stack, Default::default()),
                "resource cache"
            );
            let mut state = gix_diff::tree::State::default();
            let oid_a = ObjectId::from_bytes_or_panic(&id_a);
            let oid_b = ObjectId::from_bytes_or_panic(&id_b);
            // a known class is reported only if nothing else is wrong with the case (the comparisons below continue
            // modulo that class), so that other violations are not hidden behind it
            let mut deferred: Option<(String, String)> = None;
            for (dir_name, from, to, git_t, git_r, flat_from, flat_to) in [
                ("A->B", oid_a, oid_b, t_fwd, r_fwd, &flat_a, &flat_b),
                ("B->A", oid_b, oid_a, t_rev, r_rev, &flat_b, &flat_a),
            ] {
                let git_t = sorted(git_t);
                let git_r = sorted(git_r);
                // oracle self-consistency: -t adds tree entries only
                let git_t_files: Vec<Row> = git_t.iter().filter(|r| !is_tree_row(r)).cloned().collect();
                if git_t_files != git_r {
                    c.infra("git diff-tree -r and -r -t disagree about non-tree entries".to_string());
                    return;
                }

                let (mut buf_a, mut buf_b) = (Vec::new(), Vec::new());
                let lhs = infra!(c, odb.find_tree_iter(&from, &mut buf_a), "find lhs tree");
                let rhs = infra!(c, odb.find_tree_iter(&to, &mut buf_b), "find rhs tree");
                let mut rec = gix_diff::tree::Recorder::default();
                if let Err(e) = gix_diff::tree(lhs, rhs, &mut state, &odb, &mut rec) {
                    c.fail(format!("{dir_name}: gix_diff::tree failed: {e}"));
                    return;
                }
                let all = rows_of_records(&rec.records);
                let gix_files = sorted(all.iter().filter(|r| !is_tree_row(r)).cloned().collect());
                let gix_all = sorted(all.clone());
                let mut modulo_mode_only = false;
                if gix_files != git_r {
                    let sig = classify(&git_r, &gix_files);
                    let msg = format!(
                        "{dir_name}: non-tree changes differ ({sig}).\n git: {}\n gix: {}",
                        show_rows(&git_r),
                        show_rows(&gix_files)
                    );
                    if sig == "mode-only-change-dropped" {
                        modulo_mode_only = true;
                        deferred.get_or_insert((sig.to_string(), msg));
                    } else {
                        c.fail_sig(sig, msg);
                        return;
                    }
                }
                let norm = |rows: &[Row]| -> Vec<Row> {
                    if modulo_mode_only {
                        without_mode_only(rows)
                    } else {
                        rows.to_vec()
                    }
                };
                if norm(&gix_all) != norm(&git_t) {
                    let sig = classify(&norm(&git_t), &norm(&gix_all));
                    c.fail_sig(
                        &format!("tree-entries-{sig}"),
                        format!(
                            "{dir_name}: changes including tree entries differ from `diff-tree -t` ({sig}).\n git: {}\n gix: {}",
                            show_rows(&git_t),
                            show_rows(&gix_all)
                        ),
                    );
                    return;
                }

                // metamorphic: apply the non-tree changes to the flattened first tree
                let mut applied = flat_from.clone();
                for r in rec.records.iter() {
                    if let RChange::Deletion {
                        entry_mode, oid, path, ..
                    } = r
                    {
                        if entry_mode.is_tree() {
                            continue;
                        }
                        let had = applied.remove(path.as_slice());
                        ensure!(
                            c,
                            had == Some((mode_of(*entry_mode), id20(oid))),
                            "{dir_name}: deletion of {} ({:o} {}) does not match the first tree's entry {:?}",
                            show(path),
                            entry_mode.0,
                            oid,
                            had.map(|(m, o)| format!("{m:o} {}", hex(&o)))
                        );
                    }
                }
                for r in rec.records.iter() {
                    match r {
                        RChange::Addition {
                            entry_mode, oid, path, ..
                        } => {
                            if entry_mode.is_tree() {
                                continue;
                            }
                            let prev = applied.insert(path.to_vec(), (mode_of(*entry_mode), id20(oid)));
                            ensure!(
                                c,
                                prev.is_none(),
                                "{dir_name}: addition of {} although the path exists after all deletions",
                                show(path)
                            );
                        }
                        RChange::Modification {
                            previous_entry_mode,
                            previous_oid,
                            entry_mode,
                            oid,
                            path,
                        } => {
                            if entry_mode.is_tree() || previous_entry_mode.is_tree() {
                                ensure!(
                                    c,
                                    entry_mode.is_tree() && previous_entry_mode.is_tree(),
                                    "{dir_name}: modification of {} between a tree and a non-tree",
                                    show(path)
                                );
                                continue;
                            }
                            let prev = applied.insert(path.to_vec(), (mode_of(*entry_mode), id20(oid)));
                            ensure!(
                                c,
                                prev == Some((mode_of(*previous_entry_mode), id20(previous_oid))),
                                "{dir_name}: modification of {} does not start from the first tree's entry",
                                show(path)
                            );
                        }
                        RChange::Deletion { .. } => {}
                    }
                }
                let same_entry = |a: Option<&(u32, [u8; 20])>, b: &(u32, [u8; 20])| match a {
                    Some(a) => a == b || (modulo_mode_only && a.1 == b.1),
                    None => false,
                };
                let wrong: Vec<String> = flat_to
                    .iter()
                    .filter(|(p, v)| !same_entry(applied.get(*p), v))
                    .map(|(p, _)| show(p))
                    .collect();
                let extra: Vec<String> = applied.keys().filter(|p| !flat_to.contains_key(*p)).map(|p| show(p)).collect();
                ensure_sig!(
                    c,
                    "apply-does-not-yield-second-tree",
                    wrong.is_empty() && extra.is_empty(),
                    "{dir_name}: applying the recorded changes to the first tree does not yield the second: missing/different {wrong:?}, extra {extra:?}"
                );

                // file-name tracking: same records, base names only
                let lhs = infra!(c, odb.find_tree_iter(&from, &mut buf_a), "find lhs tree");
                let rhs = infra!(c, odb.find_tree_iter(&to, &mut buf_b), "find rhs tree");
                let mut rec_fn = gix_diff::tree::Recorder::default().track_location(Some(Location::FileName));
                if let Err(e) = gix_diff::tree(lhs, rhs, &mut state, &odb, &mut rec_fn) {
                    c.fail(format!("{dir_name}: gix_diff::tree (file names) failed: {e}"));
                    return;
                }
                let names = rows_of_records(&rec_fn.records);
                ensure!(
                    c,
                    names.len() == all.len(),
                    "{dir_name}: file-name tracking yields {} records, path tracking {}",
                    names.len(),
                    all.len()
                );
                for (n, p) in names.iter().zip(all.iter()) {
                    let base = p.0.rsplit(|b| *b == b'/').next().unwrap_or(&p.0).to_vec();
                    ensure!(
                        c,
                        n.0 == base && (n.1, n.2, n.3, n.4) == (p.1, p.2, p.3, p.4),
                        "{dir_name}: file-name tracking reports {} for the change at {}",
                        show(&n.0),
                        show(&p.0)
                    );
                }

                // the rewrite-capable entry point with rewrites off (what `gix::Repository::diff_tree_to_tree` runs)
                let lhs = infra!(c, odb.find_tree_iter(&from, &mut buf_a), "find lhs tree");
                let rhs = infra!(c, odb.find_tree_iter(&to, &mut buf_b), "find rhs tree");
                let mut hl: Vec<Row> = Vec::new();
                let mut rewrite_seen = false;
                let res = gix_diff::tree_with_rewrites(
                    lhs,
                    rhs,
                    &mut resource_cache,
                    &mut state,
                    &repo.objects,
                    |ch| -> Result<_, std::convert::Infallible> {
                        use gix_diff::tree_with_rewrites::ChangeRef as W;
                        match ch {
                            W::Addition {
                                location,
                                entry_mode,
                                id,
                                ..
                            } => hl.push((location.to_vec(), 0, [0u8; 20], mode_of(entry_mode), id20(&id))),
                            W::Deletion {
                                location,
                                entry_mode,
                                id,
                                ..
                            } => hl.push((location.to_vec(), mode_of(entry_mode), id20(&id), 0, [0u8; 20])),
                            W::Modification {
                                location,
                                previous_entry_mode,
                                previous_id,
                                entry_mode,
                                id,
                            } => hl.push((
                                location.to_vec(),
                                mode_of(previous_entry_mode),
                                id20(&previous_id),
                                mode_of(entry_mode),
                                id20(&id),
                            )),
                            W::Rewrite { .. } => rewrite_seen = true,
                        }
                        Ok(gix_diff::tree_with_rewrites::Action::Continue)
                    },
                    gix_diff::tree_with_rewrites::Options {
                        location: Some(Location::Path),
                        rewrites: None,
                    },
                );
                match res {
                    Ok(outcome) => ensure!(
                        c,
                        outcome.is_none(),
                        "{dir_name}: tree_with_rewrites returns a rewrite outcome although tracking is off"
                    ),
                    Err(e) => {
                        c.fail(format!("{dir_name}: tree_with_rewrites failed: {e}"));
                        return;
                    }
                }
                ensure!(
                    c,
                    !rewrite_seen,
                    "{dir_name}: tree_with_rewrites reports a rewrite although rewrite tracking is off"
                );
                let hl = sorted(hl);
                if norm(&hl) != norm(&git_t) || hl != gix_all {
                    let sig = classify(&norm(&git_t), &norm(&hl));
                    c.fail_sig(
                        &format!("with-rewrites-entry-point-{sig}"),
                        format!(
                            "{dir_name}: tree_with_rewrites (rewrites off) differs from `diff-tree -t` or from gix_diff::tree ({sig}).\n git: {}\n gix: {}\n tree(): {}",
                            show_rows(&git_t),
                            show_rows(&hl),
                            show_rows(&gix_all)
                        ),
                    );
                    return;
                }
            }
            if let Some((sig, msg)) = deferred {
                c.fail_sig(&sig, msg);
            }
            let _ = BString::default();
        },
    );

    ck.finish();
}
