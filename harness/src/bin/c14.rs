//! C14 — commit-graph data agrees with the commits it describes.
//!
//! One case = one world: a random DAG (octopus merges, many roots, equal / increasing / random / skewed /
//! beyond-34-bit committer times) created with `git fast-import`, and a commit-graph written by real git in
//! 1..4 increments, either as a single file (optionally `--append`) or as a split chain
//! (`--split`, `--split=no-merge`, `--split=replace`, `--size-multiple`, `--max-commits`), with generation
//! data version 1 or 2 and with or without changed-path Bloom filters. Truth comes from the commit objects
//! (`git cat-file --batch`, decoded by the harness) and from a harness-side decoder of the OIDL chunk of
//! every graph file (which commit lives in which file, at which position).
use std::collections::{BTreeMap, BTreeSet, HashMap};
use std::path::{Path, PathBuf};

use gix_commitgraph::{Graph, Position};
use gix_hash::ObjectId;
use vp::*;

#[derive(Debug, Clone, Hash)]
struct CommitSpec {
    parents: Vec<usize>,
    time: u64,
    /// index of the file that is modified (None: same tree as first parent, or the empty tree for a root)
    touch: Option<u8>,
}

#[derive(Debug, Clone, Hash, PartialEq)]
enum SplitKind {
    Default,
    NoMerge,
    Replace,
}

#[derive(Debug, Clone, Hash)]
struct WriteSpec {
    /// the graph is written for the closure of commits `0..upto`
    upto: usize,
    /// `--reachable` (all refs = all commits created so far) instead of `--stdin-commits`
    reachable: bool,
    split: Option<SplitKind>,
    append: bool,
    generation_version: u8,
    changed_paths: bool,
    size_multiple: Option<u8>,
    max_commits: Option<u8>,
}

#[derive(Debug, Clone, Hash)]
struct WorldSpec {
    commits: Vec<CommitSpec>,
    writes: Vec<WriteSpec>,
    time_class: u8,
    open_via: u8,
}

const TIME_BASE: u64 = 1_112_911_993;

fn gen_world(t: &mut Tape) -> WorldSpec {
    let n = match t.weighted(&[3, 5, 1]) {
        0 => t.range(1, 12),
        1 => t.range(13, 60),
        _ => t.range(61, 200),
    };
    let time_class = t.weighted(&[2, 3, 3, 3, 1]) as u8;
    let octopus_heavy = t.chance(96);
    let open_via = t.below(3) as u8;
    // writes first (so that short tapes still vary them): 1..4 increments over increasing prefixes
    let nwrites = t.weighted(&[2, 4, 4, 3]) + 1;
    let split_mode = t.chance(176);
    let mut cuts: BTreeSet<usize> = BTreeSet::new();
    for _ in 0..nwrites {
        cuts.insert(t.range(1, n));
    }
    // the last write usually covers everything
    if t.chance(200) {
        let last = *cuts.iter().next_back().unwrap();
        cuts.remove(&last);
        cuts.insert(n);
    }
    let mut writes = Vec::new();
    for upto in cuts {
        let split = if split_mode {
            Some(match t.weighted(&[10, 3, 1]) {
                0 => SplitKind::NoMerge,
                1 => SplitKind::Default,
                _ => SplitKind::Replace,
            })
        } else {
            None
        };
        writes.push(WriteSpec {
            upto,
            reachable: upto == n && t.chance(96),
            append: split.is_none() && t.chance(64),
            generation_version: if t.chance(96) { 1 } else { 2 },
            changed_paths: t.chance(64),
            size_multiple: if split == Some(SplitKind::Default) && t.chance(96) {
                Some(t.range(1, 4) as u8)
            } else {
                None
            },
            max_commits: if split == Some(SplitKind::Default) && t.chance(48) {
                Some(t.range(1, 40) as u8)
            } else {
                None
            },
            split,
        });
    }
    let mut commits = Vec::with_capacity(n);
    for i in 0..n {
        let want = if i == 0 {
            0
        } else if octopus_heavy {
            t.weighted(&[1, 3, 2, 3, 2, 1, 1])
        } else {
            // index 0 of the weights must be the smallest case: a linear history
            [1, 0, 2, 3, 4, 5, 6][t.weighted(&[12, 2, 5, 2, 1, 1, 1])]
        };
        let mut parents: Vec<usize> = Vec::new();
        for k in 0..want.min(i) {
            let p = if k == 0 && !t.chance(96) {
                // near parent
                i - 1 - t.below(i.min(4))
            } else {
                t.below(i)
            };
            if !parents.contains(&p) {
                parents.push(p);
            }
        }
        let time = match time_class {
            0 => TIME_BASE,
            1 => TIME_BASE + i as u64 * 60,
            2 => t.u32() as u64 >> 1,
            3 => {
                // skewed: a few huge dates with small descendants -> corrected-date offsets overflow 31 bits
                if t.chance(48) {
                    (1u64 << 33) + (t.u16() as u64)
                } else if t.chance(48) {
                    (1u64 << 32) - 1 + t.below(3) as u64
                } else {
                    t.u16() as u64
                }
            }
            _ => {
                if t.chance(64) {
                    // beyond what the format can store (34 bits): git stores the value modulo 2^34
                    (1u64 << 34) + (t.u16() as u64)
                } else if t.chance(64) {
                    (1u64 << 34) - 1 - t.below(2) as u64
                } else {
                    TIME_BASE + t.u16() as u64
                }
            }
        };
        let touch = if t.chance(200) { Some(t.below(4) as u8) } else { None };
        commits.push(CommitSpec { parents, time, touch });
    }
    WorldSpec {
        commits,
        writes,
        time_class,
        open_via,
    }
}

/// the fast-import stream for commits `from..to`; marks are `index + 1`
fn fast_import_stream(w: &WorldSpec, from: usize, to: usize) -> Vec<u8> {
    let mut s = String::new();
    for i in from..to {
        let c = &w.commits[i];
        s.push_str(&format!("commit refs/c/{i}\nmark :{}\n", i + 1));
        s.push_str(&format!("committer C O Mitter <committer@example.com> {} +0000\n", c.time));
        let msg = format!("commit {i}\n");
        s.push_str(&format!("data {}\n{}", msg.len(), msg));
        for (k, p) in c.parents.iter().enumerate() {
            s.push_str(&format!("{} :{}\n", if k == 0 { "from" } else { "merge" }, p + 1));
        }
        if let Some(f) = c.touch {
            let content = format!("content written by commit {i}\n");
            s.push_str(&format!("M 100644 inline f{f}\ndata {}\n{}\n", content.len(), content));
        }
        s.push('\n');
    }
    s.into_bytes()
}

#[derive(Debug)]
struct Truth {
    tree: ObjectId,
    parents: Vec<ObjectId>,
    time: u64,
}

fn parse_commit(raw: &[u8]) -> Result<Truth, String> {
    let mut tree = None;
    let mut parents = Vec::new();
    let mut time = None;
    for line in raw.split(|b| *b == b'\n') {
        if line.is_empty() {
            break;
        }
        if let Some(h) = line.strip_prefix(b"tree ") {
            tree = Some(ObjectId::from_hex(h).map_err(|e| e.to_string())?);
        } else if let Some(h) = line.strip_prefix(b"parent ") {
            parents.push(ObjectId::from_hex(h).map_err(|e| e.to_string())?);
        } else if line.starts_with(b"committer ") {
            let gt = line.iter().rposition(|b| *b == b'>').ok_or("committer without '>'")?;
            let rest = String::from_utf8_lossy(&line[gt + 1..]).to_string();
            let secs = rest.split_whitespace().next().ok_or("committer without time")?;
            time = Some(secs.parse::<u64>().map_err(|e| format!("time {secs:?}: {e}"))?);
        }
    }
    Ok(Truth {
        tree: tree.ok_or("no tree")?,
        parents,
        time: time.ok_or("no committer")?,
    })
}

/// Harness-side decoder: the ids in the OIDL chunk of one commit-graph file plus its base-graph count.
fn oidl_of(path: &Path) -> Result<(Vec<ObjectId>, u8, Vec<[u8; 4]>), String> {
    let d = std::fs::read(path).map_err(|e| format!("{}: {e}", path.display()))?;
    if d.len() < 8 + 12 || &d[..4] != b"CGPH" {
        return Err(format!("{}: not a commit-graph file", path.display()));
    }
    let nchunks = d[6] as usize;
    let base = d[7];
    let mut toc = Vec::new();
    for k in 0..=nchunks {
        let e = d.get(8 + k * 12..8 + k * 12 + 12).ok_or("short TOC")?;
        let id: [u8; 4] = e[..4].try_into().unwrap();
        let off = u64::from_be_bytes(e[4..].try_into().unwrap()) as usize;
        toc.push((id, off));
    }
    let mut ids = Vec::new();
    let mut kinds = Vec::new();
    for k in 0..nchunks {
        kinds.push(toc[k].0);
        if &toc[k].0 == b"OIDL" {
            let chunk = d.get(toc[k].1..toc[k + 1].1).ok_or("OIDL out of bounds")?;
            for h in chunk.chunks_exact(20) {
                ids.push(ObjectId::from_bytes_or_panic(h));
            }
        }
    }
    Ok((ids, base, kinds))
}

fn render(w: &WorldSpec) -> String {
    let mut s = format!("{} commits, time class {}, open via {}; ", w.commits.len(), w.time_class, w.open_via);
    let show_n = w.commits.len().min(24);
    for (i, c) in w.commits.iter().take(show_n).enumerate() {
        s.push_str(&format!("{i}<-{:?}@{} ", c.parents, c.time));
    }
    if show_n < w.commits.len() {
        s.push_str("... ");
    }
    for wr in &w.writes {
        s.push_str(&format!(
            "| write upto={} {}{}{} genv{}{}{}{}",
            wr.upto,
            if wr.reachable { "--reachable " } else { "--stdin-commits " },
            match &wr.split {
                None => "single".to_string(),
                Some(SplitKind::Default) => "--split".to_string(),
                Some(SplitKind::NoMerge) => "--split=no-merge".to_string(),
                Some(SplitKind::Replace) => "--split=replace".to_string(),
            },
            if wr.append { " --append" } else { "" },
            wr.generation_version,
            if wr.changed_paths { " --changed-paths" } else { "" },
            wr.size_multiple.map(|m| format!(" --size-multiple={m}")).unwrap_or_default(),
            wr.max_commits.map(|m| format!(" --max-commits={m}")).unwrap_or_default(),
        ));
    }
    s
}

pub fn main() {
    let mut ck = Check::new("C14", "exploration");
    ck.rule("One case = a DAG of 1..200 commits made by git fast-import (0..6 distinct parents, near and far, many roots; committer times equal / increasing / random 31-bit / skewed around 2^32..2^33 so that corrected-date offsets overflow / around and beyond 2^34; shared and distinct root trees) and a commit-graph written by real git in 1..4 increments over growing prefixes: single file (optionally --append) or split chain (--split, =no-merge, =replace, --size-multiple, --max-commits), generationVersion 1 or 2, optional --changed-paths, --stdin-commits or --reachable; opened through the info directory, the commit-graphs directory / file, or Graph::from_info_dir. NON-TRIVIAL: the resulting chain has >= 2 files AND some commit with >= 3 parents has a parent stored in a lower file (file membership decoded by the harness from the OIDL chunks). Distinct by hash of the decoded world.");
    ck.assume(&format!("graphs are written by {}; truth = commit objects via `git cat-file --batch` decoded by the harness (not by gix-object); `git commit-graph verify` accepts every graph (otherwise inconclusive)", Git::version()));
    ck.assume("committer times >= 2^34 cannot be represented by the file format: git stores them modulo 2^34, and the comparison is done modulo 2^34 for that (labelled) class only");
    ck.assume("generation() is compared with the topological level (1 + max over parents), which git stores in CDAT for both generation-data versions");

    ck.sub("graph", SubCfg::new(500, 15_000).max_len(3000).max_shrink(60), |t, c| {
        let w = gen_world(t);
        c.key(&w);
        c.sample_with(|| render(&w));
        let n = w.commits.len();
        c.label(match n {
            0..=12 => "commits-1..12",
            13..=60 => "commits-13..60",
            _ => "commits-61..200",
        });
        c.label(match w.time_class {
            0 => "time-equal",
            1 => "time-increasing",
            2 => "time-random",
            3 => "time-skewed-offset-overflow",
            _ => "time-around-2^34",
        });
        let max_parents = w.commits.iter().map(|c| c.parents.len()).max().unwrap_or(0);
        c.label_if(max_parents >= 3, "octopus");
        c.label_if(w.commits.iter().filter(|c| c.parents.is_empty()).count() >= 2, "many-roots");
        c.label_if(w.writes.iter().any(|x| x.changed_paths), "changed-paths");
        c.label_if(w.writes.iter().any(|x| x.generation_version == 1), "generation-v1");
        c.label_if(w.writes.iter().any(|x| x.generation_version == 2), "generation-v2");
        c.label_if(w.writes.iter().any(|x| x.reachable), "reachable");
        c.label_if(w.writes.iter().any(|x| x.append), "append");
        c.label(if w.writes[0].split.is_some() { "mode-split" } else { "mode-single" });

        // ---- build the world
        let world = infra!(c, World::new("c14", true), "world");
        let git = world.git.clone();
        let marks = world.scratch.join("marks");
        let mut created = 0usize;
        let mut ids: Vec<ObjectId> = Vec::new();
        let mut last_upto = 0usize;
        for wr in &w.writes {
            // with --reachable every ref counts, so only the commits of the prefix may exist; otherwise everything
            // is created up front (commits beyond the prefix are then NOT in the graph)
            let create_to = if w.writes.iter().any(|x| x.reachable) { wr.upto } else { n };
            if create_to > created {
                let stream = fast_import_stream(&w, created, create_to);
                let mut args: Vec<String> = vec!["fast-import".into(), "--quiet".into(), "--date-format=raw-permissive".into()];
                if created > 0 {
                    args.push(format!("--import-marks={}", marks.display()));
                }
                args.push(format!("--export-marks={}", marks.display()));
                infra!(c, git.run_in(&args, Some(&stream)), "git fast-import");
                let m = infra!(c, std::fs::read_to_string(&marks), "read marks");
                let mut by_mark: BTreeMap<usize, ObjectId> = BTreeMap::new();
                for l in m.lines() {
                    let mut it = l.split(' ');
                    let (Some(mark), Some(hex)) = (it.next(), it.next()) else { continue };
                    let Ok(k) = mark.trim_start_matches(':').parse::<usize>() else { continue };
                    let Ok(id) = ObjectId::from_hex(hex.as_bytes()) else { continue };
                    by_mark.insert(k, id);
                }
                ids = (1..=create_to).filter_map(|k| by_mark.get(&k).copied()).collect();
                if ids.len() != create_to {
                    c.infra(format!("marks file has {} of {} commits", ids.len(), create_to));
                    return;
                }
                created = create_to;
            }
            let mut g = git.clone().cfg(&format!("commitGraph.generationVersion={}", wr.generation_version));
            g = g.cfg("core.commitGraph=true");
            let mut args: Vec<String> = vec!["commit-graph".into(), "write".into()];
            match &wr.split {
                None => {}
                Some(SplitKind::Default) => args.push("--split".into()),
                Some(SplitKind::NoMerge) => args.push("--split=no-merge".into()),
                Some(SplitKind::Replace) => args.push("--split=replace".into()),
            }
            if wr.append {
                args.push("--append".into());
            }
            if let Some(m) = wr.size_multiple {
                args.push(format!("--size-multiple={m}"));
            }
            if let Some(m) = wr.max_commits {
                args.push(format!("--max-commits={m}"));
            }
            args.push(if wr.changed_paths { "--changed-paths".into() } else { "--no-changed-paths".into() });
            let stdin: Vec<u8>;
            if wr.reachable {
                args.push("--reachable".into());
                stdin = Vec::new();
            } else {
                args.push("--stdin-commits".into());
                stdin = ids[..wr.upto].iter().flat_map(|id| format!("{id}\n").into_bytes()).collect();
            }
            infra!(c, g.run_in(&args, Some(&stdin)), "git commit-graph write");
            last_upto = wr.upto;
        }
        let in_graph = last_upto; // commits 0..in_graph are in the graph (prefixes are closed under parents)
        // (git's verify compares full dates, so it cannot accept dates the format cannot hold)
        let representable = w.commits.iter().all(|c| c.time < (1u64 << 34));
        if representable {
            let ver = infra!(c, git.try_run(["commit-graph", "verify"], None), "git commit-graph verify");
            if !ver.0 {
                c.infra(format!("git commit-graph verify rejects git's own graph: {}", show(&ver.2)));
                return;
            }
        }
        c.label_if(!representable, "time-beyond-34-bits");

        // ---- truth from the commit objects: one `cat-file --batch` call for all commits
        let stdin: Vec<u8> = ids.iter().flat_map(|id| format!("{id}\n").into_bytes()).collect();
        let out = infra!(c, git.run_in(["cat-file", "--batch"], Some(&stdin)), "git cat-file --batch");
        let mut truth: Vec<Truth> = Vec::new();
        let mut rest: &[u8] = &out;
        for id in &ids {
            let Some(nl) = rest.iter().position(|b| *b == b'\n') else {
                c.infra(format!("cat-file output ends before {id}"));
                return;
            };
            let header = String::from_utf8_lossy(&rest[..nl]).to_string();
            let parts: Vec<&str> = header.split(' ').collect();
            if parts.len() != 3 || parts[0] != id.to_string() || parts[1] != "commit" {
                c.infra(format!("unexpected cat-file header {header:?} for {id}"));
                return;
            }
            let Ok(size) = parts[2].parse::<usize>() else {
                c.infra(format!("bad size in {header:?}"));
                return;
            };
            if rest.len() < nl + 1 + size + 1 {
                c.infra("cat-file output truncated".to_string());
                return;
            }
            truth.push(infra!(c, parse_commit(&rest[nl + 1..nl + 1 + size]), "parse commit"));
            rest = &rest[nl + 1 + size + 1..];
        }
        let index_of: HashMap<ObjectId, usize> = ids.iter().enumerate().map(|(i, id)| (*id, i)).collect();
        // generator cross-check (the harness must understand its own world)
        for (i, tr) in truth.iter().enumerate() {
            let want: Vec<ObjectId> = w.commits[i].parents.iter().map(|p| ids[*p]).collect();
            if tr.parents != want || tr.time != w.commits[i].time {
                c.infra(format!("commit {i} was created differently than specified: {tr:?} vs {:?}", w.commits[i]));
                return;
            }
        }
        let mut level = vec![0u32; ids.len()];
        for i in 0..ids.len() {
            level[i] = 1 + w.commits[i].parents.iter().map(|p| level[*p]).max().unwrap_or(0);
        }

        // ---- file layout, decoded by the harness
        let info = world.git_dir().join("objects").join("info");
        let graphs_dir = info.join("commit-graphs");
        let single = info.join("commit-graph");
        let chain_file = graphs_dir.join("commit-graph-chain");
        let file_paths: Vec<PathBuf> = if single.is_file() {
            vec![single.clone()]
        } else {
            let chain = infra!(c, std::fs::read_to_string(&chain_file), "read commit-graph-chain");
            chain.lines().map(|h| graphs_dir.join(format!("graph-{h}.graph"))).collect()
        };
        if single.is_file() && chain_file.is_file() {
            c.infra("both a single commit-graph file and a chain exist".to_string());
            return;
        }
        let mut file_of: HashMap<ObjectId, usize> = HashMap::new();
        let mut expected_pos: HashMap<ObjectId, u32> = HashMap::new();
        let mut start = 0u32;
        let mut any_bloom = false;
        for (fi, p) in file_paths.iter().enumerate() {
            let (oids, base, kinds) = infra!(c, oidl_of(p), "decode OIDL");
            if base as usize != fi {
                c.infra(format!("file {fi} claims {base} base graphs"));
                return;
            }
            any_bloom |= kinds.iter().any(|k| k == b"BDAT");
            for (k, id) in oids.iter().enumerate() {
                file_of.insert(*id, fi);
                expected_pos.insert(*id, start + k as u32);
            }
            start += oids.len() as u32;
        }
        let total = start;
        let expected_set: BTreeSet<ObjectId> = ids[..in_graph].iter().copied().collect();
        let decoded_set: BTreeSet<ObjectId> = expected_pos.keys().copied().collect();
        if expected_set != decoded_set {
            c.infra(format!(
                "harness expectation is off: graph files hold {} commits, expected the {} commits of the prefix",
                decoded_set.len(),
                expected_set.len()
            ));
            return;
        }
        let nfiles = file_paths.len();
        c.label(match nfiles {
            1 => "files-1",
            2 => "files-2",
            3 => "files-3",
            _ => "files-4+",
        });
        c.label_if(any_bloom, "bloom-chunks-present");
        let mut octopus_across = false;
        let mut parent_across = false;
        for i in 0..in_graph {
            let f = file_of[&ids[i]];
            let across = w.commits[i].parents.iter().any(|p| file_of[&ids[*p]] < f);
            parent_across |= across;
            if w.commits[i].parents.len() >= 3 && across {
                octopus_across = true;
            }
        }
        c.label_if(parent_across, "parent-in-lower-file");
        c.label_if(octopus_across, "octopus-parent-in-lower-file");
        c.nontrivial(nfiles >= 2 && octopus_across);

        // ---- gitoxide
        let open_path: PathBuf = match w.open_via {
            0 => info.clone(),
            1 => {
                if nfiles == 1 && single.is_file() {
                    single.clone()
                } else {
                    graphs_dir.clone()
                }
            }
            _ => info.clone(),
        };
        let graph = if w.open_via == 2 {
            Graph::from_info_dir(&info)
        } else {
            gix_commitgraph::at(&open_path)
        };
        let graph: Graph = match graph {
            Ok(g) => g,
            Err(e) => {
                c.fail_sig("open", format!("cannot open git's commit-graph at {}: {e} ({})", open_path.display(), render(&w)));
                return;
            }
        };
        ensure_sig!(
            c,
            "num-commits",
            graph.num_commits() == total,
            "num_commits() = {} but the files hold {total} commits",
            graph.num_commits()
        );
        let mask34 = (1u64 << 34) - 1;
        let mut seen_pos: BTreeSet<u32> = BTreeSet::new();
        for i in 0..in_graph {
            let id = ids[i];
            let tr = &truth[i];
            let Some(commit) = graph.commit_by_id(id) else {
                c.fail_sig("not-found", format!("commit {i} ({id}) is in file {} of the graph but commit_by_id finds nothing", file_of[&id]));
                return;
            };
            ensure_sig!(c, "commit-id", commit.id() == id, "commit_by_id({id}).id() = {}", commit.id());
            ensure_sig!(
                c,
                "root-tree",
                commit.root_tree_id() == tr.tree,
                "commit {i} ({id}): root_tree_id {} != tree of the commit object {}",
                commit.root_tree_id(),
                tr.tree
            );
            let want_time = if tr.time > mask34 { tr.time & mask34 } else { tr.time };
            ensure_sig!(
                c,
                "timestamp",
                commit.committer_timestamp() == want_time,
                "commit {i} ({id}): committer_timestamp {} != {} (commit object says {})",
                commit.committer_timestamp(),
                want_time,
                tr.time
            );
            ensure_sig!(
                c,
                "generation",
                commit.generation() == level[i],
                "commit {i} ({id}): generation {} != topological level {}",
                commit.generation(),
                level[i]
            );
            // parents: ids in order
            let mut got: Vec<ObjectId> = Vec::new();
            for p in commit.iter_parents() {
                match p {
                    Ok(pos) => {
                        ensure_sig!(
                            c,
                            "parent-position-out-of-range",
                            pos.0 < total,
                            "commit {i} ({id}): parent position {} >= number of commits {total}",
                            pos.0
                        );
                        got.push(graph.id_at(pos).to_owned());
                    }
                    Err(e) => {
                        c.fail_sig("parents-error", format!("commit {i} ({id}) with {} parents: iter_parents failed: {e}", tr.parents.len()));
                        return;
                    }
                }
            }
            if got != tr.parents {
                let sig = if tr.parents.len() >= 3 { "parents-octopus" } else { "parents" };
                c.fail_sig(
                    sig,
                    format!(
                        "commit {i} ({id}) in file {}: parents via graph {:?} != parents of the commit object {:?} (files of the parents: {:?})",
                        file_of[&id],
                        got.iter().map(|g| index_of.get(g).map(|x| x.to_string()).unwrap_or_else(|| g.to_string())).collect::<Vec<_>>(),
                        w.commits[i].parents,
                        w.commits[i].parents.iter().map(|p| file_of[&ids[*p]]).collect::<Vec<_>>()
                    ),
                );
                return;
            }
            for (g, p) in got.iter().zip(&w.commits[i].parents) {
                let pc = graph.commit_by_id(g);
                ensure_sig!(
                    c,
                    "generation-order",
                    pc.map(|pc| pc.generation() < commit.generation()).unwrap_or(false),
                    "commit {i}: generation {} is not greater than that of parent {p}",
                    commit.generation()
                );
            }
            let p1 = match commit.parent1() {
                Ok(p) => p.map(|pos| graph.id_at(pos).to_owned()),
                Err(e) => {
                    c.fail_sig("parents-error", format!("commit {i}: parent1 failed: {e}"));
                    return;
                }
            };
            ensure_sig!(c, "parent1", p1 == tr.parents.first().copied(), "commit {i}: parent1 {:?} != {:?}", p1, tr.parents.first());
            // lookup / id_at / commit_at are inverse and agree with the file layout
            let Some(pos) = graph.lookup(id) else {
                c.fail_sig("not-found", format!("lookup({id}) finds nothing"));
                return;
            };
            ensure_sig!(
                c,
                "position",
                pos.0 == expected_pos[&id],
                "commit {i} ({id}): lookup gives position {} but it is entry {} of the chain (file {})",
                pos.0,
                expected_pos[&id],
                file_of[&id]
            );
            ensure_sig!(c, "position", graph.id_at(pos) == id, "id_at(lookup({id})) = {}", graph.id_at(pos));
            ensure_sig!(c, "position", graph.commit_at(pos).id() == id, "commit_at(lookup({id})).id() = {}", graph.commit_at(pos).id());
            ensure_sig!(c, "position", seen_pos.insert(pos.0), "position {} is assigned to two commits", pos.0);
        }
        ensure_sig!(
            c,
            "position",
            seen_pos.len() as u32 == total && seen_pos.iter().next_back().map(|m| *m + 1 == total).unwrap_or(total == 0),
            "positions are not a bijection onto 0..{total}"
        );
        // every position holds a commit of the expected set
        for p in 0..total {
            let id = graph.id_at(Position(p)).to_owned();
            ensure_sig!(c, "position", expected_pos.get(&id) == Some(&p), "id_at({p}) = {id}, which is not entry {p} of the chain");
        }
        let iter_ids: BTreeSet<ObjectId> = graph.iter_ids().map(|i| i.to_owned()).collect();
        ensure_sig!(c, "iteration", iter_ids == expected_set && graph.iter_ids().count() as u32 == total, "iter_ids() does not yield exactly the commits of the graph");
        let iter_commit_ids: Vec<ObjectId> = graph.iter_commits().map(|cm| cm.id().to_owned()).collect();
        ensure_sig!(
            c,
            "iteration",
            iter_commit_ids.len() as u32 == total && iter_commit_ids.iter().copied().collect::<BTreeSet<_>>() == expected_set,
            "iter_commits() does not yield exactly the commits of the graph"
        );
        // ids that are not in the graph are not found
        let mut absent: Vec<ObjectId> = ids[in_graph..].to_vec();
        absent.extend(truth.iter().take(8).map(|t| t.tree));
        absent.push(ObjectId::null(gix_hash::Kind::Sha1));
        absent.push(ObjectId::from_bytes_or_panic(&[0xff; 20]));
        for id in &ids[..in_graph.min(16)] {
            // neighbours of present ids: flip the last bit
            let mut b = id.as_bytes().to_vec();
            b[19] ^= 1;
            absent.push(ObjectId::from_bytes_or_panic(&b));
            let mut b = id.as_bytes().to_vec();
            b[0] ^= 0x80;
            absent.push(ObjectId::from_bytes_or_panic(&b));
        }
        for id in absent {
            if expected_set.contains(&id) {
                continue;
            }
            ensure_sig!(c, "phantom", graph.lookup(id).is_none() && graph.commit_by_id(id).is_none(), "{id} is not in the graph but is found");
        }
        // gitoxide's own verification accepts git's graph and counts the same things
        match graph.verify_integrity(|_| Ok::<_, std::convert::Infallible>(())) {
            Ok(out) => {
                let mut want: BTreeMap<u32, u32> = BTreeMap::new();
                for i in 0..in_graph {
                    *want.entry(w.commits[i].parents.len() as u32).or_default() += 1;
                }
                ensure_sig!(
                    c,
                    "verify-stats",
                    out.num_commits == total && out.parent_counts == want,
                    "verify_integrity reports {} commits with parent counts {:?}, expected {total} with {:?}",
                    out.num_commits,
                    out.parent_counts,
                    want
                );
                let longest = level[..in_graph].iter().max().copied().unwrap_or(0).saturating_sub(1);
                ensure_sig!(
                    c,
                    "verify-stats",
                    out.longest_path_length == Some(longest),
                    "verify_integrity longest path {:?}, expected {longest}",
                    out.longest_path_length
                );
            }
            Err(e) => {
                c.fail_sig("verify-integrity", format!("verify_integrity rejects a graph written and verified by git: {e} ({})", render(&w)));
                return;
            }
        }
        // per-file view
        for (fi, p) in file_paths.iter().enumerate() {
            match gix_commitgraph::File::at(p) {
                Ok(f) => {
                    ensure_sig!(c, "file-base-count", f.base_graph_count() as usize == fi, "file {fi}: base_graph_count {}", f.base_graph_count());
                    ensure_sig!(
                        c,
                        "file-base-ids",
                        f.iter_base_graph_ids().count() == fi,
                        "file {fi}: {} base graph ids",
                        f.iter_base_graph_ids().count()
                    );
                    for (k, base_id) in f.iter_base_graph_ids().enumerate() {
                        let name = file_paths[k].file_name().unwrap().to_string_lossy().to_string();
                        ensure_sig!(
                            c,
                            "file-base-ids",
                            name == format!("graph-{base_id}.graph"),
                            "file {fi}: base graph {k} is {base_id} but the chain says {name}"
                        );
                    }
                }
                Err(e) => {
                    c.fail_sig("open", format!("File::at({}) failed: {e}", p.display()));
                    return;
                }
            }
        }
    });

    ck.finish();
}
