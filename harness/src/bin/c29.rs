//! C29 — packet-line framing is exact and never panics.
//!
//! Oracles: an independent encoder of the pkt-line wire format (4 lower-case hex digits of payload length + 4,
//! payload; 0000/0001/0002 control packets; limits 65516/65520 as in git's pkt-line.h), a reference model of the
//! `StreamingPeekableIter` state machine (delimiters, ERR lines, peek, reset) and of side-band demultiplexing.
use gix_packetline::{
    decode::{self, PacketLineOrWantedSize, Stream},
    encode,
    read::ProgressAction,
    BandRef, Channel, ErrorRef, PacketLineRef, StreamingPeekableIter, TextRef, Writer,
};
use std::cell::RefCell;
use std::io::{self, BufRead, Read, Write};
use vp::*;

const MAX_DATA: usize = 65516;
const MAX_LINE: usize = 65520;

// ---------------------------------------------------------------------------------------------
// panic location for code that catches panics itself (exhaustive sub-check, class signatures)

thread_local! {
    static MY_PANIC: RefCell<Option<String>> = RefCell::new(None);
}

fn chain_panic_hook() {
    let prev = std::panic::take_hook();
    std::panic::set_hook(Box::new(move |info| {
        let loc = info
            .location()
            .map(|l| {
                let f = l.file();
                let f = match f.find("/gix") {
                    Some(i) if !f.contains("/.cargo/") => &f[i + 1..],
                    _ => f,
                };
                format!("{}:{}", f, l.line())
            })
            .unwrap_or_else(|| "unknown".into());
        let msg = if let Some(s) = info.payload().downcast_ref::<&str>() {
            s.to_string()
        } else if let Some(s) = info.payload().downcast_ref::<String>() {
            s.clone()
        } else {
            "non-string panic".into()
        };
        MY_PANIC.with(|p| *p.borrow_mut() = Some(format!("{loc}: {msg}")));
        prev(info);
    }));
}

/// run `f`, returning Err(location: message) when it panics
fn guarded<T>(f: impl FnOnce() -> T) -> Result<T, String> {
    match std::panic::catch_unwind(std::panic::AssertUnwindSafe(f)) {
        Ok(v) => Ok(v),
        Err(_) => Err(MY_PANIC
            .with(|p| p.borrow_mut().take())
            .unwrap_or_else(|| "unknown panic".into())),
    }
}

// ---------------------------------------------------------------------------------------------
// a reader that hands out the bytes in tape-chosen pieces

#[derive(Clone, Debug, Hash)]
enum Chunking {
    All,
    Fixed(usize),
    /// sizes used round-robin; 0 = an `Interrupted` error before the next piece
    Cycle(Vec<usize>),
}

impl Chunking {
    fn gen(t: &mut Tape) -> Chunking {
        match t.weighted(&[2, 5, 4]) {
            0 => Chunking::All,
            1 => Chunking::Fixed(*t.pick(&[1usize, 1, 2, 3, 4, 5, 7, 64, 1000, 4096, 65519, 65520, 65521])),
            _ => {
                let n = t.range(2, 6);
                let mut v: Vec<usize> = (0..n)
                    .map(|_| *t.pick(&[0usize, 1, 1, 2, 3, 4, 5, 6, 9, 100, 5000, 70000]))
                    .collect();
                if v.iter().all(|x| *x == 0) {
                    v.push(1);
                }
                Chunking::Cycle(v)
            }
        }
    }
    fn small(&self) -> bool {
        match self {
            Chunking::All => false,
            Chunking::Fixed(n) => *n < 4,
            Chunking::Cycle(v) => v.iter().any(|n| *n > 0 && *n < 4),
        }
    }
}

struct ChunkReader<'a> {
    data: &'a [u8],
    pos: usize,
    how: Chunking,
    idx: usize,
    calls: usize,
}

impl<'a> ChunkReader<'a> {
    fn new(data: &'a [u8], how: Chunking) -> Self {
        ChunkReader {
            data,
            pos: 0,
            how,
            idx: 0,
            calls: 0,
        }
    }
}

impl Read for ChunkReader<'_> {
    fn read(&mut self, buf: &mut [u8]) -> io::Result<usize> {
        self.calls += 1;
        let want = match &self.how {
            Chunking::All => usize::MAX,
            Chunking::Fixed(n) => *n,
            Chunking::Cycle(v) => {
                let n = v[self.idx % v.len()];
                self.idx += 1;
                if n == 0 {
                    self.calls -= 1;
                    return Err(io::Error::new(io::ErrorKind::Interrupted, "try again"));
                }
                n
            }
        };
        let n = want.min(buf.len()).min(self.data.len() - self.pos);
        buf[..n].copy_from_slice(&self.data[self.pos..self.pos + n]);
        self.pos += n;
        Ok(n)
    }
}

// ---------------------------------------------------------------------------------------------
// lines

#[derive(Clone, Debug, Hash, PartialEq, Eq)]
enum Ctl {
    Flush,
    Delim,
    ResponseEnd,
}

impl Ctl {
    fn as_line(&self) -> PacketLineRef<'static> {
        match self {
            Ctl::Flush => PacketLineRef::Flush,
            Ctl::Delim => PacketLineRef::Delimiter,
            Ctl::ResponseEnd => PacketLineRef::ResponseEnd,
        }
    }
    fn wire(&self) -> &'static [u8] {
        match self {
            Ctl::Flush => b"0000",
            Ctl::Delim => b"0001",
            Ctl::ResponseEnd => b"0002",
        }
    }
}

/// what the application asks gitoxide to write
#[derive(Clone, Debug, Hash)]
enum Item {
    Data(Vec<u8>),
    Text(Vec<u8>),
    Error(Vec<u8>),
    Band(u8, Vec<u8>),
    Ctl(Ctl),
    /// `Writer` in binary (false) or text (true) mode, one write_all() call
    Writer(bool, Vec<u8>),
}

/// what must come out of a reader: the payload of a data line or a control line
#[derive(Clone, Debug, PartialEq, Eq)]
enum Exp {
    Data(Vec<u8>),
    Ctl(Ctl),
}

fn payload(t: &mut Tape, max: usize, c: &mut Case) -> Vec<u8> {
    // length classes around the limits; big payloads are generated from a two byte seed
    let len = match t.weighted(&[10, 6, 3, 2, 2, 2, 2]) {
        0 => t.range(1, 12),
        1 => t.range(13, 300),
        2 => t.range(301, 66000),
        3 => max,
        4 => max - 1,
        5 => max + 1,
        _ => *t.pick(&[1usize, 2, 3, 4, 5, 65510, 65511, 65512, 65515, 65516, 65517, 65519, 65520, 65521, 65531, 65535, 65536, 70000]),
    };
    c.label_if(len >= 60_000, "line>=60000");
    c.label_if(len == max, "line==max");
    c.label_if(len > max, "payload>max");
    if len <= 300 {
        const ALPHA: &[u8] = b"ab \n\r\x00\x01\x02\x03\x04\xffERR 0049";
        (0..len).map(|_| *t.pick(ALPHA)).collect()
    } else {
        let a = t.u8();
        let m = t.u8() | 1;
        let mut v: Vec<u8> = (0..len).map(|i| a.wrapping_add((i as u8).wrapping_mul(m)) ^ ((i >> 8) as u8)).collect();
        if t.bool() {
            *v.last_mut().unwrap() = b'\n';
        }
        v
    }
}

fn gen_item(t: &mut Tape, c: &mut Case) -> Item {
    match t.weighted(&[8, 4, 3, 5, 5, 3]) {
        0 => Item::Data(payload(t, MAX_DATA, c)),
        1 => Item::Text(payload(t, MAX_DATA - 1, c)),
        2 => {
            c.label("err-line");
            Item::Error(payload(t, MAX_DATA - 4, c))
        }
        3 => {
            c.label("band");
            Item::Band(*t.pick(&[1u8, 2, 3]), payload(t, MAX_DATA - 1, c))
        }
        4 => Item::Ctl(t.pick(&[Ctl::Flush, Ctl::Flush, Ctl::Delim, Ctl::ResponseEnd]).clone()),
        _ => {
            let text = t.bool();
            let n = match t.weighted(&[6, 2, 2, 2]) {
                0 => t.range(1, 200),
                1 => t.range(60_000, 70_000),
                2 => *t.pick(&[65515usize, 65516, 65517, 131031, 131032, 131033]),
                _ => t.range(70_000, 200_000),
            };
            let a = t.u8();
            c.label_if(n > MAX_DATA, "writer-splits");
            Item::Writer(text, (0..n).map(|i| a.wrapping_add(i as u8) ^ ((i >> 7) as u8)).collect())
        }
    }
}

fn hex4(n: usize) -> [u8; 4] {
    const H: &[u8; 16] = b"0123456789abcdef";
    [H[(n >> 12) & 15], H[(n >> 8) & 15], H[(n >> 4) & 15], H[n & 15]]
}

/// the independent encoder: wire bytes and expected decoded lines of an item, or None if the item cannot be encoded
fn reference_encode(item: &Item) -> Option<(Vec<u8>, Vec<Exp>)> {
    let one = |prefix: &[u8], data: &[u8], suffix: &[u8]| -> Option<(Vec<u8>, Vec<Exp>)> {
        let total = prefix.len() + data.len() + suffix.len();
        if data.is_empty() || total > MAX_DATA {
            return None;
        }
        let mut content = prefix.to_vec();
        content.extend_from_slice(data);
        content.extend_from_slice(suffix);
        let mut wire = hex4(total + 4).to_vec();
        wire.extend_from_slice(&content);
        Some((wire, vec![Exp::Data(content)]))
    };
    match item {
        Item::Data(d) => one(b"", d, b""),
        Item::Text(d) => one(b"", d, b"\n"),
        Item::Error(d) => one(b"ERR ", d, b""),
        Item::Band(b, d) => one(&[*b], d, b""),
        Item::Ctl(c) => Some((c.wire().to_vec(), vec![Exp::Ctl(c.clone())])),
        Item::Writer(text, buf) => {
            let mut wire = Vec::new();
            let mut exp = Vec::new();
            for chunk in buf.chunks(MAX_DATA) {
                let (w, e) = one(b"", chunk, if *text { b"\n" } else { b"" })?;
                wire.extend(w);
                exp.extend(e);
            }
            Some((wire, exp))
        }
    }
}

/// the independent decoder of a well-formed wire fragment
fn reference_decode(mut wire: &[u8]) -> Option<Vec<Exp>> {
    let mut out = Vec::new();
    while !wire.is_empty() {
        if wire.len() < 4 {
            return None;
        }
        let n = usize::from_str_radix(std::str::from_utf8(&wire[..4]).ok()?, 16).ok()?;
        match n {
            0 => out.push(Exp::Ctl(Ctl::Flush)),
            1 => out.push(Exp::Ctl(Ctl::Delim)),
            2 => out.push(Exp::Ctl(Ctl::ResponseEnd)),
            3 | 4 => return None,
            n if n > MAX_LINE || n > wire.len() => return None,
            n => {
                out.push(Exp::Data(wire[4..n].to_vec()));
                wire = &wire[n..];
                continue;
            }
        }
        wire = &wire[4..];
    }
    Some(out)
}

/// gitoxide's encoders. Ok(bytes written), Err(message) when the encoder refuses.
fn gix_encode(item: &Item, variant: bool, out: &mut Vec<u8>) -> Result<usize, String> {
    let r = match item {
        Item::Data(d) => {
            if variant {
                PacketLineRef::Data(d).write_to(&mut *out)
            } else {
                encode::data_to_write(d, &mut *out)
            }
        }
        Item::Text(d) => {
            if variant {
                TextRef(d).write_to(&mut *out)
            } else {
                encode::text_to_write(d, &mut *out)
            }
        }
        Item::Error(d) => {
            if variant {
                ErrorRef(d).write_to(&mut *out)
            } else {
                encode::error_to_write(d, &mut *out)
            }
        }
        Item::Band(b, d) => {
            let (ch, band) = match b {
                1 => (Channel::Data, BandRef::Data(d)),
                2 => (Channel::Progress, BandRef::Progress(d)),
                _ => (Channel::Error, BandRef::Error(d)),
            };
            if variant {
                band.write_to(&mut *out)
            } else {
                encode::band_to_write(ch, d, &mut *out)
            }
        }
        Item::Ctl(c) => {
            if variant {
                c.as_line().write_to(&mut *out)
            } else {
                match c {
                    Ctl::Flush => encode::flush_to_write(&mut *out),
                    Ctl::Delim => encode::delim_to_write(&mut *out),
                    Ctl::ResponseEnd => encode::response_end_to_write(&mut *out),
                }
            }
        }
        Item::Writer(text, buf) => {
            let mut w = Writer::new(&mut *out);
            if *text {
                w.enable_text_mode();
            } else if variant {
                w.enable_text_mode();
                w.enable_binary_mode();
            }
            return match w.write_all(buf) {
                Ok(()) => Ok(usize::MAX),
                Err(e) => Err(e.to_string()),
            };
        }
    };
    r.map_err(|e| e.to_string())
}

fn line_matches(line: &PacketLineRef<'_>, exp: &Exp) -> bool {
    match (line, exp) {
        (PacketLineRef::Data(d), Exp::Data(e)) => *d == e.as_slice(),
        (PacketLineRef::Flush, Exp::Ctl(Ctl::Flush)) => true,
        (PacketLineRef::Delimiter, Exp::Ctl(Ctl::Delim)) => true,
        (PacketLineRef::ResponseEnd, Exp::Ctl(Ctl::ResponseEnd)) => true,
        _ => false,
    }
}

fn show_exp(e: &Exp) -> String {
    match e {
        Exp::Ctl(c) => format!("{c:?}"),
        Exp::Data(d) if d.len() <= 40 => format!("Data({})", show(d)),
        Exp::Data(d) => format!("Data({}.. {} bytes)", show(&d[..24]), d.len()),
    }
}

fn show_line(l: &PacketLineRef<'_>) -> String {
    match l {
        PacketLineRef::Data(d) if d.len() <= 40 => format!("Data({})", show(d)),
        PacketLineRef::Data(d) => format!("Data({}.. {} bytes)", show(&d[..24]), d.len()),
        other => format!("{other:?}"),
    }
}

// ---------------------------------------------------------------------------------------------
// model of StreamingPeekableIter

const DELIMS: &[&[PacketLineRef<'static>]] = &[
    &[PacketLineRef::Flush],
    &[PacketLineRef::Flush, PacketLineRef::Delimiter],
    &[PacketLineRef::Delimiter],
    &[PacketLineRef::ResponseEnd, PacketLineRef::Flush],
    &[],
];

#[derive(Clone, Debug, Hash)]
enum Op {
    Read,
    Peek,
    Reset,
    ResetWith(usize),
    FailOnErr(bool),
}

#[derive(Debug, PartialEq, Eq)]
enum Out {
    Line(usize),
    /// end of iteration (delimiter reached or already done)
    Stop,
    /// ERR line with fail_on_err_lines: io error carrying the message
    ErrLine(Vec<u8>),
    /// the stream ended: io error
    Eof,
    /// malformed prefix: decode error (or io error), never a line
    Malformed,
}

/// what follows the well-formed lines
#[derive(Clone, Debug, Hash)]
enum Tail {
    None,
    /// the last line is cut short after this many bytes (>= 1)
    Truncated(usize),
    /// four bytes that are no valid prefix, plus some data
    BadPrefix([u8; 4], usize),
}

struct Model<'a> {
    lines: &'a [Exp],
    tail: &'a Tail,
    pos: usize,
    done: bool,
    stopped_at: Option<PacketLineRef<'static>>,
    peeked: Option<usize>,
    delims: &'static [PacketLineRef<'static>],
    fail_on_err: bool,
    /// after Eof/Malformed nothing is specified any more
    dead: bool,
}

impl Model<'_> {
    fn fetch(&mut self) -> Out {
        if self.pos == self.lines.len() {
            self.dead = true;
            return match self.tail {
                Tail::BadPrefix(..) => Out::Malformed,
                _ => Out::Eof,
            };
        }
        let i = self.pos;
        self.pos += 1;
        match &self.lines[i] {
            Exp::Ctl(c) if self.delims.contains(&c.as_line()) => {
                self.done = true;
                self.stopped_at = Some(c.as_line());
                Out::Stop
            }
            Exp::Data(d) if self.fail_on_err && d.starts_with(b"ERR ") => {
                self.done = true;
                self.stopped_at = None;
                Out::ErrLine(d[4..].to_vec())
            }
            _ => {
                self.stopped_at = None;
                Out::Line(i)
            }
        }
    }
    fn read(&mut self) -> Out {
        if self.done {
            return Out::Stop;
        }
        if let Some(i) = self.peeked.take() {
            return Out::Line(i);
        }
        self.fetch()
    }
    fn peek(&mut self) -> Out {
        if self.done {
            return Out::Stop;
        }
        if let Some(i) = self.peeked {
            return Out::Line(i);
        }
        let o = self.fetch();
        if let Out::Line(i) = o {
            self.peeked = Some(i);
        }
        o
    }
}

type LineResult<'a> = Option<io::Result<Result<PacketLineRef<'a>, decode::Error>>>;

/// compare what the iterator returned with the model's expectation
fn judge(what: &str, step: usize, got: LineResult<'_>, want: &Out, lines: &[Exp]) -> Result<(), String> {
    let ok = match (&got, want) {
        (Some(Ok(Ok(line))), Out::Line(i)) => line_matches(line, &lines[*i]),
        (None, Out::Stop) => true,
        (Some(Err(e)), Out::ErrLine(msg)) => e
            .get_ref()
            .and_then(|inner| inner.downcast_ref::<gix_packetline::read::Error>())
            .map(|inner| inner.message.as_slice() == msg.as_slice())
            .unwrap_or(false),
        (Some(Err(e)), Out::Eof) => e.kind() == io::ErrorKind::UnexpectedEof,
        // "natural EOF" may also be reported as end of iteration
        (None, Out::Eof) => true,
        (Some(Ok(Err(_))), Out::Malformed) | (Some(Err(_)), Out::Malformed) => true,
        _ => false,
    };
    if ok {
        return Ok(());
    }
    let got_s = match &got {
        None => "None".to_string(),
        Some(Ok(Ok(l))) => format!("line {}", show_line(l)),
        Some(Ok(Err(e))) => format!("decode error {e}"),
        Some(Err(e)) => format!("io error {:?} {e}", e.kind()),
    };
    let want_s = match want {
        Out::Line(i) => format!("line #{i} {}", show_exp(&lines[*i])),
        other => format!("{other:?}"),
    };
    Err(format!("step {step} {what}: got {got_s}, expected {want_s}"))
}

/// run the operations on a real iterator over `wire` delivered with `how`
fn run_reader(wire: &[u8], how: &Chunking, lines: &[Exp], tail: &Tail, ops: &[Op]) -> Result<(), String> {
    let reader = ChunkReader::new(wire, how.clone());
    let mut it = StreamingPeekableIter::new(reader, DELIMS[0], false);
    let mut m = Model {
        lines,
        tail,
        pos: 0,
        done: false,
        stopped_at: None,
        peeked: None,
        delims: DELIMS[0],
        fail_on_err: false,
        dead: false,
    };
    let mut step = 0;
    let mut apply = |op: &Op, it: &mut StreamingPeekableIter<ChunkReader<'_>>, m: &mut Model<'_>| -> Result<(), String> {
        step += 1;
        match op {
            Op::Read => {
                let want = m.read();
                judge("read_line", step, it.read_line(), &want, lines)?;
            }
            Op::Peek => {
                let want = m.peek();
                judge("peek_line", step, it.peek_line(), &want, lines)?;
            }
            Op::Reset => {
                it.reset();
                m.done = false;
                m.stopped_at = None;
            }
            Op::ResetWith(d) => {
                it.reset_with(DELIMS[*d]);
                m.delims = DELIMS[*d];
                m.done = false;
                m.stopped_at = None;
            }
            Op::FailOnErr(v) => {
                it.fail_on_err_lines(*v);
                m.fail_on_err = *v;
            }
        }
        if !m.dead && it.stopped_at() != m.stopped_at {
            return Err(format!(
                "step {step} after {op:?}: stopped_at() = {:?}, expected {:?}",
                it.stopped_at(),
                m.stopped_at
            ));
        }
        Ok(())
    };
    for op in ops {
        if m.dead {
            break;
        }
        apply(op, &mut it, &mut m)?;
    }
    // drain: everything that is left must come out, in order
    let mut guard = 0;
    while !m.dead {
        guard += 1;
        if guard > 3 * lines.len() + 8 {
            return Err("model did not reach the end of the stream".into());
        }
        if m.done {
            apply(&Op::Reset, &mut it, &mut m)?;
        }
        apply(&Op::Read, &mut it, &mut m)?;
    }
    let calls = it.into_inner().calls;
    if calls > 2 * wire.len() + 64 {
        return Err(format!("reader was called {calls} times for {} bytes", wire.len()));
    }
    Ok(())
}

// ---------------------------------------------------------------------------------------------
// side-band model

#[derive(Clone, Debug, Hash)]
enum Sb {
    Data(Vec<u8>),
    Progress(Vec<u8>),
    Error(Vec<u8>),
    /// `0005\x01`
    Keepalive,
    /// `0005\x02` / `0005\x03`: a progress or error band without text
    EmptyMessage(u8),
}

#[derive(Clone, Debug, Hash)]
enum HowRead {
    ToEnd,
    Bufs(Vec<usize>),
    FillConsume(Vec<usize>),
    LineToString,
}

#[derive(Debug, PartialEq, Eq, Clone)]
enum Ev {
    Data(Vec<u8>),
    Msg(bool, Vec<u8>),
}

fn push_data(log: &mut Vec<Ev>, d: &[u8]) {
    if d.is_empty() {
        return;
    }
    if let Some(Ev::Data(prev)) = log.last_mut() {
        prev.extend_from_slice(d);
    } else {
        log.push(Ev::Data(d.to_vec()));
    }
}

fn strip_nl(d: &[u8]) -> Vec<u8> {
    match d.split_last() {
        Some((b'\n', rest)) => rest.to_vec(),
        _ => d.to_vec(),
    }
}

fn show_ev(log: &[Ev]) -> String {
    log.iter()
        .map(|e| match e {
            Ev::Data(d) if d.len() > 30 => format!("data[{}]", d.len()),
            Ev::Data(d) => format!("data({})", show(d)),
            Ev::Msg(err, m) if m.len() > 30 => format!("msg(err={err},[{}])", m.len()),
            Ev::Msg(err, m) => format!("msg(err={err},{})", show(m)),
        })
        .collect::<Vec<_>>()
        .join(" ")
}

pub fn main() {
    let mut ck = Check::new("C29", "exploration");
    chain_panic_hook();
    ck.rule("Streams of 1..12 items: data/text/ERR/side-band lines (payload length classes 1..12, ..300, ..66000, max, max-1, max+1 and fixed boundary values; bytes over an alphabet with LF, CR, NUL, band ids, 'ERR ', digits), flush/delim/response-end, Writer writes (binary/text, up to 200000 bytes so they are split), optionally followed by a truncated line or a malformed prefix; written by gitoxide's encoders (both API variants), read back with decode::streaming and with StreamingPeekableIter over a reader delivering tape-chosen pieces (1 byte .. everything, Interrupted errors) under tape-chosen read/peek/reset/reset_with/fail_on_err_lines operations; side-band sections read through WithSidebands with tape-chosen buffer sizes. Non-trivial: a line of >= 60000 bytes, or a reader piece size < 4, or a malformed/oversized prefix. Distinct by decoded case.");
    ck.assume("wire format and limits per git's Documentation/technical/protocol-common.txt and pkt-line.h (LARGE_PACKET_MAX 65520, LARGE_PACKET_DATA_MAX 65516); upper-case hex digits are accepted like lower-case ones (git's hexval)");
    ck.assume("after the first I/O error or malformed prefix nothing further is asserted about an iterator; natural EOF may be reported as None or as UnexpectedEof");

    // ---------------------------------------------------------------------------------------
    ck.sub("roundtrip", SubCfg::new(40_000, 1_000_000).max_len(400), |t, c| {
        let n = t.weighted(&[0, 4, 4, 3, 3, 2, 2, 1, 1, 1, 1, 1, 1]).max(1);
        let items: Vec<Item> = (0..n).map(|_| gen_item(t, c)).collect();
        let variant = t.bool();
        let tail = match t.weighted(&[10, 2, 3]) {
            0 => Tail::None,
            1 => Tail::Truncated(t.range(1, 8)),
            _ => {
                let p: [u8; 4] = match t.weighted(&[2, 2, 3, 2, 2]) {
                    0 => *b"0003",
                    1 => *b"0004",
                    2 => hex4(t.range(MAX_LINE + 1, 65535)),
                    3 => {
                        let mut p = hex4(t.range(5, 65535));
                        p[t.below(4)] = *t.pick(b"gG xz-+:/@`\x00\xff\n");
                        p
                    }
                    _ => hex4(*t.pick(&[65521usize, 65522, 65535, 65534])),
                };
                Tail::BadPrefix(p, t.range(0, 70_000))
            }
        };
        let how_a = Chunking::gen(t);
        let how_b = Chunking::gen(t);
        let nops = t.range(0, 2 * n + 4);
        let ops: Vec<Op> = (0..nops)
            .map(|_| match t.weighted(&[8, 5, 2, 2, 2]) {
                0 => Op::Read,
                1 => Op::Peek,
                2 => Op::Reset,
                3 => Op::ResetWith(t.below(DELIMS.len())),
                _ => Op::FailOnErr(t.bool()),
            })
            .collect();
        c.key(&(&items, &tail, &how_a, &how_b, &ops, variant));

        // 1. encode: gitoxide's encoders against the independent one
        let mut wire = Vec::new();
        let mut lines: Vec<Exp> = Vec::new();
        for item in &items {
            let before = wire.len();
            if let Item::Writer(text, buf) = item {
                // how a large write is split is the Writer's business: what it wrote must be well-formed lines that
                // carry exactly the bytes written (plus one LF per line in text mode)
                match gix_encode(item, variant, &mut wire) {
                    Err(e) => {
                        if *text && buf.len() >= MAX_DATA {
                            c.label("writer-text-mode-refuses-large-write");
                            wire.truncate(before);
                            continue;
                        }
                        c.fail(format!("Writer refused {}: {e}", describe_item(item)));
                        return;
                    }
                    Ok(_) => {
                        let Some(parsed) = reference_decode(&wire[before..]) else {
                            c.fail(format!("Writer wrote malformed packet lines for {}", describe_item(item)));
                            return;
                        };
                        let mut carried = Vec::new();
                        for l in &parsed {
                            match l {
                                Exp::Data(d) if *text => {
                                    ensure!(c, d.last() == Some(&b'\n'), "text mode line without trailing LF in {}", describe_item(item));
                                    carried.extend_from_slice(&d[..d.len() - 1]);
                                }
                                Exp::Data(d) => carried.extend_from_slice(d),
                                Exp::Ctl(ctl) => {
                                    c.fail(format!("Writer wrote a {ctl:?} packet for {}", describe_item(item)));
                                    return;
                                }
                            }
                        }
                        ensure!(
                            c,
                            carried == *buf,
                            "Writer lines carry {} bytes, {} were written ({})",
                            carried.len(),
                            buf.len(),
                            describe_item(item)
                        );
                        lines.extend(parsed);
                        continue;
                    }
                }
            }
            let reference = reference_encode(item);
            let got = gix_encode(item, variant, &mut wire);
            match (&reference, &got) {
                (Some((w, exp)), Ok(n)) => {
                    ensure!(
                        c,
                        &wire[before..] == w.as_slice(),
                        "encoding of {} differs from the wire format: wrote {} bytes starting {}, expected {} bytes starting {}",
                        describe_item(item),
                        wire.len() - before,
                        show(&wire[before..wire.len().min(before + 24)]),
                        w.len(),
                        show(&w[..w.len().min(24)])
                    );
                    ensure!(
                        c,
                        *n == usize::MAX || *n == w.len(),
                        "encoder returned {n} for {} but wrote {} bytes",
                        describe_item(item),
                        w.len()
                    );
                    lines.extend(exp.iter().cloned());
                }
                (None, Err(_)) => {
                    c.label("encoder-refuses-oversized-or-empty");
                    ensure!(
                        c,
                        wire.len() == before,
                        "encoder failed for {} but wrote {} bytes",
                        describe_item(item),
                        wire.len() - before
                    );
                    wire.truncate(before);
                }
                (None, Ok(_)) => {
                    c.fail(format!(
                        "encoder accepted {} which does not fit a packet line; wrote prefix {}",
                        describe_item(item),
                        show(&wire[before..wire.len().min(before + 4)])
                    ));
                    return;
                }
                (Some(_), Err(e)) => {
                    c.fail(format!("encoder refused {}: {e}", describe_item(item)));
                    return;
                }
            }
        }
        match &tail {
            Tail::None => {}
            Tail::Truncated(cut) => {
                // a complete data line minus `cut` bytes (at least the first byte stays)
                let body = vec![b'x'; 20];
                let mut w = hex4(24).to_vec();
                w.extend_from_slice(&body);
                let keep = w.len().saturating_sub(*cut).max(1);
                wire.extend_from_slice(&w[..keep]);
                c.label("truncated-tail");
            }
            Tail::BadPrefix(p, extra) => {
                wire.extend_from_slice(p);
                wire.extend(std::iter::repeat(b'z').take(*extra));
                c.label("malformed-prefix-tail");
                let v = std::str::from_utf8(p).ok().and_then(|s| usize::from_str_radix(s, 16).ok());
                c.label_if(matches!(v, Some(v) if v > MAX_LINE), "prefix-fff1..ffff");
            }
        }
        let big = lines.iter().any(|l| matches!(l, Exp::Data(d) if d.len() >= 60_000));
        c.nontrivial(big || how_a.small() || how_b.small() || matches!(tail, Tail::BadPrefix(..)));
        c.label_if(how_a.small() || how_b.small(), "pieces<4");
        c.label_if(ops.iter().any(|o| matches!(o, Op::Peek)), "peek");
        c.sample_with(|| {
            format!(
                "items=[{}] tail={tail:?} pieces={how_a:?}/{how_b:?} ops={ops:?}",
                items.iter().map(describe_item).collect::<Vec<_>>().join(", ")
            )
        });

        // 2. the slice decoders, line by line
        let mut rest: &[u8] = &wire;
        for (i, exp) in lines.iter().enumerate() {
            match decode::streaming(rest) {
                Ok(Stream::Complete { line, bytes_consumed }) => {
                    ensure!(
                        c,
                        line_matches(&line, exp),
                        "decode::streaming line {i}: got {}, expected {}",
                        show_line(&line),
                        show_exp(exp)
                    );
                    let want = match exp {
                        Exp::Ctl(_) => 4,
                        Exp::Data(d) => d.len() + 4,
                    };
                    ensure!(c, bytes_consumed == want, "decode::streaming line {i}: consumed {bytes_consumed}, line has {want} bytes");
                    // typed views
                    if let Exp::Data(d) = exp {
                        ensure!(c, line.as_slice() == Some(d.as_slice()), "as_slice differs for line {i}");
                        let text = line.as_text().map(|t| t.0.to_vec());
                        ensure!(c, text == Some(strip_nl(d)), "as_text of line {i} = {text:?}");
                        let err = line.check_error().map(|e| e.0.to_vec());
                        let want_err = d.strip_prefix(b"ERR ").map(|r| r.to_vec());
                        ensure!(c, err == want_err, "check_error of line {i} = {err:?}, expected {want_err:?}");
                        let band = line.decode_band();
                        let ok = match (d[0], &band) {
                            (1, Ok(BandRef::Data(p))) | (2, Ok(BandRef::Progress(p))) | (3, Ok(BandRef::Error(p))) => *p == &d[1..],
                            (1..=3, _) => false,
                            (_, Err(_)) => true,
                            (_, Ok(_)) => false,
                        };
                        ensure!(c, ok, "decode_band of line {i} starting {} = {band:?}", show(&d[..d.len().min(8)]));
                    }
                    // every strict prefix of the line is incomplete with the exact number of missing bytes (sampled)
                    let cut = t.below(bytes_consumed);
                    match decode::streaming(&rest[..cut]) {
                        Ok(Stream::Incomplete { bytes_needed }) => {
                            let want_needed = if cut < 4 { 4 - cut } else { bytes_consumed - cut };
                            ensure!(
                                c,
                                bytes_needed == want_needed,
                                "decode::streaming on {cut} of {bytes_consumed} bytes: needs {bytes_needed}, expected {want_needed}"
                            );
                        }
                        other => {
                            ensure!(
                                c,
                                cut >= 4 && matches!(exp, Exp::Ctl(_)),
                                "decode::streaming on {cut} of {bytes_consumed} bytes of line {i}: {other:?}"
                            );
                        }
                    }
                    ensure!(
                        c,
                        matches!(gix_packetline::decode(&rest[..bytes_consumed]), Ok(l) if line_matches(&l, exp)),
                        "decode::all_at_once differs for line {i}"
                    );
                    rest = &rest[bytes_consumed..];
                }
                other => {
                    c.fail(format!("decode::streaming line {i}: {other:?}, expected {}", show_exp(exp)));
                    return;
                }
            }
        }
        match &tail {
            Tail::None => ensure!(c, rest.is_empty(), "{} bytes left after the last line", rest.len()),
            Tail::Truncated(_) => ensure!(
                c,
                matches!(decode::streaming(rest), Ok(Stream::Incomplete { .. })),
                "truncated tail: {:?}",
                decode::streaming(rest)
            ),
            Tail::BadPrefix(p, _) => ensure!(
                c,
                decode::streaming(rest).is_err() && gix_packetline::decode(rest).is_err(),
                "malformed prefix {} accepted by the slice decoder: {:?}",
                show(p),
                decode::streaming(rest)
            ),
        }

        // 3. the streaming reader under two different ways of delivering the same bytes
        for how in [&how_a, &how_b] {
            let oversized = matches!(&tail, Tail::BadPrefix(p, _) if std::str::from_utf8(p).ok().and_then(|s| usize::from_str_radix(s, 16).ok()).map(|v| v > MAX_LINE).unwrap_or(false));
            match guarded(|| run_reader(&wire, how, &lines, &tail, &ops)) {
                Ok(Ok(())) => {}
                Ok(Err(msg)) => {
                    c.fail(format!("{msg} (pieces {how:?})"));
                    return;
                }
                Err(panic) => {
                    if oversized && panic.contains("gix-packetline/src/read/blocking_io.rs") {
                        c.fail_sig(
                            "blocking-read-oversized-prefix-panic",
                            format!("StreamingPeekableIter panics on a length prefix above 65520 ({panic})"),
                        );
                    } else {
                        c.fail_sig(&format!("panic:{}", panic.split(": ").next().unwrap_or("")), format!("panic at {panic} (pieces {how:?})"));
                    }
                    return;
                }
            }
        }
    });

    // ---------------------------------------------------------------------------------------
    ck.sub("sideband", SubCfg::new(30_000, 1_000_000).max_len(400).max_shrink(if std::env::var_os("C29_PIN").is_some() { 5000 } else { 400 }), |t, c| {
        let nsections = t.range(1, 3);
        let mut sections: Vec<(Vec<Sb>, HowRead)> = Vec::new();
        let with_handler = !t.chance(40);
        // the empty progress band is a recorded finding: a fixed small share of the cases
        let allow_empty = t.chance(10);
        for _ in 0..nsections {
            let n = t.range(0, 8);
            let ascii = t.chance(70);
            let mut v = Vec::new();
            for _ in 0..n {
                let mut p = payload(t, MAX_DATA - 1, c);
                p.truncate(MAX_DATA - 1);
                if ascii {
                    for b in p.iter_mut() {
                        *b = b"ab \n"[(*b & 3) as usize];
                    }
                }
                v.push(match t.weighted(&[8, 4, 2, 2, 1]) {
                    0 => Sb::Data(p),
                    1 => Sb::Progress(p),
                    2 => Sb::Error(p),
                    3 => Sb::Keepalive,
                    _ if allow_empty => Sb::EmptyMessage(*t.pick(&[2u8, 3])),
                    _ => Sb::Keepalive,
                });
            }
            let how = if ascii {
                HowRead::LineToString
            } else {
                match t.weighted(&[2, 4, 3]) {
                    0 => HowRead::ToEnd,
                    1 => HowRead::Bufs((0..t.range(1, 4)).map(|_| *t.pick(&[1usize, 2, 3, 5, 100, 65515, 65516, 100_000])).collect()),
                    _ => HowRead::FillConsume((0..t.range(1, 4)).map(|_| *t.pick(&[1usize, 2, 7, 1000, 65515, 1 << 20])).collect()),
                }
            };
            sections.push((v, how));
        }
        let how = Chunking::gen(t);
        c.key(&(&sections, &how, with_handler));
        let empty_msg = sections.iter().any(|(v, _)| v.iter().any(|s| matches!(s, Sb::EmptyMessage(_))));
        c.label_if(empty_msg, "empty-progress-band");
        c.label_if(sections.iter().any(|(v, _)| v.iter().any(|s| matches!(s, Sb::Keepalive))), "keepalive");
        c.label_if(!with_handler, "no-progress-handler");
        c.label_if(sections.iter().any(|(_, h)| matches!(h, HowRead::LineToString)), "read_line_to_string");
        c.label_if(sections.iter().any(|(_, h)| matches!(h, HowRead::FillConsume(_))), "fill_buf/consume");
        c.label_if(how.small(), "pieces<4");
        let big = sections
            .iter()
            .any(|(v, _)| v.iter().any(|s| matches!(s, Sb::Data(p) | Sb::Progress(p) | Sb::Error(p) if p.len() >= 59_999)));
        c.nontrivial(big || how.small());
        c.sample_with(|| {
            format!(
                "handler={with_handler} pieces={how:?} sections={}",
                sections
                    .iter()
                    .map(|(v, h)| format!(
                        "[{}] read {h:?}",
                        v.iter()
                            .map(|s| match s {
                                Sb::Data(p) => format!("data[{}]", p.len()),
                                Sb::Progress(p) => format!("progress[{}]", p.len()),
                                Sb::Error(p) => format!("error[{}]", p.len()),
                                other => format!("{other:?}"),
                            })
                            .collect::<Vec<_>>()
                            .join(",")
                    ))
                    .collect::<Vec<_>>()
                    .join(" | ")
            )
        });

        // wire through gitoxide's band encoder (keepalive / empty messages are data lines holding only the band id)
        let mut wire = Vec::new();
        for (v, _) in &sections {
            for s in v {
                let r = match s {
                    Sb::Data(p) => encode::band_to_write(Channel::Data, p, &mut wire),
                    Sb::Progress(p) => encode::band_to_write(Channel::Progress, p, &mut wire),
                    Sb::Error(p) => encode::band_to_write(Channel::Error, p, &mut wire),
                    Sb::Keepalive => encode::data_to_write(&[1], &mut wire),
                    Sb::EmptyMessage(b) => encode::data_to_write(&[*b], &mut wire),
                };
                ensure!(c, r.is_ok(), "band encoder refused {s:?}: {r:?}");
            }
            let _ = encode::flush_to_write(&mut wire);
        }

        let reader = ChunkReader::new(&wire, how.clone());
        let mut it = StreamingPeekableIter::new(reader, &[PacketLineRef::Flush], false);
        for (si, (v, how_read)) in sections.iter().enumerate() {
            // expectation
            let mut want: Vec<Ev> = Vec::new();
            for s in v {
                match s {
                    Sb::Data(p) if with_handler => push_data(&mut want, p),
                    Sb::Progress(p) if with_handler => want.push(Ev::Msg(false, strip_nl(p))),
                    Sb::Error(p) if with_handler => want.push(Ev::Msg(true, strip_nl(p))),
                    Sb::Keepalive if with_handler => {}
                    Sb::EmptyMessage(b) if with_handler => want.push(Ev::Msg(*b == 3, Vec::new())),
                    // without a handler every line is handed out verbatim, band byte included
                    Sb::Data(p) => push_data(&mut want, &[&[1u8][..], p].concat()),
                    Sb::Progress(p) => push_data(&mut want, &[&[2u8][..], p].concat()),
                    Sb::Error(p) => push_data(&mut want, &[&[3u8][..], p].concat()),
                    Sb::Keepalive => push_data(&mut want, &[1]),
                    Sb::EmptyMessage(b) => push_data(&mut want, &[*b]),
                }
            }
            let log: RefCell<Vec<Ev>> = RefCell::new(Vec::new());
            let has_empty = v.iter().any(|s| matches!(s, Sb::EmptyMessage(_)));
            let result = guarded(|| -> Result<(), String> {
                let handler = |is_err: bool, text: &[u8]| {
                    log.borrow_mut().push(Ev::Msg(is_err, text.to_vec()));
                    ProgressAction::Continue
                };
                let mut rd = if with_handler {
                    it.as_read_with_sidebands(handler)
                } else {
                    it.as_read_without_sidebands()
                };
                match how_read {
                    HowRead::ToEnd => {
                        let mut buf = vec![0u8; 30_000];
                        loop {
                            let n = rd.read(&mut buf).map_err(|e| format!("read: {e}"))?;
                            if n == 0 {
                                break;
                            }
                            push_data(&mut log.borrow_mut(), &buf[..n]);
                        }
                    }
                    HowRead::Bufs(sizes) => {
                        let mut i = 0;
                        let mut guard = 0usize;
                        loop {
                            let mut buf = vec![0u8; sizes[i % sizes.len()]];
                            i += 1;
                            let n = rd.read(&mut buf).map_err(|e| format!("read: {e}"))?;
                            if n == 0 {
                                break;
                            }
                            push_data(&mut log.borrow_mut(), &buf[..n]);
                            guard += 1;
                            if guard > 2_000_000 {
                                return Err("read() never reports the end".into());
                            }
                        }
                    }
                    HowRead::FillConsume(amounts) => {
                        let mut i = 0;
                        loop {
                            let avail = rd.fill_buf().map_err(|e| format!("fill_buf: {e}"))?;
                            if avail.is_empty() {
                                break;
                            }
                            let n = amounts[i % amounts.len()].min(avail.len());
                            i += 1;
                            push_data(&mut log.borrow_mut(), &avail[..n]);
                            rd.consume(n);
                        }
                    }
                    HowRead::LineToString => loop {
                        let mut s = String::new();
                        let n = rd.read_line_to_string(&mut s).map_err(|e| format!("read_line_to_string: {e}"))?;
                        if n != s.len() {
                            return Err(format!("read_line_to_string returned {n} for {} bytes", s.len()));
                        }
                        if n == 0 {
                            break;
                        }
                        // one packet line per call: keep the boundaries visible
                        log.borrow_mut().push(Ev::Data(s.into_bytes()));
                    },
                }
                if rd.stopped_at() != Some(PacketLineRef::Flush) {
                    return Err(format!("stopped_at() = {:?} at the end of a section", rd.stopped_at()));
                }
                Ok(())
            });
            match result {
                Ok(Ok(())) => {}
                Ok(Err(msg)) => {
                    c.fail(format!("section {si}: {msg}"));
                    return;
                }
                Err(panic) => {
                    if has_empty && with_handler && panic.contains("gix-packetline/src/line/mod.rs") {
                        c.fail_sig(
                            if std::env::var_os("C29_PIN").is_some() { "pin:sideband-empty-message-panic" } else { "sideband-empty-message-panic" },
                            format!("WithSidebands panics on a progress/error band without text, i.e. the packet 0005\\x02 ({panic})"),
                        );
                    } else {
                        c.fail_sig(&format!("panic:{}", panic.split(": ").next().unwrap_or("")), format!("section {si}: panic at {panic}"));
                    }
                    return;
                }
            }
            let got = log.into_inner();
            let same = if matches!(how_read, HowRead::LineToString) {
                // per-line boundaries: compare data line by line
                let mut want_lines: Vec<Ev> = Vec::new();
                for s in v {
                    match s {
                        Sb::Data(p) if with_handler => want_lines.push(Ev::Data(p.clone())),
                        Sb::Progress(p) if with_handler => want_lines.push(Ev::Msg(false, strip_nl(p))),
                        Sb::Error(p) if with_handler => want_lines.push(Ev::Msg(true, strip_nl(p))),
                        Sb::Keepalive if with_handler => {}
                        Sb::EmptyMessage(b) if with_handler => want_lines.push(Ev::Msg(*b == 3, Vec::new())),
                        Sb::Data(p) => want_lines.push(Ev::Data([&[1u8][..], p].concat())),
                        Sb::Progress(p) => want_lines.push(Ev::Data([&[2u8][..], p].concat())),
                        Sb::Error(p) => want_lines.push(Ev::Data([&[3u8][..], p].concat())),
                        Sb::Keepalive => want_lines.push(Ev::Data(vec![1])),
                        Sb::EmptyMessage(b) => want_lines.push(Ev::Data(vec![*b])),
                    }
                }
                want = want_lines;
                got == want
            } else {
                got == want
            };
            ensure!(
                c,
                same,
                "section {si} ({how_read:?}, handler={with_handler}): delivered [{}], expected [{}]",
                show_ev(&got),
                show_ev(&want)
            );
        }
        // nothing may be left, and the parent iterator must be usable (reset by drop) and at the end
        let end = it.read_line();
        ensure!(
            c,
            matches!(&end, None) || matches!(&end, Some(Err(e)) if e.kind() == io::ErrorKind::UnexpectedEof),
            "after the last section the iterator still yields {:?}",
            end.map(|r| r.map(|r| r.map(|l| show_line(&l))))
        );
    });

    // ---------------------------------------------------------------------------------------
    ck.sub_enum("prefix-enum", |r| {
        enumerate_prefixes(r);
    });

    ck.finish();
}

fn describe_item(i: &Item) -> String {
    match i {
        Item::Data(d) => format!("data[{}]", d.len()),
        Item::Text(d) => format!("text[{}]", d.len()),
        Item::Error(d) => format!("error[{}]", d.len()),
        Item::Band(b, d) => format!("band{b}[{}]", d.len()),
        Item::Ctl(c) => format!("{c:?}"),
        Item::Writer(text, d) => format!("writer(text={text})[{}]", d.len()),
    }
}

// ---------------------------------------------------------------------------------------------
// exhaustive: every four-digit prefix through every decoder

#[derive(Debug, PartialEq, Eq, Clone, Copy)]
enum Class {
    Flush,
    Delim,
    ResponseEnd,
    /// 0003 / 0004 / non-hex
    Invalid,
    /// data line with this many payload bytes
    Data(usize),
    /// above 65520
    TooLong,
}

fn classify_value(v: usize) -> Class {
    match v {
        0 => Class::Flush,
        1 => Class::Delim,
        2 => Class::ResponseEnd,
        3 | 4 => Class::Invalid,
        v if v <= MAX_LINE => Class::Data(v - 4),
        _ => Class::TooLong,
    }
}

/// Check one prefix against everything that decodes prefixes. `body` holds at least 65535 bytes.
fn check_prefix(
    prefix: [u8; 4],
    class: Class,
    body: &[u8],
    it: &mut StreamingPeekableIter<io::Cursor<Vec<u8>>>,
    full_reader: bool,
) -> Result<(), (String, String)> {
    let fail = |sig: &str, msg: String| Err((sig.to_string(), format!("prefix {}: {msg}", show(&prefix))));
    // hex_prefix
    match (guarded(|| decode::hex_prefix(&prefix).map(|p| match p {
        PacketLineOrWantedSize::Line(l) => (Some(format!("{l:?}")), 0usize),
        PacketLineOrWantedSize::Wanted(n) => (None, n as usize),
    })), class) {
        (Err(p), _) => return fail(&format!("panic:{}", p.split(": ").next().unwrap_or("")), format!("hex_prefix panics: {p}")),
        (Ok(Ok((Some(l), _))), Class::Flush) if l == "Flush" => {}
        (Ok(Ok((Some(l), _))), Class::Delim) if l == "Delimiter" => {}
        (Ok(Ok((Some(l), _))), Class::ResponseEnd) if l == "ResponseEnd" => {}
        (Ok(Err(_)), Class::Invalid) => {}
        (Ok(Ok((None, n))), Class::Data(want)) if n == want => {}
        // hex_prefix itself knows no upper bound; the callers must check it
        (Ok(Ok((None, _))), Class::TooLong) | (Ok(Err(_)), Class::TooLong) => {}
        (Ok(other), _) => return fail("", format!("hex_prefix gives {other:?}, expected {class:?}")),
    }
    // slice decoders with enough, with one byte too little and with no data
    let mut full = prefix.to_vec();
    let n_body = match class {
        Class::Data(n) => n,
        _ => 65531,
    };
    full.extend_from_slice(&body[..n_body]);
    let res = guarded(|| {
        let a = decode::streaming(&full).map(|s| match s {
            Stream::Complete { line, bytes_consumed } => (true, line.as_slice().map(|d| d.len()), format!("{:?}", std::mem::discriminant(&line)), bytes_consumed),
            Stream::Incomplete { bytes_needed } => (false, None, String::new(), bytes_needed),
        });
        let b = decode::streaming(&full[..full.len() - 1]).map(|s| match s {
            Stream::Complete { bytes_consumed, .. } => (true, bytes_consumed),
            Stream::Incomplete { bytes_needed } => (false, bytes_needed),
        });
        let c = decode::streaming(&prefix).map(|s| match s {
            Stream::Complete { bytes_consumed, .. } => (true, bytes_consumed),
            Stream::Incomplete { bytes_needed } => (false, bytes_needed),
        });
        let d = gix_packetline::decode(&full).map(|l| l.as_slice().map(|d| d.len()));
        (a, b, c, d)
    });
    let (a, b, c, d) = match res {
        Ok(v) => v,
        Err(p) => return fail(&format!("panic:{}", p.split(": ").next().unwrap_or("")), format!("slice decoder panics: {p}")),
    };
    match class {
        Class::Flush | Class::Delim | Class::ResponseEnd => {
            if !matches!(&a, Ok((true, None, _, 4))) || !matches!(&c, Ok((true, 4))) || !matches!(&d, Ok(None)) {
                return fail("", format!("control packet decodes as {a:?} / {c:?} / {d:?}"));
            }
        }
        Class::Invalid | Class::TooLong => {
            if a.is_ok() || b.is_ok() || c.is_ok() || d.is_ok() {
                return fail("", format!("slice decoders accept it: {a:?} / {b:?} / {c:?} / {d:?}"));
            }
        }
        Class::Data(n) => {
            if !matches!(&a, Ok((true, Some(len), _, consumed)) if *len == n && *consumed == n + 4) {
                return fail("", format!("streaming with all {n} data bytes: {a:?}"));
            }
            if !matches!(&b, Ok((false, 1))) {
                return fail("", format!("streaming with one byte missing: {b:?}"));
            }
            if !matches!(&c, Ok((false, needed)) if *needed == n) {
                return fail("", format!("streaming with the prefix only: {c:?}, expected {n} bytes needed"));
            }
            if !matches!(&d, Ok(Some(len)) if *len == n) {
                return fail("", format!("all_at_once: {d:?}"));
            }
        }
    }
    // the blocking reader: read_line, and peek_line followed by read_line; then with a truncated body
    let variants: &[(bool, bool)] = if full_reader {
        &[(false, false), (true, false), (false, true)]
    } else {
        &[(false, false)]
    };
    for &(peek, truncated) in variants {
        let mut input = match class {
            // nothing follows a control packet but the next line
            Class::Flush | Class::Delim | Class::ResponseEnd => prefix.to_vec(),
            _ => full.clone(),
        };
        if truncated {
            if !matches!(class, Class::Data(_)) {
                continue;
            }
            input.pop();
        } else {
            // a second, ordinary line after it
            input.extend_from_slice(b"0006ok");
        }
        let _ = it.replace(io::Cursor::new(input));
        let res = guarded(|| {
            let conv = |r: LineResult<'_>| match r {
                None => "none".to_string(),
                Some(Ok(Ok(PacketLineRef::Data(d)))) => format!("data:{}:{}", d.len(), d.first().copied().unwrap_or(0)),
                Some(Ok(Ok(l))) => format!("{l:?}"),
                Some(Ok(Err(_))) => "decode-error".to_string(),
                Some(Err(e)) => format!("io:{:?}", e.kind()),
            };
            let first = if peek {
                let p = conv(it.peek_line());
                let again = conv(it.peek_line());
                let r = conv(it.read_line());
                if matches!(class, Class::Data(_) | Class::Delim | Class::ResponseEnd) && (p != again || p != r) {
                    format!("peek-mismatch:{p}/{again}/{r}")
                } else {
                    p
                }
            } else {
                conv(it.read_line())
            };
            let stopped = it.stopped_at();
            let next = conv(it.read_line());
            (first, stopped, next)
        });
        let (first, stopped, next) = match res {
            Ok(v) => v,
            Err(p) => {
                if class == Class::TooLong && p.contains("gix-packetline/src/read/blocking_io.rs") {
                    return fail(
                        "blocking-read-oversized-prefix-panic",
                        format!("StreamingPeekableIter::{} panics: {p}", if peek { "peek_line" } else { "read_line" }),
                    );
                }
                return fail(&format!("panic:{}", p.split(": ").next().unwrap_or("")), format!("reader panics: {p}"));
            }
        };
        let what = format!("{}{}", if peek { "peek_line+read_line" } else { "read_line" }, if truncated { " (last byte missing)" } else { "" });
        let ok = match class {
            Class::Flush => first == "none" && stopped == Some(PacketLineRef::Flush) && next == "none",
            Class::Delim => first == "Delimiter" && next == "data:2:111",
            Class::ResponseEnd => first == "ResponseEnd" && next == "data:2:111",
            Class::Invalid => first == "decode-error",
            Class::TooLong => first == "decode-error" || first.starts_with("io:"),
            Class::Data(_) if truncated => first == "io:UnexpectedEof",
            Class::Data(n) => first == format!("data:{n}:{}", body[0]) && next == "data:2:111",
        };
        if !ok {
            return fail("", format!("{what}: first result {first}, stopped_at {stopped:?}, next {next}; expected class {class:?}"));
        }
    }
    Ok(())
}

fn enumerate_prefixes(r: &mut EnumRecorder) {
    let body: Vec<u8> = (0..65_536usize).map(|i| (i as u8) ^ 0x5a).collect();
    let nthreads = 16usize;
    // work list: (prefix, class, full_reader)
    let mut work: Vec<([u8; 4], Class, bool)> = Vec::new();
    for v in 0..=0xffffusize {
        let p = hex4(v);
        work.push((p, classify_value(v), true));
        let up = [p[0].to_ascii_uppercase(), p[1].to_ascii_uppercase(), p[2].to_ascii_uppercase(), p[3].to_ascii_uppercase()];
        if up != p {
            work.push((up, classify_value(v), false));
        }
    }
    let n_hex = work.len();
    // non-hex: one position replaced
    const BAD: &[u8] = b"gGzZ xX-+:/@`[{~\x00\x7f\x80\xff\n\r.,_";
    for pos in 0..4 {
        for &b in BAD {
            for base in [*b"0000", *b"0009", *b"ffff", *b"00a0", *b"FFF0", *b"1234"] {
                let mut p = base;
                p[pos] = b;
                work.push((p, Class::Invalid, true));
            }
        }
    }
    let results: std::sync::Mutex<Vec<(usize, Result<(), (String, String)>)>> = std::sync::Mutex::new(Vec::new());
    std::thread::scope(|scope| {
        for tix in 0..nthreads {
            let work = &work;
            let body = &body;
            let results = &results;
            scope.spawn(move || {
                let mut it = StreamingPeekableIter::new(io::Cursor::new(Vec::new()), &[PacketLineRef::Flush], false);
                let mut local = Vec::new();
                // interleave so that every thread gets short and long lines
                let mut i = tix;
                while i < work.len() {
                    let (p, class, full) = work[i];
                    let res = check_prefix(p, class, body, &mut it, full);
                    if res.is_err() {
                        // the iterator may be in an arbitrary state after a panic
                        it = StreamingPeekableIter::new(io::Cursor::new(Vec::new()), &[PacketLineRef::Flush], false);
                    }
                    local.push((i, res));
                    i += nthreads;
                }
                results.lock().unwrap().extend(local);
            });
        }
    });
    let mut results = results.into_inner().unwrap();
    results.sort_by_key(|(i, _)| *i);
    let mut reported: Vec<String> = Vec::new();
    let mut per_sig: std::collections::BTreeMap<String, u64> = std::collections::BTreeMap::new();
    for (i, res) in results {
        let (p, class, _) = work[i];
        let nontrivial = class == Class::TooLong || matches!(class, Class::Data(n) if n >= 59_996) || class == Class::Invalid;
        r.eval(i as u64, nontrivial);
        match class {
            Class::TooLong => r.label("prefix-fff1..ffff"),
            Class::Invalid => r.label("invalid-or-non-hex"),
            Class::Data(_) => r.label("data"),
            _ => r.label("control"),
        }
        if i >= 65_521 * 2 - 40 && i < 65_521 * 2 - 36 {
            r.sample(format!("prefix {} -> {class:?}", show(&p)));
        }
        if let Err((sig, msg)) = res {
            *per_sig.entry(sig.clone()).or_default() += 1;
            // one report per class keeps room for different failures
            if !reported.contains(&sig) || sig.is_empty() {
                reported.push(sig.clone());
                r.fail(&sig, msg, &p);
            }
        }
    }
    r.sample(format!("{} hex prefixes (lower and upper case), {} non-hex prefixes", n_hex, work.len() - n_hex));
    r.extra("failures_per_signature", serde_json::json!(per_sig));
    r.exhaustive = true;
}
