//! C23 — registered tempfiles are removed when the process is told to terminate.
//!
//! The code under test runs in WORKER processes (this binary, `--c23-worker`, handled before `Check::new`), which install
//! the crate's handler with `signal::setup(..)` and execute a script decoded from the tape. A worker keeps a journal in a
//! shared file mapping (plain memory stores, no syscalls): per tempfile `creating / idle / in-call / persisting /
//! persisted / dropping / dropped / taken`, written before entering and after leaving every API call.
//!
//! Sub-checks
//! * `signal-at-syscall` (fault enumeration) — single-threaded scripts; a counting pass under `strace` lists every syscall
//!   the worker makes between the start and the end of the script; for EVERY one of them the worker is re-run with
//!   `strace -e inject=<name>:signal=<SIG>:when=<k>` (k = per-name ordinal, strace keeps one counter per syscall name), which
//!   makes the handler run right after that syscall. A `getppid()` between any two operations gives the points where
//!   all tempfiles are idle.
//! * `fork-ownership` — the worker forks in the middle of the script, parent and child both own tempfiles (plus inherited
//!   ones); one of them signals itself once both are done; the other one's files have to stay.
//! * `signal-storm` — 1..3 threads create/write/close/persist/take/drop tempfiles and lock files while hundreds of
//!   termination signals are handled (mode `DeleteTempfilesOnTermination`, so the process survives them) on the raising
//!   thread, the main thread or a chosen worker thread; the run must not deadlock or crash, and after a last signal
//!   delivered when all threads are quiet nothing but persisted and taken files may exist.
use gix_tempfile::{AutoRemove, ContainingDirectory, Handle};
use std::collections::BTreeMap;
use std::io::Write;
use std::os::unix::process::ExitStatusExt;
use std::path::{Path, PathBuf};
use std::sync::atomic::{AtomicU32, AtomicU64, AtomicUsize, Ordering::SeqCst};
use std::time::{Duration, Instant};
use vp::*;

const SIGNALS: [i32; 3] = [libc::SIGTERM, libc::SIGINT, libc::SIGQUIT];
const NSLOTS: usize = 16;

// ------------------------------------------------------------------------------------------------
// scripts

#[derive(Clone, Copy, Debug, Hash, PartialEq, Eq)]
enum How {
    New,
    WritableAt,
    MarkAt,
    LockFile,
    LockMarker,
}

#[derive(Clone, Copy, Debug, Hash, PartialEq, Eq)]
enum Op {
    Create { slot: usize, how: How, nested: bool },
    Write { slot: usize },
    Close { slot: usize },
    Persist { slot: usize },
    Take { slot: usize },
    Drop { slot: usize },
}

#[derive(Clone, Copy, Debug, PartialEq, Eq)]
enum Model {
    Free,
    Writable(How),
    /// closed handle; `true` if it can be persisted/committed
    Closed(How, bool),
    Taken,
    Gone,
}

/// Decode up to `n` valid operations over slots `lo..hi`, continuing from `model`.
fn gen_ops(t: &mut Tape, n: usize, lo: usize, hi: usize, model: &mut [Model; NSLOTS], force_creates: usize) -> Vec<Op> {
    let mut ops = Vec::new();
    for i in 0..n {
        let live: Vec<usize> = (lo..hi).filter(|&s| !matches!(model[s], Model::Free | Model::Gone)).collect();
        let free: Vec<usize> = (lo..hi).filter(|&s| model[s] == Model::Free).collect();
        let create = !free.is_empty() && (i < force_creates || live.is_empty() || t.chance(80));
        if create {
            let slot = free[0];
            let how = *t.pick(&[How::New, How::WritableAt, How::MarkAt, How::LockFile, How::LockMarker, How::WritableAt]);
            let nested = how != How::New && t.chance(90);
            model[slot] = match how {
                How::New | How::WritableAt | How::LockFile => Model::Writable(how),
                How::MarkAt => Model::Closed(how, true),
                How::LockMarker => Model::Closed(how, false),
            };
            ops.push(Op::Create { slot, how, nested });
            continue;
        }
        if live.is_empty() {
            break;
        }
        let slot = *t.pick(&live);
        let op = match model[slot] {
            Model::Writable(how) => match t.weighted(&[4, 2, 2, 1, 2]) {
                0 => Op::Write { slot },
                1 => {
                    model[slot] = Model::Closed(how, true);
                    Op::Close { slot }
                }
                2 => {
                    model[slot] = Model::Gone;
                    Op::Persist { slot }
                }
                3 if how != How::LockFile => {
                    model[slot] = Model::Taken;
                    Op::Take { slot }
                }
                _ => {
                    model[slot] = Model::Gone;
                    Op::Drop { slot }
                }
            },
            Model::Closed(how, persistable) => match t.weighted(&[3, 1, 2]) {
                0 if persistable => {
                    model[slot] = Model::Gone;
                    Op::Persist { slot }
                }
                1 if !matches!(how, How::LockFile | How::LockMarker) => {
                    model[slot] = Model::Taken;
                    Op::Take { slot }
                }
                _ => {
                    model[slot] = Model::Gone;
                    Op::Drop { slot }
                }
            },
            Model::Taken => {
                model[slot] = Model::Gone;
                Op::Drop { slot }
            }
            Model::Free | Model::Gone => unreachable!(),
        };
        ops.push(op);
    }
    ops
}

fn write_payload(slot: usize, nth: usize) -> Vec<u8> {
    format!("data-{slot}-{nth};").into_bytes()
}

/// what the persisted file of `slot` has to contain when `ops` ran to completion up to its Persist
fn persisted_content(ops: &[Op], slot: usize) -> Vec<u8> {
    let mut v = Vec::new();
    let mut nth = 0;
    for op in ops {
        match *op {
            Op::Write { slot: s } if s == slot => {
                v.extend(write_payload(slot, nth));
                nth += 1;
            }
            Op::Persist { slot: s } if s == slot => break,
            _ => {}
        }
    }
    v
}

// ------------------------------------------------------------------------------------------------
// journal (shared file mapping)

const ST_NONE: u32 = 0;
const ST_CREATING: u32 = 1;
const ST_IDLE: u32 = 2;
const ST_INCALL: u32 = 3;
const ST_PERSISTED: u32 = 4;
const ST_DROPPED: u32 = 5;
const ST_TAKEN: u32 = 6;
const ST_PERSISTING: u32 = 7;
const ST_DROPPING: u32 = 8;
const ST_ERROR: u32 = 9;

fn state_name(s: u32) -> &'static str {
    match s {
        ST_NONE => "none",
        ST_CREATING => "creating",
        ST_IDLE => "idle",
        ST_INCALL => "in-call",
        ST_PERSISTED => "persisted",
        ST_DROPPED => "dropped",
        ST_TAKEN => "taken",
        ST_PERSISTING => "persisting",
        ST_DROPPING => "dropping",
        ST_ERROR => "error",
        _ => "?",
    }
}

const W_PID: usize = 0;
const W_CHILD_PID: usize = 1;
const W_PARENT_DONE: usize = 2;
const W_CHILD_DONE: usize = 3;
const W_CHILD_STATUS: usize = 4;
const W_CHILD_REAPED: usize = 5;
const W_OPS_DONE: usize = 6;
const W_SLOTS: usize = 32; // per slot: [state, owner pid]
const JOURNAL_BYTES: usize = 4096;

struct Journal {
    ptr: *mut u32,
}
unsafe impl Sync for Journal {}
unsafe impl Send for Journal {}

impl Journal {
    fn map(path: &Path) -> std::io::Result<Journal> {
        use std::os::unix::io::AsRawFd;
        let f = std::fs::OpenOptions::new().read(true).write(true).open(path)?;
        let ptr = unsafe {
            libc::mmap(
                std::ptr::null_mut(),
                JOURNAL_BYTES,
                libc::PROT_READ | libc::PROT_WRITE,
                libc::MAP_SHARED,
                f.as_raw_fd(),
                0,
            )
        };
        if ptr == libc::MAP_FAILED {
            return Err(std::io::Error::last_os_error());
        }
        Ok(Journal { ptr: ptr as *mut u32 })
    }
    fn word(&self, i: usize) -> &AtomicU32 {
        assert!(i * 4 < JOURNAL_BYTES);
        unsafe { &*(self.ptr.add(i) as *const AtomicU32) }
    }
    fn set_state(&self, slot: usize, st: u32) {
        self.word(W_SLOTS + slot * 2).store(st, SeqCst);
    }
    fn set_owner(&self, slot: usize, pid: u32) {
        self.word(W_SLOTS + slot * 2 + 1).store(pid, SeqCst);
    }
}

/// the journal as the parent reads it after the worker is gone
struct JournalView(Vec<u8>);
impl JournalView {
    fn read(path: &Path) -> std::io::Result<JournalView> {
        Ok(JournalView(std::fs::read(path)?))
    }
    fn word(&self, i: usize) -> u32 {
        let b = &self.0[i * 4..i * 4 + 4];
        u32::from_ne_bytes([b[0], b[1], b[2], b[3]])
    }
    fn state(&self, slot: usize) -> u32 {
        self.word(W_SLOTS + slot * 2)
    }
    fn owner(&self, slot: usize) -> u32 {
        self.word(W_SLOTS + slot * 2 + 1)
    }
}

// ------------------------------------------------------------------------------------------------
// worker side

enum H {
    W(Handle<gix_tempfile::handle::Writable>),
    C(Handle<gix_tempfile::handle::Closed>),
    LF(gix_lock::File),
    LM(gix_lock::Marker),
    /// what `take()` handed out (a `tempfile::NamedTempFile` or `TempPath`): removed from disk when dropped
    Taken(#[allow(dead_code)] Box<dyn std::any::Any>),
}

fn slot_dir(root: &Path, slot: usize) -> PathBuf {
    root.join(format!("f{slot}"))
}
fn slot_file_dir(root: &Path, slot: usize, nested: bool) -> PathBuf {
    let d = slot_dir(root, slot);
    if nested {
        d.join("d").join("e")
    } else {
        d
    }
}
fn persist_target(root: &Path, slot: usize, how: How, nested: bool) -> PathBuf {
    match how {
        How::LockFile | How::LockMarker => slot_file_dir(root, slot, nested).join("res"),
        _ => root.join(format!("p{slot}")),
    }
}

fn create(root: &Path, slot: usize, how: How, nested: bool) -> Result<H, String> {
    let base = slot_dir(root, slot);
    std::fs::create_dir_all(&base).map_err(|e| e.to_string())?;
    let dir = slot_file_dir(root, slot, nested);
    let (containing, cleanup) = if nested {
        (
            ContainingDirectory::CreateAllRaceProof(Default::default()),
            AutoRemove::TempfileAndEmptyParentDirectoriesUntil {
                boundary_directory: base.clone(),
            },
        )
    } else {
        (ContainingDirectory::Exists, AutoRemove::Tempfile)
    };
    let e = |e: std::io::Error| e.to_string();
    Ok(match how {
        How::New => H::W(gix_tempfile::new(&dir, containing, cleanup).map_err(e)?),
        How::WritableAt => H::W(gix_tempfile::writable_at(dir.join(format!("t{slot}.tmp")), containing, cleanup).map_err(e)?),
        How::MarkAt => H::C(gix_tempfile::mark_at(dir.join(format!("t{slot}.tmp")), containing, cleanup).map_err(e)?),
        How::LockFile => H::LF(
            gix_lock::File::acquire_to_update_resource(dir.join("res"), gix_lock::acquire::Fail::Immediately, nested.then(|| base.clone()))
                .map_err(|e| e.to_string())?,
        ),
        How::LockMarker => H::LM(
            gix_lock::Marker::acquire_to_hold_resource(dir.join("res"), gix_lock::acquire::Fail::Immediately, nested.then(|| base.clone()))
                .map_err(|e| e.to_string())?,
        ),
    })
}

struct Exec<'a> {
    root: PathBuf,
    j: &'a Journal,
    handles: Vec<Option<H>>,
    how: Vec<(How, bool)>,
    writes: Vec<usize>,
    /// the last persist of the slot handed back proof (an open file) that the tempfile was really renamed; without it
    /// `persist()`/`commit()` also succeed when an earlier handler run took the tempfile away (documented)
    persist_verified: Vec<bool>,
    marker_between_ops: bool,
}

impl<'a> Exec<'a> {
    fn new(root: &Path, j: &'a Journal, marker_between_ops: bool) -> Self {
        Exec {
            root: root.to_owned(),
            j,
            handles: (0..NSLOTS).map(|_| None).collect(),
            how: vec![(How::New, false); NSLOTS],
            writes: vec![0; NSLOTS],
            persist_verified: vec![false; NSLOTS],
            marker_between_ops,
        }
    }
    /// Returns Err when an API call failed (only legitimate after a handler already ran in this process).
    fn run(&mut self, op: Op) -> Result<(), String> {
        let j = self.j;
        let res = (|| -> Result<(), String> {
            match op {
                Op::Create { slot, how, nested } => {
                    j.set_owner(slot, std::process::id());
                    j.set_state(slot, ST_CREATING);
                    self.how[slot] = (how, nested);
                    match create(&self.root, slot, how, nested) {
                        Ok(h) => {
                            self.handles[slot] = Some(h);
                            j.set_state(slot, ST_IDLE);
                        }
                        Err(e) => {
                            j.set_state(slot, ST_ERROR);
                            return Err(format!("create {how:?}: {e}"));
                        }
                    }
                }
                Op::Write { slot } => {
                    let data = write_payload(slot, self.writes[slot]);
                    j.set_state(slot, ST_INCALL);
                    let r = match self.handles[slot].as_mut() {
                        Some(H::W(h)) => h.write_all(&data).map_err(|e| e.to_string()),
                        Some(H::LF(f)) => f.write_all(&data).map_err(|e| e.to_string()),
                        _ => Err("write on a handle that is not writable".into()),
                    };
                    match r {
                        Ok(()) => {
                            self.writes[slot] += 1;
                            j.set_state(slot, ST_IDLE);
                        }
                        Err(e) => {
                            j.set_state(slot, ST_ERROR);
                            return Err(format!("write: {e}"));
                        }
                    }
                }
                Op::Close { slot } => {
                    j.set_state(slot, ST_INCALL);
                    let r = match self.handles[slot].take() {
                        Some(H::W(h)) => h.close().map(H::C).map_err(|e| e.to_string()),
                        Some(H::LF(f)) => f.close().map(H::LM).map_err(|e| e.to_string()),
                        _ => Err("close on a handle that is not writable".into()),
                    };
                    match r {
                        Ok(h) => {
                            self.handles[slot] = Some(h);
                            j.set_state(slot, ST_IDLE);
                        }
                        Err(e) => {
                            j.set_state(slot, ST_ERROR);
                            return Err(format!("close: {e}"));
                        }
                    }
                }
                Op::Persist { slot } => {
                    let (how, nested) = self.how[slot];
                    let target = persist_target(&self.root, slot, how, nested);
                    j.set_state(slot, ST_PERSISTING);
                    let r = match self.handles[slot].take() {
                        Some(H::W(h)) => h.persist(&target).map(|f| f.is_some()).map_err(|e| e.error.to_string()),
                        Some(H::C(h)) => h.persist(&target).map(|_| false).map_err(|e| e.error.to_string()),
                        Some(H::LF(f)) => f.commit().map(|(_, f)| f.is_some()).map_err(|e| e.error.to_string()),
                        Some(H::LM(m)) => m.commit().map(|_| false).map_err(|e| e.error.to_string()),
                        _ => Err("persist on a missing handle".into()),
                    };
                    match r {
                        Ok(verified) => {
                            self.persist_verified[slot] = verified;
                            j.set_state(slot, ST_PERSISTED)
                        }
                        Err(e) => {
                            j.set_state(slot, ST_ERROR);
                            return Err(format!("persist: {e}"));
                        }
                    }
                }
                Op::Take { slot } => {
                    j.set_state(slot, ST_INCALL);
                    let taken = match self.handles[slot].take() {
                        Some(H::W(h)) => h.take().map(|f| H::Taken(Box::new(f))),
                        Some(H::C(h)) => h.take().map(|f| H::Taken(Box::new(f))),
                        _ => None,
                    };
                    // from here on the file is the caller's business, not the registry's
                    j.set_state(slot, ST_TAKEN);
                    self.handles[slot] = taken;
                }
                Op::Drop { slot } => {
                    j.set_state(slot, ST_DROPPING);
                    drop(self.handles[slot].take());
                    j.set_state(slot, ST_DROPPED);
                }
            }
            Ok(())
        })();
        j.word(W_OPS_DONE).fetch_add(1, SeqCst);
        if self.marker_between_ops {
            unsafe { libc::getppid() };
        }
        res
    }
}

fn no_core_dumps() {
    let lim = libc::rlimit { rlim_cur: 0, rlim_max: 0 };
    unsafe { libc::setrlimit(libc::RLIMIT_CORE, &lim) };
}

fn bounded_pause() -> ! {
    // the harness kills us; never stay around for long if it does not
    for _ in 0..1200 {
        std::thread::sleep(Duration::from_millis(100));
    }
    unsafe { libc::_exit(0) }
}

fn wait_flag(j: &Journal, w: usize) {
    for _ in 0..600_000 {
        if j.word(w).load(SeqCst) != 0 {
            return;
        }
        std::thread::sleep(Duration::from_micros(100));
    }
}

fn worker_main(args: &[String]) -> ! {
    // --c23-worker <mode> <root> <journal> <tape-hex>
    no_core_dumps();
    let mode = args[2].as_str();
    let root = PathBuf::from(&args[3]);
    let j = match Journal::map(Path::new(&args[4])) {
        Ok(j) => j,
        Err(_) => std::process::exit(3),
    };
    let tape = unhex(&args[5]).unwrap_or_default();
    let mut t = Tape::new(&tape);
    j.word(W_PID).store(std::process::id(), SeqCst);
    match mode {
        "syscall" => {
            gix_tempfile::signal::setup(gix_tempfile::signal::handler::Mode::DeleteTempfilesOnTerminationAndRestoreDefaultBehaviour);
            let ops = gen_single(&mut t);
            let mut ex = Exec::new(&root, &j, true);
            unsafe { libc::getppid() }; // start marker
            for op in ops {
                if ex.run(op).is_err() {
                    std::process::exit(4);
                }
            }
            // no destructors: whatever is registered stays registered and idle
            std::process::exit(0);
        }
        "fork" => {
            gix_tempfile::signal::setup(gix_tempfile::signal::handler::Mode::DeleteTempfilesOnTerminationAndRestoreDefaultBehaviour);
            let plan = gen_fork(&mut t);
            let mut ex = Exec::new(&root, &j, false);
            for op in &plan.prefix {
                if ex.run(*op).is_err() {
                    std::process::exit(4);
                }
            }
            let pid = unsafe { libc::fork() };
            if pid < 0 {
                std::process::exit(5);
            }
            if pid == 0 {
                j.word(W_CHILD_PID).store(std::process::id(), SeqCst);
                for op in &plan.child {
                    if ex.run(*op).is_err() {
                        unsafe { libc::_exit(4) };
                    }
                }
                j.word(W_CHILD_DONE).store(1, SeqCst);
                if plan.target_child {
                    wait_flag(&j, W_PARENT_DONE);
                    unsafe { libc::kill(libc::getpid(), plan.sig) };
                    std::thread::sleep(Duration::from_secs(20));
                    unsafe { libc::_exit(99) };
                }
                std::mem::forget(ex);
                bounded_pause();
            }
            for op in &plan.parent {
                if ex.run(*op).is_err() {
                    std::process::exit(4);
                }
            }
            j.word(W_PARENT_DONE).store(1, SeqCst);
            if plan.target_child {
                let mut status = 0i32;
                unsafe { libc::waitpid(pid, &mut status, 0) };
                j.word(W_CHILD_STATUS).store(status as u32, SeqCst);
                j.word(W_CHILD_REAPED).store(1, SeqCst);
                let mut out = std::io::stdout();
                let _ = out.write_all(b"x\n");
                let _ = out.flush();
                std::mem::forget(ex);
                bounded_pause();
            } else {
                wait_flag(&j, W_CHILD_DONE);
                unsafe { libc::kill(libc::getpid(), plan.sig) };
                std::thread::sleep(Duration::from_secs(20));
                std::process::exit(99);
            }
        }
        "storm" => storm_worker(&root, &mut t),
        _ => std::process::exit(6),
    }
}

// ------------------------------------------------------------------------------------------------
// signal-at-syscall

fn gen_single(t: &mut Tape) -> Vec<Op> {
    let mut model = [Model::Free; NSLOTS];
    let n = t.range(4, 14);
    gen_ops(t, n, 0, 12, &mut model, 2)
}

fn files_below(dir: &Path) -> Vec<PathBuf> {
    let mut out = Vec::new();
    let mut stack = vec![dir.to_owned()];
    while let Some(d) = stack.pop() {
        if let Ok(rd) = std::fs::read_dir(&d) {
            for e in rd.flatten() {
                let p = e.path();
                if e.file_type().map(|t| t.is_dir()).unwrap_or(false) {
                    stack.push(p);
                } else {
                    out.push(p);
                }
            }
        }
    }
    out.sort();
    out
}

struct Judged {
    registered: usize,
    idle: usize,
    states: String,
}

/// Compare what is on disk after the signalled process `victim` is gone with the journal.
/// `ops` = all operations that could have touched each slot (for persisted content); `how` per slot.
fn judge(root: &Path, jv: &JournalView, how: &BTreeMap<usize, (How, bool)>, content_ops: &[Op], victim: u32) -> Result<Judged, String> {
    let mut registered = 0;
    let mut idle = 0;
    let mut states = String::new();
    for (&slot, &(h, nested)) in how {
        let st = jv.state(slot);
        let owner = jv.owner(slot);
        states.push_str(&format!(" {slot}:{h:?}{}={}{}", if nested { "(nested)" } else { "" }, state_name(st), if owner == victim { "" } else { "(other process)" }));
        if st == ST_NONE {
            continue;
        }
        let target = persist_target(root, slot, h, nested);
        let temp: Vec<PathBuf> = files_below(&slot_dir(root, slot)).into_iter().filter(|p| *p != target).collect();
        if owner != victim {
            // registered by the other process of the fork: must be left alone
            match st {
                ST_IDLE => {
                    if temp.is_empty() {
                        return Err(format!("tempfile {slot} ({h:?}) is registered by process {owner}, not by the signalled process {victim}, but it was removed"));
                    }
                }
                ST_PERSISTED => {
                    if !target.exists() {
                        return Err(format!("persisted file of slot {slot} (other process) is gone"));
                    }
                }
                _ => {}
            }
            continue;
        }
        match st {
            ST_IDLE => {
                registered += 1;
                idle += 1;
                if !temp.is_empty() {
                    return Err(format!(
                        "tempfile {slot} ({h:?}{}) was registered and idle when the signal was handled, but {:?} still exists",
                        if nested { ", nested" } else { "" },
                        temp[0].strip_prefix(root).unwrap_or(&temp[0])
                    ));
                }
            }
            ST_INCALL => registered += 1,
            ST_PERSISTED => {
                let want = persisted_content(content_ops, slot);
                match std::fs::read(&target) {
                    Ok(got) if got == want => {}
                    Ok(got) => return Err(format!("persisted file of slot {slot} has content {:?}, written {:?}", show(&got), show(&want))),
                    Err(_) => return Err(format!("persisted file of slot {slot} ({h:?}) does not exist after the signal")),
                }
                if !temp.is_empty() {
                    return Err(format!("slot {slot} was persisted but {:?} is still there", temp[0]));
                }
            }
            ST_DROPPED => {
                if !temp.is_empty() {
                    return Err(format!("tempfile {slot} was dropped before the signal but {:?} exists", temp[0]));
                }
            }
            ST_PERSISTING => {
                if temp.is_empty() && !target.exists() {
                    return Err(format!("tempfile {slot} was being persisted: neither the tempfile nor the target exists"));
                }
            }
            _ => {}
        }
    }
    Ok(Judged { registered, idle, states })
}

fn how_of(ops: &[Op]) -> BTreeMap<usize, (How, bool)> {
    let mut m = BTreeMap::new();
    for op in ops {
        if let Op::Create { slot, how, nested } = *op {
            m.insert(slot, (how, nested));
        }
    }
    m
}

fn fresh_run_dir(base: &Path, n: usize) -> std::io::Result<(PathBuf, PathBuf)> {
    let root = base.join(format!("r{n}"));
    std::fs::create_dir_all(&root)?;
    let journal = base.join(format!("r{n}.journal"));
    std::fs::write(&journal, vec![0u8; JOURNAL_BYTES])?;
    Ok((root, journal))
}

fn worker_cmd(mode: &str, root: &Path, journal: &Path, tape: &[u8], strace: Option<Vec<String>>) -> std::io::Result<std::process::Command> {
    let exe = std::env::current_exe()?;
    let mut cmd = match strace {
        Some(args) => {
            let mut c = std::process::Command::new("strace");
            c.args(args);
            c.arg(exe);
            c
        }
        None => std::process::Command::new(exe),
    };
    cmd.arg("--c23-worker").arg(mode).arg(root).arg(journal).arg(hex(tape));
    cmd.stdin(std::process::Stdio::null())
        .stdout(std::process::Stdio::null())
        .stderr(std::process::Stdio::null());
    Ok(cmd)
}

static POINTS_TOTAL: AtomicU64 = AtomicU64::new(0);
static POINTS_NONTRIVIAL: AtomicU64 = AtomicU64::new(0);
static POINTS_ALL_IDLE: AtomicU64 = AtomicU64::new(0);
static SCRIPTS_ENUMERATED: AtomicU64 = AtomicU64::new(0);
static POINTS_BY_SYSCALL: std::sync::Mutex<BTreeMap<String, u64>> = std::sync::Mutex::new(BTreeMap::new());

fn sig_name(sig: i32) -> &'static str {
    match sig {
        libc::SIGTERM => "SIGTERM",
        libc::SIGINT => "SIGINT",
        libc::SIGQUIT => "SIGQUIT",
        _ => "SIG?",
    }
}

fn run_signal_at_syscall(t: &mut Tape, c: &mut Case) {
    let sig_base = t.below(3);
    let mut t2 = Tape::new(t.rest());
    let ops = gen_single(&mut t2);
    let tape = t2.consumed().to_vec();
    let how = how_of(&ops);
    c.key(&(sig_base, &ops));
    for op in &ops {
        c.label(match op {
            Op::Create { how: How::New, .. } => "op:new",
            Op::Create { how: How::WritableAt, .. } => "op:writable_at",
            Op::Create { how: How::MarkAt, .. } => "op:mark_at",
            Op::Create { how: How::LockFile, .. } => "op:lock-file",
            Op::Create { how: How::LockMarker, .. } => "op:lock-marker",
            Op::Write { .. } => "op:write",
            Op::Close { .. } => "op:close",
            Op::Persist { .. } => "op:persist",
            Op::Take { .. } => "op:take",
            Op::Drop { .. } => "op:drop",
        });
        c.label_if(matches!(op, Op::Create { nested: true, .. }), "nested-directories");
    }
    c.sample_with(|| format!("{ops:?}"));
    let scratch = infra!(c, Scratch::new("c23"), "scratch");
    // ---- counting pass
    let (root, journal) = infra!(c, fresh_run_dir(&scratch.path, 0), "run dir");
    let trace = scratch.join("trace");
    let strace_args = vec!["-o".to_string(), trace.display().to_string(), "-e".into(), "trace=all".into()];
    let st = infra!(
        c,
        worker_cmd("syscall", &root, &journal, &tape, Some(strace_args)).and_then(|mut cmd| cmd.status()),
        "strace counting pass"
    );
    if !st.success() {
        c.infra(format!("uninterrupted worker run under strace failed: {st}"));
        return;
    }
    {
        // sanity: the uninterrupted run leaves exactly the journalled end state
        let jv = infra!(c, JournalView::read(&journal), "journal");
        if jv.word(W_OPS_DONE) as usize != ops.len() {
            c.infra(format!("uninterrupted worker completed {} of {} operations", jv.word(W_OPS_DONE), ops.len()));
            return;
        }
    }
    let text = infra!(c, std::fs::read_to_string(&trace), "read trace");
    let mut ordinal: BTreeMap<String, usize> = BTreeMap::new();
    let mut calls: Vec<(String, usize)> = Vec::new();
    let mut marks: Vec<usize> = Vec::new();
    for line in text.lines() {
        if line.starts_with("+++") || line.starts_with("---") {
            continue;
        }
        if line.contains("<unfinished") || line.starts_with("<...") {
            c.infra("worker is not single-threaded (interleaved trace)".to_string());
            return;
        }
        let name = line.split('(').next().unwrap_or("").trim().to_string();
        if name.is_empty() || !name.chars().all(|ch| ch.is_ascii_alphanumeric() || ch == '_') {
            continue;
        }
        let k = ordinal.entry(name.clone()).or_insert(0);
        *k += 1;
        if name == "getppid" {
            marks.push(calls.len());
        }
        calls.push((name, *k));
    }
    if marks.len() != ops.len() + 1 {
        c.infra(format!("expected {} getppid markers in the trace, found {}", ops.len() + 1, marks.len()));
        return;
    }
    let points: Vec<(String, usize)> = calls[marks[0] + 1..=*marks.last().unwrap()].to_vec();
    // ---- one run per delivery point
    let mut any_nontrivial = false;
    for (n, (name, k)) in points.iter().enumerate() {
        let sig = SIGNALS[(sig_base + n) % 3];
        let (root, journal) = infra!(c, fresh_run_dir(&scratch.path, n + 1), "run dir");
        let args = vec![
            "-o".to_string(),
            "/dev/null".into(),
            "-e".into(),
            format!("trace={name}"),
            "-e".into(),
            format!("inject={name}:signal={}:when={k}", sig_name(sig)),
        ];
        let st = infra!(
            c,
            worker_cmd("syscall", &root, &journal, &tape, Some(args)).and_then(|mut cmd| cmd.status()),
            "strace injection run"
        );
        let jv = infra!(c, JournalView::read(&journal), "journal");
        let at = format!("{}#{k} (delivery point {} of {}, after {} completed operations)", name, n + 1, points.len(), jv.word(W_OPS_DONE));
        if st.code() == Some(0) {
            c.infra(format!("{} injected at {at} did not reach the worker (it exited normally)", sig_name(sig)));
            return;
        }
        ensure!(
            c,
            st.signal() == Some(sig),
            "{} delivered at {at}: the worker ended with {st} instead of dying by that signal (default behaviour must be restored)",
            sig_name(sig)
        );
        match judge(&root, &jv, &how, &ops, jv.word(W_PID)) {
            Ok(j) => {
                POINTS_TOTAL.fetch_add(1, SeqCst);
                *POINTS_BY_SYSCALL.lock().unwrap().entry(name.clone()).or_default() += 1;
                if j.registered >= 2 && j.idle >= 1 {
                    POINTS_NONTRIVIAL.fetch_add(1, SeqCst);
                    any_nontrivial = true;
                }
                if j.registered >= 2 && j.idle == j.registered {
                    POINTS_ALL_IDLE.fetch_add(1, SeqCst);
                }
                let _ = j.states;
            }
            Err(msg) => {
                c.fail(format!("{} delivered at {at}: {msg}; script {ops:?}", sig_name(sig)));
                return;
            }
        }
        let _ = std::fs::remove_dir_all(&root);
    }
    SCRIPTS_ENUMERATED.fetch_add(1, SeqCst);
    c.label_if(points.len() >= 100, ">=100-delivery-points");
    c.nontrivial(any_nontrivial);
}

// ------------------------------------------------------------------------------------------------
// fork-ownership

#[derive(Debug, Hash)]
struct ForkPlan {
    prefix: Vec<Op>,
    parent: Vec<Op>,
    child: Vec<Op>,
    target_child: bool,
    sig: i32,
}

fn gen_fork(t: &mut Tape) -> ForkPlan {
    let target_child = t.bool();
    let sig = *t.pick(&SIGNALS);
    let mut model = [Model::Free; NSLOTS];
    let np = t.range(0, 5);
    let prefix = gen_ops(t, np, 0, 4, &mut model, 1);
    let mut parent_model = model;
    let n1 = t.range(1, 6);
    let parent = gen_ops(t, n1, 0, 8, &mut parent_model, 1);
    // the child only works on slots of its own
    let mut child_model = [Model::Free; NSLOTS];
    let n2 = t.range(1, 6);
    let child = gen_ops(t, n2, 8, 16, &mut child_model, 1);
    ForkPlan {
        prefix,
        parent,
        child,
        target_child,
        sig,
    }
}

fn kill_quietly(pid: u32) {
    if pid > 1 {
        unsafe { libc::kill(pid as i32, libc::SIGKILL) };
    }
}

fn run_fork(t: &mut Tape, c: &mut Case) {
    let mut t2 = Tape::new(t.rest());
    let plan = gen_fork(&mut t2);
    let tape = t2.consumed().to_vec();
    c.key(&plan);
    c.label(if plan.target_child { "signal-to-child" } else { "signal-to-parent" });
    c.label(sig_name(plan.sig));
    c.sample_with(|| format!("{plan:?}"));
    let scratch = infra!(c, Scratch::new("c23f"), "scratch");
    let (root, journal) = infra!(c, fresh_run_dir(&scratch.path, 0), "run dir");
    let mut cmd = infra!(c, worker_cmd("fork", &root, &journal, &tape, None), "worker");
    cmd.stdout(std::process::Stdio::piped());
    let mut child = infra!(c, cmd.spawn(), "spawn worker");
    let all_ops: Vec<Op> = plan.prefix.iter().chain(&plan.parent).chain(&plan.child).copied().collect();
    let how = how_of(&all_ops);
    let result = (|| -> Result<(u32, JournalView), String> {
        if plan.target_child {
            use std::io::Read;
            let mut b = [0u8; 1];
            let n = child.stdout.as_mut().unwrap().read(&mut b).map_err(|e| e.to_string())?;
            let jv = JournalView::read(&journal).map_err(|e| e.to_string())?;
            if n == 0 || jv.word(W_CHILD_REAPED) == 0 {
                return Err(format!("INFRA worker ended before its child was signalled ({:?})", child.try_wait()));
            }
            let status = jv.word(W_CHILD_STATUS) as i32;
            if !(libc::WIFSIGNALED(status) && libc::WTERMSIG(status) == plan.sig) {
                return Err(format!("the forked child sent itself {} but ended with wait status {status:#x} instead of dying by it", sig_name(plan.sig)));
            }
            Ok((jv.word(W_CHILD_PID), jv))
        } else {
            let st = child.wait().map_err(|e| e.to_string())?;
            let jv = JournalView::read(&journal).map_err(|e| e.to_string())?;
            if st.code().is_some() && st.code() != Some(99) {
                return Err(format!("INFRA worker exited with {st}"));
            }
            if st.signal() != Some(plan.sig) {
                return Err(format!("the parent sent itself {} but ended with {st} instead of dying by it", sig_name(plan.sig)));
            }
            Ok((jv.word(W_PID), jv))
        }
    })();
    // whoever is still alive has been waiting for us: look at the files first, then get rid of it
    let verdict = result.and_then(|(victim, jv)| {
        let done = (jv.word(W_PARENT_DONE), jv.word(W_CHILD_DONE));
        if done != (1, 1) {
            return Err(format!("INFRA scripts incomplete at signal time: {done:?}"));
        }
        let j = judge(&root, &jv, &how, &all_ops, victim)?;
        let others_idle = how.keys().filter(|&&s| jv.owner(s) != victim && jv.state(s) == ST_IDLE).count();
        Ok((j, others_idle))
    });
    if !plan.target_child {
        if let Ok(jv) = JournalView::read(&journal) {
            kill_quietly(jv.word(W_CHILD_PID));
        }
    }
    let _ = child.kill();
    let _ = child.wait();
    match verdict {
        Ok((j, others_idle)) => {
            c.label_if(others_idle > 0, "other-process-has-idle-tempfiles");
            c.label_if(plan.target_child && plan.prefix.iter().any(|o| matches!(o, Op::Create { .. })), "child-inherits-parents-tempfiles");
            c.nontrivial(j.idle >= 1 && others_idle >= 1);
        }
        Err(m) if m.starts_with("INFRA ") => c.infra(m),
        Err(m) => c.fail(format!("{m}; plan {plan:?}")),
    }
}

// ------------------------------------------------------------------------------------------------
// signal-storm

#[derive(Debug, Hash, Clone)]
struct StormPlan {
    /// per thread: operation stream executed round-robin over its own slots
    threads: Vec<Vec<Op>>,
    signals: usize,
    /// 0 = raise() on the signalling thread, 1 = kill(getpid()), 2 = pthread_kill(worker thread)
    delivery: Vec<u8>,
    gap: u8,
}

fn gen_storm(t: &mut Tape) -> StormPlan {
    let nthreads = t.range(1, 3);
    let mut threads = Vec::new();
    for ti in 0..nthreads {
        let rounds = t.range(3, 8);
        let mut ops = Vec::new();
        for _ in 0..rounds {
            // every round starts from free slots again: slots are re-used, paths are unique per round (see storm_worker)
            let mut model = [Model::Free; NSLOTS];
            let n = t.range(3, 8);
            ops.extend(gen_ops(t, n, ti * 4, ti * 4 + 4, &mut model, 1));
            // end of round marker: drop what is left
            for s in ti * 4..ti * 4 + 4 {
                if !matches!(model[s], Model::Free | Model::Gone) && t.bool() {
                    ops.push(Op::Drop { slot: s });
                }
            }
            ops.push(Op::Create { slot: NSLOTS, how: How::New, nested: false }); // round separator (never executed)
        }
        threads.push(ops);
    }
    let signals = t.range(20, 400);
    let delivery = (0..8).map(|_| t.below(3) as u8).collect();
    StormPlan {
        threads,
        signals,
        delivery,
        gap: t.u8(),
    }
}

fn storm_worker(root: &Path, t: &mut Tape) -> ! {
    gix_tempfile::signal::setup(gix_tempfile::signal::handler::Mode::DeleteTempfilesOnTermination);
    let plan = gen_storm(t);
    let running = AtomicUsize::new(plan.threads.len());
    let tids: Vec<AtomicU64> = plan.threads.iter().map(|_| AtomicU64::new(0)).collect();
    let persisted = std::sync::Mutex::new(Vec::<PathBuf>::new());
    let taken = std::sync::Mutex::new(Vec::<PathBuf>::new());
    let errors_before_signal = AtomicUsize::new(0);
    let signals_sent = AtomicUsize::new(0);
    let signals_started = AtomicUsize::new(0);
    let journal_file = root.join("journal");
    let _ = std::fs::write(&journal_file, vec![0u8; JOURNAL_BYTES]);
    let j = Journal::map(&journal_file).unwrap_or_else(|_| std::process::exit(3));
    std::thread::scope(|s| {
        for (ti, ops) in plan.threads.iter().enumerate() {
            let (running, tids, persisted, taken, errors_before_signal, signals_started, j) =
                (&running, &tids, &persisted, &taken, &errors_before_signal, &signals_started, &j);
            s.spawn(move || {
                tids[ti].store(unsafe { libc::pthread_self() } as u64, SeqCst);
                let mut round = 0usize;
                let mut round_root = root.join(format!("t{ti}-r{round}"));
                let _ = std::fs::create_dir_all(&round_root);
                let mut ex = Exec::new(&round_root, j, false);
                let mut live: Vec<H> = Vec::new();
                for op in ops {
                    if matches!(op, Op::Create { slot: NSLOTS, .. }) {
                        // next round: keep what is still held (stays registered), continue in a fresh directory
                        for h in ex.handles.iter_mut() {
                            if let Some(h) = h.take() {
                                match h {
                                    H::Taken(_) => drop(h),
                                    h => live.push(h),
                                }
                            }
                        }
                        if live.len() > 24 {
                            live.drain(..12);
                        }
                        round += 1;
                        round_root = root.join(format!("t{ti}-r{round}"));
                        let _ = std::fs::create_dir_all(&round_root);
                        ex = Exec::new(&round_root, j, false);
                        continue;
                    }
                    match ex.run(*op) {
                        Ok(()) => match *op {
                            Op::Persist { slot } => {
                                let (how, nested) = ex.how[slot];
                                let target = persist_target(&round_root, slot, how, nested);
                                if ex.persist_verified[slot] {
                                    persisted.lock().unwrap().push(target);
                                } else {
                                    // a closed handle cannot tell whether a handler took the tempfile before: exempt
                                    taken.lock().unwrap().push(target);
                                }
                            }
                            Op::Take { slot } => {
                                // the taken file is removed by its own destructor at the end of the round or stays: exempt
                                taken.lock().unwrap().push(slot_dir(&round_root, slot));
                            }
                            _ => {}
                        },
                        Err(_) => {
                            // legitimate once a handler ran (the tempfile was taken away); drop the handle and go on
                            if signals_started.load(SeqCst) == 0 {
                                errors_before_signal.fetch_add(1, SeqCst);
                            }
                            let slot = match *op {
                                Op::Create { slot, .. } | Op::Write { slot } | Op::Close { slot } | Op::Persist { slot } | Op::Take { slot } | Op::Drop { slot } => slot,
                            };
                            ex.handles[slot] = None;
                        }
                    }
                }
                for h in ex.handles.iter_mut() {
                    if let Some(h) = h.take() {
                        match h {
                            H::Taken(_) => drop(h),
                            h => live.push(h),
                        }
                    }
                }
                running.fetch_sub(1, SeqCst);
                // keep the handles registered and idle until the process exits
                std::mem::forget(live);
            });
        }
        // the signalling thread
        let mut n = 0usize;
        while running.load(SeqCst) > 0 && n < plan.signals {
            let sig = SIGNALS[n % 3];
            signals_started.store(n + 1, SeqCst);
            match plan.delivery[n % plan.delivery.len()] {
                0 => unsafe {
                    libc::raise(sig);
                },
                1 => unsafe {
                    libc::kill(libc::getpid(), sig);
                },
                _ => {
                    let tid = tids[n % tids.len()].load(SeqCst);
                    if tid != 0 {
                        unsafe { libc::pthread_kill(tid as libc::pthread_t, sig) };
                    }
                }
            }
            n += 1;
            signals_sent.store(n, SeqCst);
            for _ in 0..(plan.gap as u32 + 1) * 40 {
                std::hint::spin_loop();
            }
            if n % 16 == 0 {
                std::thread::yield_now();
            }
        }
    });
    // everybody is quiet: this signal has to remove every tempfile that is still registered
    unsafe { libc::raise(libc::SIGTERM) };
    let mut report = String::new();
    report.push_str(&format!("signals {}\n", signals_sent.load(SeqCst) + 1));
    report.push_str(&format!("errors-before-first-signal {}\n", errors_before_signal.load(SeqCst)));
    for p in persisted.lock().unwrap().iter() {
        report.push_str(&format!("persisted {}\n", p.display()));
    }
    for p in taken.lock().unwrap().iter() {
        report.push_str(&format!("taken {}\n", p.display()));
    }
    let _ = std::fs::write(root.join("report"), report);
    std::process::exit(0);
}

/// all threads of `pid` asleep?
fn all_threads_sleeping(pid: u32) -> Option<bool> {
    let rd = std::fs::read_dir(format!("/proc/{pid}/task")).ok()?;
    let mut any = false;
    for e in rd.flatten() {
        let stat = std::fs::read_to_string(e.path().join("stat")).ok()?;
        let state = stat.rsplit(')').next()?.trim_start().chars().next()?;
        any = true;
        if state != 'S' {
            return Some(false);
        }
    }
    Some(any)
}

/// user-space backtraces of all threads (gdb), empty when gdb is not available
fn backtraces(pid: u32) -> String {
    let out = std::process::Command::new("timeout")
        .args(["120", "gdb", "-p", &pid.to_string(), "-batch", "-ex", "thread apply all bt 40"])
        .stdin(std::process::Stdio::null())
        .stderr(std::process::Stdio::null())
        .output();
    match out {
        Ok(o) => String::from_utf8_lossy(&o.stdout).to_string(),
        Err(_) => String::new(),
    }
}

/// Deadlock classes known on the pinned tree (both: the handler allocates while the interrupted thread is inside malloc).
/// Looks only at the frames the handler put on top of `cleanup_tempfiles_signal_safe` in the thread that runs it.
fn classify_deadlock(bt: &str) -> &'static str {
    for thread in bt.split("\nThread ") {
        let Some(pos) = thread.find("cleanup_tempfiles_signal_safe") else { continue };
        let above = &thread[..pos];
        if above.contains("lock_exclusive_slow") && !above.contains("unlock_exclusive_slow") {
            // the handler waits for a lock: not one of the known classes
            return "deadlock-under-signals";
        }
        if above.contains("unlock_exclusive_slow") {
            // releasing a shard another thread waits for enters parking_lot_core, which allocates its table on first use
            return "deadlock-handler-unlock-slow-path-allocates";
        }
        if above.contains("_try_entry") && above.contains("reserve_rehash") {
            // looking up an absent index with try_entry() reserves room for an insertion: the shard's table is re-allocated
            return "deadlock-handler-try-entry-rehash-allocates";
        }
    }
    "deadlock-under-signals"
}

fn excerpt(bt: &str) -> String {
    let keep: Vec<&str> = bt
        .lines()
        .filter(|l| l.starts_with("Thread ") || l.starts_with('#'))
        .map(|l| l.trim_end())
        .take(60)
        .collect();
    if keep.is_empty() {
        "(no backtrace: gdb unavailable)".into()
    } else {
        keep.join("\n")
    }
}

fn run_storm(t: &mut Tape, c: &mut Case) {
    let mut t2 = Tape::new(t.rest());
    let plan = gen_storm(&mut t2);
    let tape = t2.consumed().to_vec();
    c.key(&plan);
    c.label(match plan.threads.len() {
        1 => "1-thread",
        2 => "2-threads",
        _ => "3-threads",
    });
    c.label_if(plan.delivery.contains(&0), "raise-on-signalling-thread");
    c.label_if(plan.delivery.contains(&1), "kill-to-process");
    c.label_if(plan.delivery.contains(&2), "pthread_kill-to-worker-thread");
    c.sample_with(|| {
        format!(
            "threads={} ops={:?} signals<={} delivery={:?} gap={}",
            plan.threads.len(),
            plan.threads.iter().map(|o| o.len()).collect::<Vec<_>>(),
            plan.signals,
            plan.delivery,
            plan.gap
        )
    });
    let scratch = infra!(c, Scratch::new("c23s"), "scratch");
    let root = scratch.join("w");
    infra!(c, std::fs::create_dir_all(&root), "mkdir");
    let journal = scratch.join("unused.journal");
    infra!(c, std::fs::write(&journal, vec![0u8; JOURNAL_BYTES]), "journal");
    let mut child = infra!(c, worker_cmd("storm", &root, &journal, &tape, None).and_then(|mut cmd| cmd.spawn()), "spawn worker");
    let start = Instant::now();
    let mut next_probe = Duration::from_secs(30);
    let status = loop {
        match child.try_wait() {
            Ok(Some(st)) => break st,
            Ok(None) => {}
            Err(e) => {
                c.infra(format!("wait: {e}"));
                return;
            }
        }
        let waited = start.elapsed();
        if waited > next_probe {
            // a worker that is blocked for good (every thread asleep, repeatedly) is a deadlock; one that still runs is starved
            let mut asleep = 0;
            for _ in 0..5 {
                if all_threads_sleeping(child.id()) == Some(true) {
                    asleep += 1;
                }
                std::thread::sleep(Duration::from_millis(200));
            }
            if asleep == 5 {
                let bt = backtraces(child.id());
                let _ = child.kill();
                let _ = child.wait();
                let sig = classify_deadlock(&bt);
                c.fail_sig(
                    sig,
                    format!(
                        "the worker stopped making progress while handling termination signals (all threads asleep for good after {} s); blocked threads:\n{}\nplan {plan:?}",
                        waited.as_secs(),
                        excerpt(&bt)
                    ),
                );
                return;
            }
            if waited > Duration::from_secs(180) {
                let _ = child.kill();
                let _ = child.wait();
                c.infra("storm worker exceeded 180 s while still running".to_string());
                return;
            }
            next_probe = waited + Duration::from_secs(15);
        }
        std::thread::sleep(Duration::from_millis(2));
    };
    if let Some(sig) = status.signal() {
        // mode DeleteTempfilesOnTermination must not kill the process; SIGSEGV/SIGABRT would be a crash in the handler
        c.fail(format!("the worker died by signal {sig} although the handler is installed without default-behaviour emulation; plan {plan:?}"));
        return;
    }
    if status.code() != Some(0) {
        c.fail(format!("the worker ended with {status} (panic or abort while handling signals); plan {plan:?}"));
        return;
    }
    let report = infra!(c, std::fs::read_to_string(root.join("report")), "report");
    let mut persisted = Vec::new();
    let mut taken = Vec::new();
    let mut signals = 0usize;
    for line in report.lines() {
        if let Some(p) = line.strip_prefix("persisted ") {
            persisted.push(PathBuf::from(p));
        } else if let Some(p) = line.strip_prefix("taken ") {
            taken.push(PathBuf::from(p));
        } else if let Some(n) = line.strip_prefix("signals ") {
            signals = n.parse().unwrap_or(0);
        } else if let Some(n) = line.strip_prefix("errors-before-first-signal ") {
            ensure!(c, n == "0", "{n} tempfile operations failed before any signal was sent");
        }
    }
    for p in &persisted {
        ensure!(c, p.exists(), "persisted file {:?} was removed by a signal handler", p.strip_prefix(&root).unwrap_or(p));
    }
    let leftovers: Vec<PathBuf> = files_below(&root)
        .into_iter()
        .filter(|p| !persisted.contains(p) && !taken.iter().any(|t| p.starts_with(t)))
        .filter(|p| p.file_name().map_or(true, |n| n != "report" && n != "journal"))
        .collect();
    ensure!(
        c,
        leftovers.is_empty(),
        "after {signals} signals, the last one handled while all threads were quiet, {} registered tempfiles are still on disk, e.g. {:?}; plan {plan:?}",
        leftovers.len(),
        leftovers[0].strip_prefix(&root).unwrap_or(&leftovers[0])
    );
    c.label_if(signals >= 100, ">=100-signals-handled");
    c.nontrivial(signals >= 10 && plan.threads.iter().map(|o| o.len()).sum::<usize>() >= 20);
}

pub fn main() {
    let args: Vec<String> = std::env::args().collect();
    if args.len() == 6 && args[1] == "--c23-worker" {
        worker_main(&args);
    }
    let mut ck = Check::new("C23", "fault_enumeration");
    ck.rule("signal-at-syscall: scripts of 4..14 operations (new / writable_at / mark_at / gix-lock File and Marker, optionally in nested directories with cleanup boundary; write, close, persist/commit, take, drop) over up to 12 tempfiles in a single-threaded worker with the handler installed in mode DeleteTempfilesOnTerminationAndRestoreDefaultBehaviour; EVERY syscall the worker makes between the start and the end of the script (and a getppid() between any two operations) is a delivery point for SIGTERM/SIGINT/SIGQUIT in rotation: one worker run per point. Non-trivial: a script with a delivery point at which >= 2 tempfiles are registered and >= 1 is idle; distinct by hash of the decoded script. fork-ownership: prefix + fork + parent/child scripts, signal to parent or child; non-trivial: both processes hold an idle tempfile. signal-storm: 1..3 threads x 3..8 rounds of such scripts under 20..400 handled signals; non-trivial: >= 10 signals and >= 20 operations.");
    ck.assume("strace delivers the injected signal when the k-th invocation of the named syscall returns (checked by hand: the syscall is executed, the handler runs before the next instruction of the worker); its invocation counters are per syscall name, so a delivery point is (name, ordinal) taken from a counting pass of the same deterministic worker");
    ck.assume("tempfiles that are inside an API call when the handler runs (journal: creating / in-call / persisting / dropping) are exempt, as documented in the crate's 'Limitations'; so are files handed out by take()");
    ck.assume("signal-storm judges only the state after the last signal, which is raised when no other thread runs: while other threads mutate the registry the handler may skip a shard it cannot lock (documented), which is not observable from outside; a worker whose threads are all asleep (5 samples of /proc/<pid>/task/*/stat) 30 s or more after its start is a deadlock, classified by a gdb backtrace when gdb is installed; a worker still running after 180 s is inconclusive");

    ck.sub("signal-at-syscall", SubCfg::new(80, 2000).max_len(72).max_shrink(12), run_signal_at_syscall);
    let total = POINTS_TOTAL.load(SeqCst);
    if total > 0 {
        let by: Vec<String> = POINTS_BY_SYSCALL.lock().unwrap().iter().map(|(k, v)| format!("{k}:{v}")).collect();
        ck.diag(format!(
            "signal-at-syscall: {} scripts fully enumerated, {} delivery points evaluated, {} with >=2 registered and >=1 idle, {} with all (>=2) registered tempfiles idle; by syscall: {}",
            SCRIPTS_ENUMERATED.load(SeqCst),
            total,
            POINTS_NONTRIVIAL.load(SeqCst),
            POINTS_ALL_IDLE.load(SeqCst),
            by.join(" ")
        ));
    }
    ck.sub("fork-ownership", SubCfg::new(200, 5000).max_len(96).max_shrink(30), run_fork);
    ck.sub("signal-storm", SubCfg::new(120, 3000).max_len(600).threads(4).max_shrink(20), run_storm);
    ck.finish();
}
