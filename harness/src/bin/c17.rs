//! C17 — reference transactions terminate under lock contention.
//!
//! One case = a generated pre-state (written directly to disk), one C16-style transaction, a generated set of foreign
//! `<ref>.lock` / `packed-refs.lock` files and lock fail modes. The transaction runs in a child process of this binary
//! (`c17 --c17-child <git-dir> <tape-hex>`), so that a spinning transaction can be recognised by its CPU time and killed.
#[path = "c16.rs"]
#[allow(dead_code)]
mod reftx;

use gix_lock::acquire::Fail;
use reftx::*;
use std::collections::BTreeSet;
use std::path::Path;
use std::time::{Duration, Instant};
use vp::*;

#[derive(Clone, Copy, Debug, PartialEq, Eq, Hash)]
enum FailSpec {
    Immediately,
    BackoffMs(u64),
}
impl FailSpec {
    fn to_fail(self) -> Fail {
        match self {
            FailSpec::Immediately => Fail::Immediately,
            FailSpec::BackoffMs(ms) => Fail::AfterDurationWithBackoff(Duration::from_millis(ms)),
        }
    }
}

#[derive(Clone, Debug, PartialEq, Eq, Hash)]
struct Scenario {
    pre: PreState,
    tx: Tx,
    /// names whose `<name>.lock` is held by somebody else ("packed-refs" for the packed-refs lock)
    held: Vec<&'static str>,
    ref_fail: FailSpec,
    packed_fail: FailSpec,
}

fn gen_fail(t: &mut Tape) -> FailSpec {
    if t.bool() {
        FailSpec::BackoffMs(t.range(1, 50) as u64)
    } else {
        FailSpec::Immediately
    }
}

fn decode(t: &mut Tape) -> Scenario {
    let pre = gen_prestate(t);
    let m = pre.model();
    let mut tx = gen_tx(t, &m);
    // at a fixed rate make the first edit a dereferencing edit of a ref that is symbolic right now (HEAD mostly is)
    if t.chance(140) {
        let symbolic: Vec<&'static str> = m
            .iter()
            .filter(|(_, v)| matches!(v, Val::Sym(_)))
            .map(|(n, _)| *n)
            .collect();
        if !symbolic.is_empty() {
            let n = symbolic[t.below(symbolic.len())];
            tx.edits[0].name = n;
            tx.edits[0].deref = true;
        }
    }
    let pred = predict(&m, &tx);
    let mut candidates: Vec<&'static str> = Vec::new();
    for e in &pred.expanded {
        if !candidates.contains(&e.name) {
            candidates.push(e.name);
        }
    }
    let children: Vec<&'static str> = pred
        .expanded
        .iter()
        .filter(|e| e.parent.is_some())
        .map(|e| e.name)
        .collect();
    let mut held: Vec<&'static str> = Vec::new();
    match t.weighted(&[2, 4, 3]) {
        0 => {} // no contention at all: must behave exactly like C16
        2 if !children.is_empty() => {
            // only the lock of a referent reached by dereferencing
            held.push(children[t.below(children.len())]);
        }
        _ => {
            for n in &candidates {
                if t.chance(80) {
                    held.push(*n);
                }
            }
            if t.chance(64) {
                held.push("packed-refs");
            }
            if !children.is_empty() && t.chance(100) {
                let n = children[t.below(children.len())];
                if !held.contains(&n) {
                    held.push(n);
                }
            }
        }
    }
    let ref_fail = gen_fail(t);
    let packed_fail = gen_fail(t);
    Scenario {
        pre,
        tx,
        held,
        ref_fail,
        packed_fail,
    }
}

fn lock_rel_path(name: &str) -> String {
    format!("{name}.lock")
}

// ---------------------------------------------------------------------------------------------
// child: run the transaction and print one line

/// The child must never outlive the process that watches it (which may itself be killed by the runner's deadline), and
/// must never burn CPU without bound: die with the parent, hard CPU limit, hard wall-clock limit.
fn confine_child() {
    unsafe {
        libc::prctl(libc::PR_SET_PDEATHSIG, libc::SIGKILL as libc::c_ulong);
        if libc::getppid() == 1 {
            libc::_exit(3);
        }
        let lim = libc::rlimit {
            rlim_cur: 30,
            rlim_max: 30,
        };
        libc::setrlimit(libc::RLIMIT_CPU, &lim);
        let mem = libc::rlimit {
            rlim_cur: 1 << 30,
            rlim_max: 1 << 30,
        };
        libc::setrlimit(libc::RLIMIT_AS, &mem);
        libc::alarm(600);
    }
}

fn child_main(git_dir: &str, tape_hex: &str) -> ! {
    confine_child();
    let tape = unhex(tape_hex).unwrap_or_default();
    let mut t = Tape::new(&tape);
    let sc = decode(&mut t);
    let pool = Pool::build();
    let store = open_store(Path::new(git_dir));
    let line = match run_tx(&store, &sc.tx, &pool, sc.ref_fail.to_fail(), sc.packed_fail.to_fail()) {
        Ok(Ok(_)) => "ok".to_string(),
        Ok(Err(e)) => format!("commit-err\t{}", one_line(&format!("{e:?}"))),
        Err(e) => {
            let (variant, name) = match &e {
                PrepareError::LockAcquire { full_name, .. } => ("lock-acquire", full_name.to_string()),
                PrepareError::PackedTransactionAcquire(_) => ("packed-lock-acquire", String::new()),
                _ => ("other", String::new()),
            };
            format!("prepare-err\t{variant}\t{name}\t{}", one_line(&format!("{e:?}")))
        }
    };
    println!("{line}");
    std::process::exit(0);
}

fn one_line(s: &str) -> String {
    s.replace(['\n', '\t'], " ")
}

enum ChildResult {
    Ok,
    CommitErr(String),
    PrepareErr { variant: String, full_name: String, debug: String },
    /// consumed `cpu_ms` of CPU time without finishing
    Spinning { cpu_ms: u64, wall_ms: u64 },
    /// alive for `wall_ms`, almost always found sleeping (state S), although the longest configured back-off is 50 ms
    Sleeping { wall_ms: u64, asleep_pct: u64 },
    Starved { wall_ms: u64 },
    Crashed(String),
}

/// (user-mode cpu ms, user+system cpu ms, process state letter) from /proc/<pid>/stat
fn cpu_ms_of(pid: u32) -> (u64, u64, char) {
    if let Ok(s) = std::fs::read_to_string(format!("/proc/{pid}/stat")) {
        if let Some(rest) = s.rsplit(')').next() {
            let f: Vec<&str> = rest.split_whitespace().collect();
            if f.len() > 12 {
                let ut: u64 = f[11].parse().unwrap_or(0);
                let st: u64 = f[12].parse().unwrap_or(0);
                return (ut * 10, (ut + st) * 10, f[0].chars().next().unwrap_or('?'));
            }
        }
    }
    (0, 0, '?')
}

/// CPU budget after which an unfinished transaction counts as spinning. A transaction needs a few milliseconds of CPU and lock
/// back-off sleeps (<= 50 ms here) consume none. Measured from the first sample after the child was spawned (process
/// creation itself can cost more than a second of *system* time on a badly overloaded machine): 2 s of user-mode time, or
/// 15 s of user+system time, i.e. a margin of more than two orders of magnitude that does not depend on the machine load.
const SPIN_USER_MS: u64 = 12_000;
const SPIN_TOTAL_MS: u64 = 40_000;
const STARVED_WALL_MS: u64 = 120_000;
/// A child that is still alive after this wall time and was found in state S (sleeping voluntarily; a starved process is R)
/// in >= 90 % of the samples taken after the first second is blocked for ever: no lock wait here exceeds 50 ms.
const SLEEPING_WALL_MS: u64 = 20_000;

fn run_child(git_dir: &Path, tape: &[u8]) -> Result<ChildResult, String> {
    use std::io::Read;
    let exe = std::env::current_exe().map_err(|e| e.to_string())?;
    let mut child = std::process::Command::new(exe)
        .arg("--c17-child")
        .arg(git_dir)
        .arg(hex(tape))
        .stdin(std::process::Stdio::null())
        .stdout(std::process::Stdio::piped())
        .stderr(std::process::Stdio::piped())
        .spawn()
        .map_err(|e| format!("spawn child: {e}"))?;
    // whatever happens below (including a panic or an early return), the child does not survive this function
    struct KillOnDrop(u32);
    impl Drop for KillOnDrop {
        fn drop(&mut self) {
            unsafe {
                libc::kill(self.0 as libc::pid_t, libc::SIGKILL);
            }
        }
    }
    let _guard = KillOnDrop(child.id());
    let start = Instant::now();
    let mut sleep_us = 500;
    let (mut samples, mut asleep) = (0u64, 0u64);
    let mut base: Option<(u64, u64)> = None;
    let status = loop {
        match child.try_wait().map_err(|e| e.to_string())? {
            Some(st) => break st,
            None => {
                let (user, total, state) = cpu_ms_of(child.id());
                let (user0, total0) = *base.get_or_insert((user, total));
                let (user, total) = (user.saturating_sub(user0), total.saturating_sub(total0));
                let cpu = if user >= SPIN_USER_MS || total >= SPIN_TOTAL_MS { total.max(SPIN_USER_MS) } else { 0 };
                let wall = start.elapsed().as_millis() as u64;
                if wall >= 1_000 {
                    samples += 1;
                    asleep += (state == 'S') as u64;
                }
                if wall >= SLEEPING_WALL_MS && samples >= 100 && asleep * 10 >= samples * 9 {
                    let _ = child.kill();
                    let _ = child.wait();
                    return Ok(ChildResult::Sleeping {
                        wall_ms: wall,
                        asleep_pct: asleep * 100 / samples,
                    });
                }
                if cpu > 0 {
                    let _ = child.kill();
                    let _ = child.wait();
                    return Ok(ChildResult::Spinning { cpu_ms: cpu, wall_ms: wall });
                }
                if wall >= STARVED_WALL_MS {
                    let _ = child.kill();
                    let _ = child.wait();
                    return Ok(ChildResult::Starved { wall_ms: wall });
                }
                std::thread::sleep(Duration::from_micros(sleep_us));
                sleep_us = (sleep_us * 2).min(20_000);
            }
        }
    };
    let mut out = String::new();
    let mut err = String::new();
    if let Some(mut o) = child.stdout.take() {
        let _ = o.read_to_string(&mut out);
    }
    if let Some(mut e) = child.stderr.take() {
        let _ = e.read_to_string(&mut err);
    }
    if !status.success() {
        return Ok(ChildResult::Crashed(format!("{status}: {}", one_line(&err))));
    }
    let line = out.lines().next().unwrap_or("");
    let f: Vec<&str> = line.split('\t').collect();
    Ok(match f[0] {
        "ok" => ChildResult::Ok,
        "commit-err" => ChildResult::CommitErr(f.get(1).unwrap_or(&"").to_string()),
        "prepare-err" => ChildResult::PrepareErr {
            variant: f.get(1).unwrap_or(&"").to_string(),
            full_name: f.get(2).unwrap_or(&"").to_string(),
            debug: f.get(3).unwrap_or(&"").to_string(),
        },
        _ => return Err(format!("unparsable child output {line:?} (stderr: {})", one_line(&err))),
    })
}

// ---------------------------------------------------------------------------------------------

fn contention(t: &mut Tape, c: &mut Case) {
    let sc = decode(t);
    let tape = t.consumed().to_vec();
    c.key(&sc);
    c.sample_with(|| format!("{sc:?}"));
    // A suspected hang is only reported when it shows again in a second, fresh execution of the same scenario: a
    // transaction that really never returns does so deterministically, while CPU accounting on an overcommitted machine
    // occasionally charges seconds of CPU time to a process that did a few milliseconds of work.
    if attempt(&sc, &tape, c, false) {
        c.label("hang-suspect-rerun");
        attempt(&sc, &tape, c, true);
    }
}

/// returns true if the run looked like a hang and `confirm` is false (nothing reported yet)
fn attempt(sc: &Scenario, tape: &[u8], c: &mut Case, confirm: bool) -> bool {
    macro_rules! infra {
        ($c:expr, $e:expr, $what:expr) => {
            match $e {
                Ok(v) => v,
                Err(err) => {
                    $c.infra(format!("{}: {}", $what, err));
                    return false;
                }
            }
        };
    }
    macro_rules! ensure_sig {
        ($c:expr, $sig:expr, $cond:expr, $($arg:tt)*) => {
            if !($cond) {
                $c.fail_sig($sig, format!($($arg)*));
                return false;
            }
        };
    }
    let scratch = infra!(c, Scratch::new("c17"), "scratch");
    let git_dir = scratch.join("repo.git");
    infra!(c, skeleton_git_dir(&git_dir), "git dir");
    let pool = Pool::build();
    infra!(c, sc.pre.write(&git_dir, &pool), "write pre-state");
    let m = sc.pre.model();
    let pred = predict(&m, &sc.tx);

    // foreign lock holders
    let mut held: Vec<&'static str> = Vec::new();
    for n in &sc.held {
        if has_file_ancestor(&git_dir, n) {
            continue; // a lock below a loose ref file cannot exist
        }
        let p = git_dir.join(lock_rel_path(n));
        if let Some(d) = p.parent() {
            infra!(c, std::fs::create_dir_all(d), "lock dir");
        }
        infra!(c, std::fs::write(&p, b"held by somebody else\n"), "foreign lock");
        held.push(n);
    }
    let before = infra!(c, snapshot(&git_dir), "snapshot");
    let df = df_conflict(&before, &pred.expanded);
    let children: BTreeSet<&'static str> = pred.expanded.iter().filter(|e| e.parent.is_some()).map(|e| e.name).collect();
    let held_child = held.iter().any(|h| children.contains(h));
    let tx_names: BTreeSet<&'static str> = pred.expanded.iter().map(|e| e.name).collect();

    c.label(if held.is_empty() { "no-lock-held" } else { "locks-held" });
    c.label_if(held.contains(&"packed-refs"), "packed-refs-lock-held");
    c.label_if(held_child, "referent-lock-held");
    c.label_if(pred.split, "deref-split");
    c.label_if(df, "df-conflict");
    c.label_if(
        matches!(sc.ref_fail, FailSpec::BackoffMs(_)) || matches!(sc.packed_fail, FailSpec::BackoffMs(_)),
        "backoff",
    );
    c.nontrivial(held_child);

    let res = infra!(c, run_child(&git_dir, tape), "child process");
    let after = infra!(c, snapshot(&git_dir), "snapshot");
    let unchanged = before.files == after.files;
    let foreign_intact = held.iter().all(|n| {
        let k = lock_rel_path(n);
        before.files.get(&k) == after.files.get(&k)
    });
    let own_locks: Vec<String> = after
        .lock_files()
        .into_iter()
        .filter(|k| !held.iter().any(|n| lock_rel_path(n) == *k))
        .collect();

    match res {
        ChildResult::Spinning { .. } | ChildResult::Sleeping { .. } if !confirm => return true,
        ChildResult::Spinning { cpu_ms, wall_ms } => {
            let sig = if held_child {
                "hang-lock-failure-on-dereferenced-edit"
            } else {
                "hang"
            };
            c.fail_sig(
                sig,
                format!(
                    "prepare/commit did not return: {cpu_ms} ms of CPU time consumed in {wall_ms} ms (a transaction needs a few ms); held locks {held:?}; scenario {sc:?}"
                ),
            );
            return false;
        }
        ChildResult::Sleeping { wall_ms, asleep_pct } => {
            c.fail_sig(
                "hang-sleeping",
                format!(
                    "prepare/commit did not return within {wall_ms} ms and the process was asleep in {asleep_pct} % of the samples (longest configured lock wait: 50 ms); held locks {held:?}; scenario {sc:?}"
                ),
            );
            return false;
        }
        ChildResult::Starved { wall_ms } => {
            // no CPU consumed: the child was not scheduled, or sleeps for ever. The latter would be a violation too, but
            // cannot be told apart from starvation here.
            c.infra(format!("child did not finish within {wall_ms} ms without consuming CPU"));
            return false;
        }
        ChildResult::Crashed(msg) => {
            c.fail_sig("child-crashed", format!("transaction process died: {msg}; scenario {sc:?}"));
            return false;
        }
        ChildResult::Ok => {
            c.label("committed");
            ensure_sig!(c, "foreign-lock-touched", foreign_intact, "a foreign lock file was removed or changed by a successful transaction; held {held:?}; {sc:?}");
            ensure_sig!(c, "lock-files-left", own_locks.is_empty(), "lock files of the transaction remain after success: {own_locks:?}; {sc:?}");
            match &pred.result {
                Err(r) => {
                    c.fail_sig(
                        "accepted-but-model-rejects",
                        format!("the transaction succeeded but the model rejects it ({r:?}); {sc:?}"),
                    );
                    return false;
                }
                Ok(m2) => {
                    let found = match observe_find(&open_store(&git_dir)) {
                        Ok(f) => f,
                        Err(e) => {
                            c.fail_sig("gix-read-error", format!("after success: {e}; {sc:?}"));
                            return false;
                        }
                    };
                    let want = findable(&git_dir, &expected_map(m2, &pool));
                    // known C16 finding (unpackable refs in remove-loose mode) is C16's business
                    let lost_unpackable = sc.tx.mode == Mode::UpdatesRemoveLoose
                        && pred.expanded.iter().any(|e| {
                            is_pseudo(e.name) && !e.log_only && matches!(e.kind, Kind::Update { new: Val::Obj(_), .. })
                        });
                    if !lost_unpackable {
                        ensure_sig!(
                            c,
                            "state-differs-after-success",
                            found == want,
                            "after success refs read {found:?}, model {want:?}; {sc:?}"
                        );
                    }
                }
            }
        }
        ChildResult::CommitErr(e) => {
            c.label("commit-error");
            ensure_sig!(c, "foreign-lock-touched", foreign_intact, "a foreign lock file was removed or changed; held {held:?}; {sc:?}");
            ensure_sig!(c, "lock-files-left", own_locks.is_empty(), "lock files of the transaction remain after a commit error: {own_locks:?}; {sc:?}");
            ensure_sig!(
                c,
                "commit-error",
                df,
                "commit failed without a directory/file conflict: {e}; held {held:?}; {sc:?}"
            );
        }
        ChildResult::PrepareErr {
            variant,
            full_name,
            debug,
        } => {
            ensure_sig!(
                c,
                "prepare-error-changed-files",
                unchanged,
                "prepare failed ({debug}) but files changed (foreign locks, refs or leftover locks): {}; held {held:?}; {sc:?}",
                before.diff(&after)
            );
            match variant.as_str() {
                "lock-acquire" => {
                    c.label("err-lock-acquire");
                    ensure_sig!(
                        c,
                        "lock-error-names-foreign-ref",
                        tx_names.contains(full_name.as_str()),
                        "LockAcquire names {full_name:?} which is not a ref of the transaction {tx_names:?}; {sc:?}"
                    );
                    if !df {
                        ensure_sig!(
                            c,
                            "lock-error-without-held-lock",
                            held.iter().any(|h| *h != "packed-refs"),
                            "LockAcquire({full_name}) although no ref lock is held ({debug}); {sc:?}"
                        );
                    }
                }
                "packed-lock-acquire" => {
                    c.label("err-packed-lock-acquire");
                    ensure_sig!(
                        c,
                        "packed-lock-error-without-held-lock",
                        held.contains(&"packed-refs"),
                        "PackedTransactionAcquire although packed-refs.lock is not held ({debug}); {sc:?}"
                    );
                }
                _ => {
                    c.label("err-other");
                    // not a lock error: must be explained by the model (expectation, duplicate, cycle) or a D/F conflict
                    ensure_sig!(
                        c,
                        "unexpected-prepare-error",
                        pred.result.is_err() || df,
                        "prepare failed with {debug} although the model accepts the transaction; held {held:?}; {sc:?}"
                    );
                }
            }
            if held.is_empty() && !df {
                ensure_sig!(
                    c,
                    "unexpected-prepare-error",
                    pred.result.is_err(),
                    "no lock is held and the model accepts the transaction, but prepare failed: {debug}; {sc:?}"
                );
            }
        }
    }
    false
}

pub fn main() {
    let args: Vec<String> = std::env::args().collect();
    if args.len() == 4 && args[1] == "--c17-child" {
        child_main(&args[2], &args[3]);
    }
    if args.iter().any(|a| a == "--worker") {
        // workers die with the runner (and their children with them)
        unsafe {
            libc::prctl(libc::PR_SET_PDEATHSIG, libc::SIGKILL as libc::c_ulong);
        }
    }
    let mut ck = Check::new("C17", "exploration");
    ck.rule("One C16-style transaction (1..4 edits, deref, all expectations, all PackedRefs modes) on a generated pre-state (loose/packed/both, symbolic chains, HEAD symbolic or detached) while a generated subset of `<ref>.lock` files of every ref the transaction touches incl. referents reached by dereferencing, and packed-refs.lock, are held by a foreign party; Fail::Immediately or back-off 1..50 ms per lock class. Non-trivial: the lock of a referent of a dereferenced symbolic edit is held. Distinct by hash of the decoded scenario.");
    ck.assume("termination is decided by CPU time: a transaction process that has consumed 12 s of user-mode CPU (or 40 s user+system; raised from 2 s/15 s after a machine at load 250 charged 3.8 s to a trivial transaction) after its start without returning (normal: a few ms; back-off sleeps consume none) is spinning; a process that is alive after 20 s and was found sleeping (state S, not R) in >= 90 % of the samples is blocked for ever (longest configured lock wait 50 ms); a process that is merely starved for 120 s is inconclusive (exit 2)");
    ck.assume("model of C16 decides the outcome when no lock is held; with held locks: an error leaves every file (refs, packed-refs, foreign locks) unchanged, LockAcquire names a ref of the transaction, PackedTransactionAcquire only when packed-refs.lock is held, non-lock errors only when the model rejects the transaction too");
    ck.sub(
        "contention",
        SubCfg::new(1200, 20_000).max_len(256).isolated(60_000, true).max_shrink(25),
        contention,
    );
    ck.finish();
}
