//! C16 — reference transactions are atomic compare-and-swap (name->value model + git differential).
//!
//! This file is also included as a module by c17.rs and c20.rs (`#[path = "c16.rs"] mod reftx;`), which reuse the
//! transaction generator, the model and the observers.
#![allow(dead_code)]

use gix_lock::acquire::Fail;
use gix_ref::file::transaction::PackedRefs;
use gix_ref::transaction::{Change, LogChange, PreviousValue, RefEdit, RefLog};
use gix_ref::{FullName, Target};
use std::collections::{BTreeMap, BTreeSet};
use std::path::{Path, PathBuf};
use vp::*;

// ---------------------------------------------------------------------------------------------
// name space and object pool

pub const NAMES: &[&str] = &[
    "HEAD",
    "refs/heads/main",
    "refs/heads/a",
    "refs/heads/a/b",
    "refs/heads/b",
    "refs/tags/t",
    "refs/remotes/o/HEAD",
    "refs/remotes/o/main",
    "ORIG_HEAD",
];
/// names a symbolic ref may point to (all inside refs/, so git accepts them for HEAD as well)
pub const SYM_TARGETS: &[&str] = &[
    "refs/heads/main",
    "refs/heads/a",
    "refs/heads/a/b",
    "refs/heads/b",
    "refs/remotes/o/main",
    "refs/remotes/o/HEAD",
    "refs/tags/t",
];
pub const N_COMMITS: usize = 5;
pub const N_OBJECTS: usize = 7; // 5 commits, an annotated tag of c0, a tag of that tag

pub fn is_pseudo(name: &str) -> bool {
    !name.starts_with("refs/")
}

pub struct PoolObj {
    pub id: gix_hash::ObjectId,
    pub kind: gix_object::Kind,
    pub data: Vec<u8>,
}
pub struct Pool {
    pub objs: Vec<PoolObj>,
}

impl Pool {
    pub fn build() -> Pool {
        let mut objs = Vec::new();
        let mut push = |kind: gix_object::Kind, kname: &str, data: Vec<u8>| {
            let hex = object_sha1(kname, &data);
            let id = gix_hash::ObjectId::from_hex(hex.as_bytes()).expect("valid sha1 hex");
            objs.push(PoolObj { id, kind, data });
            hex
        };
        let mut c0 = String::new();
        for i in 0..N_COMMITS {
            let data = format!(
                "tree 4b825dc642cb6eb9a060e54bf8d69288fbee4904\nauthor A U Thor <author@example.com> 1112911993 +0200\ncommitter C O Mitter <committer@example.com> 1112911993 +0200\n\nc{i}\n"
            );
            let hex = push(gix_object::Kind::Commit, "commit", data.into_bytes());
            if i == 0 {
                c0 = hex;
            }
        }
        let t5 = push(
            gix_object::Kind::Tag,
            "tag",
            format!("object {c0}\ntype commit\ntag t5\ntagger T Agger <tagger@example.com> 1112911993 +0200\n\nannotated\n").into_bytes(),
        );
        push(
            gix_object::Kind::Tag,
            "tag",
            format!("object {t5}\ntype tag\ntag t6\ntagger T Agger <tagger@example.com> 1112911993 +0200\n\nnested\n").into_bytes(),
        );
        Pool { objs }
    }
    pub fn hex(&self, i: usize) -> String {
        self.objs[i].id.to_hex().to_string()
    }
    pub fn index_of_hex(&self, hex: &str) -> Option<usize> {
        self.objs.iter().position(|o| o.id.to_hex().to_string() == hex)
    }
}

pub struct PoolFind<'a>(pub &'a Pool);
impl gix_object::Find for PoolFind<'_> {
    fn try_find<'a>(
        &self,
        id: &gix_hash::oid,
        buffer: &'a mut Vec<u8>,
    ) -> Result<Option<gix_object::Data<'a>>, gix_object::find::Error> {
        match self.0.objs.iter().find(|o| o.id == id) {
            Some(o) => {
                buffer.clear();
                buffer.extend_from_slice(&o.data);
                Ok(Some(gix_object::Data {
                    kind: o.kind,
                    data: buffer.as_slice(),
                }))
            }
            None => Ok(None),
        }
    }
}

fn write_loose(objects: &Path, kind: &str, data: &[u8]) -> std::io::Result<()> {
    use std::io::Write;
    let hex = object_sha1(kind, data);
    let dir = objects.join(&hex[..2]);
    std::fs::create_dir_all(&dir)?;
    let mut enc = flate2::write::ZlibEncoder::new(Vec::new(), flate2::Compression::fast());
    enc.write_all(format!("{} {}\0", kind, data.len()).as_bytes())?;
    enc.write_all(data)?;
    std::fs::write(dir.join(&hex[2..]), enc.finish()?)
}

/// A scratch repository (non-bare, created by `git init`) holding the pool objects as loose objects.
pub struct Repo {
    pub world: World,
    pub git_dir: PathBuf,
    pub pool: Pool,
}

impl Repo {
    pub fn new(tag: &str) -> Result<Repo, String> {
        let world = World::new(tag, false)?;
        let git_dir = world.git_dir();
        let pool = Pool::build();
        let objects = git_dir.join("objects");
        write_loose(&objects, "tree", b"").map_err(|e| e.to_string())?;
        for o in &pool.objs {
            let k = if o.kind == gix_object::Kind::Commit { "commit" } else { "tag" };
            write_loose(&objects, k, &o.data).map_err(|e| e.to_string())?;
        }
        Ok(Repo { world, git_dir, pool })
    }
    pub fn git(&self) -> &Git {
        &self.world.git
    }
    pub fn store(&self) -> gix_ref::file::Store {
        open_store(&self.git_dir)
    }
}

pub fn open_store(git_dir: &Path) -> gix_ref::file::Store {
    gix_ref::file::Store::at(
        git_dir.to_owned(),
        gix_ref::store::init::Options {
            write_reflog: gix_ref::store::WriteReflog::Normal,
            object_hash: gix_hash::Kind::Sha1,
            precompose_unicode: false,
            prohibit_windows_device_names: false,
        },
    )
}

// ---------------------------------------------------------------------------------------------
// model

#[derive(Clone, PartialEq, Eq, Hash, PartialOrd, Ord)]
pub enum Val {
    /// index into the object pool
    Obj(usize),
    Sym(&'static str),
}
impl std::fmt::Debug for Val {
    fn fmt(&self, f: &mut std::fmt::Formatter<'_>) -> std::fmt::Result {
        match self {
            Val::Obj(i) => write!(f, "#{i}"),
            Val::Sym(n) => write!(f, "->{n}"),
        }
    }
}
pub type Model = BTreeMap<&'static str, Val>;

#[derive(Clone, Debug, PartialEq, Eq, Hash)]
pub enum Exp {
    Any,
    MustExist,
    MustNotExist,
    MustExistAndMatch(Val),
    ExistingMustMatch(Val),
}
#[derive(Clone, Debug, PartialEq, Eq, Hash)]
pub enum Kind {
    Update { new: Val, exp: Exp, force_log: bool },
    Delete { exp: Exp },
}
#[derive(Clone, PartialEq, Eq, Hash)]
pub struct EditSpec {
    pub name: &'static str,
    pub kind: Kind,
    pub deref: bool,
    pub log_only: bool,
}
impl std::fmt::Debug for EditSpec {
    fn fmt(&self, f: &mut std::fmt::Formatter<'_>) -> std::fmt::Result {
        write!(f, "{}", self.name)?;
        if self.deref {
            write!(f, "[deref]")?;
        }
        if self.log_only {
            write!(f, "[log-only]")?;
        }
        match &self.kind {
            Kind::Update { new, exp, force_log } => {
                write!(f, " := {new:?} if {exp:?}{}", if *force_log { " +log" } else { "" })
            }
            Kind::Delete { exp } => write!(f, " delete if {exp:?}"),
        }
    }
}
#[derive(Clone, Copy, Debug, PartialEq, Eq, Hash)]
pub enum Mode {
    DeletionsOnly,
    Updates,
    UpdatesRemoveLoose,
}
#[derive(Clone, Debug, PartialEq, Eq, Hash)]
pub struct Tx {
    pub mode: Mode,
    pub edits: Vec<EditSpec>,
}

#[derive(Clone, Debug)]
pub struct Expanded {
    pub name: &'static str,
    pub kind: Kind,
    pub deref: bool,
    pub log_only: bool,
    pub parent: Option<usize>,
}
#[derive(Clone, Debug, PartialEq)]
pub enum Reject {
    Cycle,
    Duplicate(&'static str),
    Expectation(&'static str, &'static str),
}
pub struct Pred {
    /// the edits after splitting dereferenced symbolic refs (what the transaction really touches)
    pub expanded: Vec<Expanded>,
    pub split: bool,
    pub result: Result<Model, Reject>,
}

/// The documented semantics: split `deref` edits along symbolic refs (the symbolic ref itself only gets a reflog entry,
/// its expectation moves to the referent), reject duplicates, check every expectation against the current value,
/// then apply all edits or none.
pub fn predict(m: &Model, tx: &Tx) -> Pred {
    let mut es: Vec<Expanded> = tx
        .edits
        .iter()
        .map(|e| Expanded {
            name: e.name,
            kind: e.kind.clone(),
            deref: e.deref,
            log_only: e.log_only,
            parent: None,
        })
        .collect();
    let mut first = 0;
    let mut round = 1;
    let mut split = false;
    let mut reject = None;
    loop {
        let mut new = Vec::new();
        for i in first..es.len() {
            if !es[i].deref {
                continue;
            }
            es[i].deref = false;
            if let Some(Val::Sym(r)) = m.get(es[i].name) {
                split = true;
                let mut child = es[i].clone();
                child.name = r;
                child.deref = true;
                child.parent = Some(i);
                es[i].log_only = true;
                if let Kind::Update { exp, .. } = &mut es[i].kind {
                    *exp = Exp::Any;
                }
                new.push(child);
            }
        }
        if new.is_empty() {
            break;
        }
        if round == 5 {
            reject = Some(Reject::Cycle);
            break;
        }
        round += 1;
        first = es.len();
        es.append(&mut new);
    }
    if reject.is_none() {
        let mut names: Vec<&'static str> = es.iter().map(|e| e.name).collect();
        names.sort();
        if let Some(w) = names.windows(2).find(|w| w[0] == w[1]) {
            reject = Some(Reject::Duplicate(w[0]));
        }
    }
    if reject.is_none() {
        for e in &es {
            let cur = m.get(e.name);
            let ok = match &e.kind {
                Kind::Update { new, exp, .. } => match exp {
                    Exp::Any => Ok(()),
                    Exp::MustExist => cur.map(|_| ()).ok_or("must-exist"),
                    Exp::MustNotExist => {
                        if cur.is_none() || cur == Some(new) {
                            Ok(())
                        } else {
                            Err("must-not-exist")
                        }
                    }
                    Exp::MustExistAndMatch(v) => {
                        if cur == Some(v) {
                            Ok(())
                        } else {
                            Err("must-exist-and-match")
                        }
                    }
                    Exp::ExistingMustMatch(v) => {
                        if cur.is_none() || cur == Some(v) {
                            Ok(())
                        } else {
                            Err("existing-must-match")
                        }
                    }
                },
                Kind::Delete { exp } => match exp {
                    Exp::Any => Ok(()),
                    Exp::MustExist => cur.map(|_| ()).ok_or("delete-must-exist"),
                    Exp::MustNotExist => Ok(()), // never generated (documented as invalid)
                    Exp::MustExistAndMatch(v) => {
                        if cur == Some(v) {
                            Ok(())
                        } else {
                            Err("delete-must-exist-and-match")
                        }
                    }
                    Exp::ExistingMustMatch(v) => {
                        if cur.is_none() || cur == Some(v) {
                            Ok(())
                        } else {
                            Err("delete-existing-must-match")
                        }
                    }
                },
            };
            if let Err(what) = ok {
                reject = Some(Reject::Expectation(e.name, what));
                break;
            }
        }
    }
    let result = match reject {
        Some(r) => Err(r),
        None => {
            let mut m2 = m.clone();
            for e in &es {
                if e.log_only {
                    continue;
                }
                match &e.kind {
                    Kind::Update { new, .. } => {
                        m2.insert(e.name, new.clone());
                    }
                    Kind::Delete { .. } => {
                        m2.remove(e.name);
                    }
                }
            }
            Ok(m2)
        }
    };
    Pred {
        expanded: es,
        split,
        result,
    }
}

// ---------------------------------------------------------------------------------------------
// generator

pub fn gen_val(t: &mut Tape, name: &str) -> Val {
    if t.chance(64) {
        Val::Sym(*t.pick(SYM_TARGETS))
    } else if name == "refs/tags/t" {
        Val::Obj(t.below(N_OBJECTS))
    } else {
        Val::Obj(t.below(N_COMMITS))
    }
}

fn gen_match_val(t: &mut Tape, name: &str, cur: Option<&Val>) -> Val {
    match cur {
        Some(v) if t.chance(176) => v.clone(),
        _ => gen_val(t, name),
    }
}

pub fn gen_tx(t: &mut Tape, m: &Model) -> Tx {
    let mode = match t.weighted(&[5, 3, 4]) {
        0 => Mode::DeletionsOnly,
        1 => Mode::Updates,
        _ => Mode::UpdatesRemoveLoose,
    };
    let n = 1 + t.weighted(&[6, 3, 2, 1]);
    let mut edits = Vec::new();
    for _ in 0..n {
        let mut name: &'static str = *t.pick(NAMES);
        let mut deref = t.chance(100);
        let mut delete = t.chance(64);
        // Known finding `df-conflict-accepted`: mostly stay out of that class (creating a name next to a
        // directory/file-conflicting existing one), so that histories continue behind it.
        if !delete && !m.contains_key(name) && m.keys().any(|o| df_related(name, o)) && t.chance(208) {
            name = *t.pick(NAMES);
        }
        let cur = m.get(name);
        if delete && name == "HEAD" {
            // never remove HEAD itself: git would no longer recognise the repository
            if matches!(cur, Some(Val::Sym(_))) {
                deref = true;
            } else {
                delete = false;
            }
        }
        let log_only = t.chance(14);
        let kind = if delete {
            let exp = if log_only {
                Exp::Any
            } else if deref {
                // only expectations with clear semantics across a dereference chain
                match t.weighted(&[3, 2]) {
                    0 => Exp::Any,
                    _ => Exp::MustExist,
                }
            } else {
                match t.weighted(&[3, 2, 4, 3]) {
                    0 => Exp::Any,
                    1 => Exp::MustExist,
                    2 => Exp::MustExistAndMatch(gen_match_val(t, name, cur)),
                    _ => Exp::ExistingMustMatch(gen_match_val(t, name, cur)),
                }
            };
            Kind::Delete { exp }
        } else {
            let new = gen_val(t, name);
            let exp = if log_only {
                Exp::Any
            } else {
                match t.weighted(&[4, 2, 2, 4, 3]) {
                    0 => Exp::Any,
                    1 => Exp::MustExist,
                    2 => Exp::MustNotExist,
                    3 => Exp::MustExistAndMatch(gen_match_val(t, name, cur)),
                    _ => Exp::ExistingMustMatch(gen_match_val(t, name, cur)),
                }
            };
            Kind::Update {
                new,
                exp,
                force_log: t.chance(64),
            }
        };
        edits.push(EditSpec {
            name,
            kind,
            deref,
            log_only,
        });
    }
    // Known finding `remove-loose-mode-loses-unpackable-ref`: keep most histories out of that class so the search
    // continues behind it (it removes HEAD, after which git cannot read the repository any more).
    let mut mode = mode;
    if mode == Mode::UpdatesRemoveLoose
        && edits.iter().any(|e| {
            is_pseudo(e.name)
                && !e.log_only
                && matches!(e.kind, Kind::Update { new: Val::Obj(_), .. })
                && !(e.deref && matches!(m.get(e.name), Some(Val::Sym(_))))
        })
        && t.chance(232)
    {
        mode = Mode::Updates;
    }
    Tx { mode, edits }
}

// ---------------------------------------------------------------------------------------------
// generated pre-states written directly to disk (used by C17 and C20)

#[derive(Clone, Copy, Debug, PartialEq, Eq, Hash)]
pub enum Place {
    Loose,
    Packed,
    /// loose file plus a stale packed entry pointing to the given pool object
    Both(usize),
}
#[derive(Clone, Debug, PartialEq, Eq, Hash)]
pub struct PreState {
    pub refs: Vec<(&'static str, Val, Place)>,
}

pub fn gen_prestate(t: &mut Tape) -> PreState {
    let mut refs: Vec<(&'static str, Val, Place)> = Vec::new();
    let head = match t.weighted(&[5, 2, 1]) {
        0 => Val::Sym("refs/heads/main"),
        1 => Val::Sym(*t.pick(SYM_TARGETS)),
        _ => Val::Obj(t.below(N_COMMITS)),
    };
    refs.push(("HEAD", head, Place::Loose));
    for name in &NAMES[1..] {
        if !t.chance(150) {
            continue;
        }
        let v = if t.chance(56) {
            Val::Sym(*t.pick(SYM_TARGETS))
        } else if *name == "refs/tags/t" {
            Val::Obj(t.below(N_OBJECTS))
        } else {
            Val::Obj(t.below(N_COMMITS))
        };
        let place = if matches!(v, Val::Sym(_)) || is_pseudo(name) {
            Place::Loose
        } else {
            match t.weighted(&[4, 3, 2]) {
                0 => Place::Loose,
                1 => Place::Packed,
                _ => Place::Both(t.below(N_COMMITS)),
            }
        };
        refs.push((name, v, place));
    }
    // refs/heads/a and refs/heads/a/b never coexist in a repository written by git (directory/file conflict)
    if refs.iter().any(|(n, _, _)| *n == "refs/heads/a") {
        refs.retain(|(n, _, _)| *n != "refs/heads/a/b");
    }
    PreState { refs }
}

impl PreState {
    pub fn model(&self) -> Model {
        self.refs.iter().map(|(n, v, _)| (*n, v.clone())).collect()
    }
    /// Write the state into an existing git dir (any previous HEAD is overwritten).
    pub fn write(&self, git_dir: &Path, pool: &Pool) -> std::io::Result<()> {
        let mut packed: Vec<(&str, usize)> = Vec::new();
        for (n, v, place) in &self.refs {
            match place {
                Place::Packed => {
                    if let Val::Obj(i) = v {
                        packed.push((n, *i));
                    }
                }
                Place::Loose | Place::Both(_) => {
                    let path = git_dir.join(n);
                    if let Some(dir) = path.parent() {
                        std::fs::create_dir_all(dir)?;
                    }
                    let content = match v {
                        Val::Obj(i) => format!("{}\n", pool.hex(*i)),
                        Val::Sym(t) => format!("ref: {t}\n"),
                    };
                    std::fs::write(path, content)?;
                    if let Place::Both(stale) = place {
                        packed.push((n, *stale));
                    }
                }
            }
        }
        if !packed.is_empty() {
            packed.sort();
            let mut out = String::from("# pack-refs with: peeled fully-peeled sorted \n");
            for (n, i) in packed {
                out.push_str(&format!("{} {}\n", pool.hex(i), n));
                if i >= N_COMMITS {
                    out.push_str(&format!("^{}\n", pool.hex(0)));
                }
            }
            std::fs::write(git_dir.join("packed-refs"), out)?;
        }
        Ok(())
    }
}

/// A minimal git dir made without running git (enough for `file::Store`).
pub fn skeleton_git_dir(git_dir: &Path) -> std::io::Result<()> {
    std::fs::create_dir_all(git_dir.join("refs/heads"))?;
    std::fs::create_dir_all(git_dir.join("refs/tags"))?;
    std::fs::create_dir_all(git_dir.join("objects"))?;
    Ok(())
}

// ---------------------------------------------------------------------------------------------
// running a transaction

pub fn full_name(n: &str) -> FullName {
    FullName::try_from(n).expect("names of the fixed name space are valid")
}
pub fn target(v: &Val, pool: &Pool) -> Target {
    match v {
        Val::Obj(i) => Target::Object(pool.objs[*i].id),
        Val::Sym(n) => Target::Symbolic(full_name(n)),
    }
}
fn previous(e: &Exp, pool: &Pool) -> PreviousValue {
    match e {
        Exp::Any => PreviousValue::Any,
        Exp::MustExist => PreviousValue::MustExist,
        Exp::MustNotExist => PreviousValue::MustNotExist,
        Exp::MustExistAndMatch(v) => PreviousValue::MustExistAndMatch(target(v, pool)),
        Exp::ExistingMustMatch(v) => PreviousValue::ExistingMustMatch(target(v, pool)),
    }
}
pub fn ref_edits(tx: &Tx, pool: &Pool) -> Vec<RefEdit> {
    tx.edits
        .iter()
        .map(|e| {
            let mode = if e.log_only { RefLog::Only } else { RefLog::AndReference };
            RefEdit {
                name: full_name(e.name),
                deref: e.deref,
                change: match &e.kind {
                    Kind::Update { new, exp, force_log } => Change::Update {
                        log: LogChange {
                            mode,
                            force_create_reflog: *force_log,
                            message: "verif".into(),
                        },
                        expected: previous(exp, pool),
                        new: target(new, pool),
                    },
                    Kind::Delete { exp } => Change::Delete {
                        expected: previous(exp, pool),
                        log: mode,
                    },
                },
            }
        })
        .collect()
}

pub fn committer() -> gix_actor::Signature {
    gix_actor::Signature {
        name: "V Erif".into(),
        email: "verif@example.com".into(),
        time: gix_date::Time {
            seconds: 1112911993,
            offset: 0,
            sign: gix_date::time::Sign::Plus,
        },
    }
}

pub type PrepareError = gix_ref::file::transaction::prepare::Error;
pub type CommitError = gix_ref::file::transaction::commit::Error;

/// prepare + commit. Outer `Err`: preparation failed (documented: nothing changed); inner `Err`: commit failed.
pub fn run_tx(
    store: &gix_ref::file::Store,
    tx: &Tx,
    pool: &Pool,
    ref_fail: Fail,
    packed_fail: Fail,
) -> Result<Result<Vec<RefEdit>, CommitError>, PrepareError> {
    let packed = match tx.mode {
        Mode::DeletionsOnly => PackedRefs::DeletionsOnly,
        Mode::Updates => PackedRefs::DeletionsAndNonSymbolicUpdates(Box::new(PoolFind(pool))),
        Mode::UpdatesRemoveLoose => {
            PackedRefs::DeletionsAndNonSymbolicUpdatesRemoveLooseSourceReference(Box::new(PoolFind(pool)))
        }
    };
    let prepared = store
        .transaction()
        .packed_refs(packed)
        .prepare(ref_edits(tx, pool), ref_fail, packed_fail)?;
    let sig = committer();
    Ok(prepared.commit(sig.to_ref()))
}

// ---------------------------------------------------------------------------------------------
// observers

/// name -> "obj:<hex>" | "sym:<name>"
pub type Observed = BTreeMap<String, String>;

pub fn show_target(t: &Target) -> String {
    match t {
        Target::Object(id) => format!("obj:{id}"),
        Target::Symbolic(n) => format!("sym:{}", n.as_bstr()),
    }
}
pub fn show_val(v: &Val, pool: &Pool) -> String {
    match v {
        Val::Obj(i) => format!("obj:{}", pool.hex(*i)),
        Val::Sym(n) => format!("sym:{n}"),
    }
}
pub fn expected_map(m: &Model, pool: &Pool) -> Observed {
    m.iter().map(|(k, v)| (k.to_string(), show_val(v, pool))).collect()
}

/// everything `iter().all()` yields (refs/ only), plus `try_find` for every name of the name space
pub fn observe_store(store: &gix_ref::file::Store) -> Result<(Observed, Observed), String> {
    let mut it = Observed::new();
    let platform = store.iter().map_err(|e| format!("iter(): {e}"))?;
    for r in platform.all().map_err(|e| format!("iter().all(): {e}"))? {
        let r = r.map_err(|e| format!("iteration item: {e}"))?;
        let name = r.name.as_bstr().to_string();
        if it.insert(name.clone(), show_target(&r.target)).is_some() {
            return Err(format!("iteration yields {name} twice"));
        }
    }
    Ok((it, observe_find(store)?))
}

/// `try_find` for every name of the name space
pub fn observe_find(store: &gix_ref::file::Store) -> Result<Observed, String> {
    let mut found = Observed::new();
    for n in NAMES {
        // A name below an existing loose ref file (refs/heads/a/b while refs/heads/a is a file) cannot exist; gitoxide
        // reports ENOTDIR as an error instead of "not found" there. That is a lookup matter (C18), not a
        // transaction matter: such names are treated as absent here.
        if has_file_ancestor(store.git_dir(), n) {
            continue;
        }
        match store.try_find(*n) {
            Ok(Some(r)) => {
                if r.name.as_bstr() != *n {
                    return Err(format!("try_find({n}) returned a reference named {}", r.name.as_bstr()));
                }
                found.insert(n.to_string(), show_target(&r.target));
            }
            Ok(None) => {}
            Err(e) => return Err(format!("try_find({n}): {e}")),
        }
    }
    Ok(found)
}

/// the part of an expected state that `observe_find` can see (see the note there)
pub fn findable(git_dir: &Path, want: &Observed) -> Observed {
    want.iter()
        .filter(|(k, _)| !has_file_ancestor(git_dir, k))
        .map(|(k, v)| (k.clone(), v.clone()))
        .collect()
}

pub fn has_file_ancestor(git_dir: &Path, name: &str) -> bool {
    let mut idx = 0;
    while let Some(pos) = name[idx..].find('/') {
        if git_dir.join(&name[..idx + pos]).is_file() {
            return true;
        }
        idx += pos + 1;
    }
    false
}

pub enum Resolved {
    /// the object and the name of the direct ref at the end of the symbolic chain
    Obj(usize, String),
    Dangling,
    TooDeep,
}
pub fn resolve(m: &Model, name: &str) -> Resolved {
    let mut cur = name;
    for _ in 0..4 {
        match m.get(cur) {
            None => return Resolved::Dangling,
            Some(Val::Obj(i)) => return Resolved::Obj(*i, cur.to_string()),
            Some(Val::Sym(n)) => cur = n,
        }
    }
    Resolved::TooDeep
}

/// `git for-each-ref`: name -> (objectname, symref). Dangling symbolic refs are not listed by git.
pub fn git_for_each_ref(git: &Git) -> Result<BTreeMap<String, (String, String)>, String> {
    let out = git.run(["for-each-ref", "--format=%(refname) %(objectname) %(symref)"])?;
    let mut m = BTreeMap::new();
    for line in String::from_utf8_lossy(&out).lines() {
        let mut p = line.split(' ');
        let (Some(n), Some(o)) = (p.next(), p.next()) else {
            return Err(format!("unparsable for-each-ref line {line:?}"));
        };
        let s = p.next().unwrap_or("");
        if m.insert(n.to_string(), (o.to_string(), s.to_string())).is_some() {
            return Err(format!("git lists {n} twice"));
        }
    }
    Ok(m)
}

/// one ref as git sees it: "sym:<target>", "obj:<hex>" or None
pub fn git_read(git: &Git, name: &str) -> Result<Option<String>, String> {
    let (ok, out, _) = git.try_run(["symbolic-ref", "-q", "--no-recurse", name], None)?;
    if ok {
        return Ok(Some(format!("sym:{}", String::from_utf8_lossy(&out).trim_end())));
    }
    let (ok, out, _) = git.try_run(["rev-parse", "--verify", "-q", name], None)?;
    if ok {
        return Ok(Some(format!("obj:{}", String::from_utf8_lossy(&out).trim_end())));
    }
    Ok(None)
}

/// All files (relative path -> content) and directories below the git dir, except objects/ and hooks/.
#[derive(Clone, PartialEq, Debug, Default)]
pub struct Snapshot {
    pub files: BTreeMap<String, Vec<u8>>,
    pub dirs: BTreeSet<String>,
}
pub fn snapshot(git_dir: &Path) -> Result<Snapshot, String> {
    fn walk(base: &Path, rel: &str, s: &mut Snapshot) -> Result<(), String> {
        let dir = if rel.is_empty() { base.to_owned() } else { base.join(rel) };
        let rd = std::fs::read_dir(&dir).map_err(|e| format!("read_dir {}: {e}", dir.display()))?;
        for e in rd {
            let e = e.map_err(|e| e.to_string())?;
            let name = e.file_name().to_string_lossy().to_string();
            let r = if rel.is_empty() { name.clone() } else { format!("{rel}/{name}") };
            if rel.is_empty() && (name == "objects" || name == "hooks") {
                continue;
            }
            let ft = e.file_type().map_err(|e| e.to_string())?;
            if ft.is_dir() {
                s.dirs.insert(r.clone());
                walk(base, &r, s)?;
            } else {
                let data = std::fs::read(e.path()).map_err(|e| format!("read {r}: {e}"))?;
                s.files.insert(r, data);
            }
        }
        Ok(())
    }
    let mut s = Snapshot::default();
    walk(git_dir, "", &mut s)?;
    Ok(s)
}
impl Snapshot {
    pub fn lock_files(&self) -> Vec<String> {
        self.files.keys().filter(|k| k.ends_with(".lock")).cloned().collect()
    }
    pub fn diff(&self, other: &Snapshot) -> String {
        let mut out = Vec::new();
        for (k, v) in &self.files {
            match other.files.get(k) {
                None => out.push(format!("-{k}")),
                Some(o) if o != v => out.push(format!("~{k} ({} -> {})", show(v), show(o))),
                _ => {}
            }
        }
        for k in other.files.keys() {
            if !self.files.contains_key(k) {
                out.push(format!("+{k} ({})", show(&other.files[k])));
            }
        }
        out.join(", ")
    }
    /// names listed in packed-refs
    pub fn packed_names(&self) -> BTreeSet<String> {
        let mut s = BTreeSet::new();
        if let Some(p) = self.files.get("packed-refs") {
            for line in String::from_utf8_lossy(p).lines() {
                if line.starts_with('#') || line.starts_with('^') {
                    continue;
                }
                if let Some((_, n)) = line.split_once(' ') {
                    s.insert(n.to_string());
                }
            }
        }
        s
    }
}

fn dir_prefix_of(a: &str, b: &str) -> bool {
    b.len() > a.len() && b.starts_with(a) && b.as_bytes()[a.len()] == b'/'
}
pub fn df_related(a: &str, b: &str) -> bool {
    dir_prefix_of(a, b) || dir_prefix_of(b, a)
}

/// git's rule (refs_verify_refname_available): a transaction must not create `N` while another ref, which the same
/// transaction does not delete, is a directory-ancestor or -descendant of `N` (refs/heads/a vs refs/heads/a/b), wherever
/// that other ref is stored.
pub fn model_df_conflict(m: &Model, expanded: &[Expanded]) -> Option<(&'static str, &'static str)> {
    let deleted: Vec<&'static str> = expanded
        .iter()
        .filter(|e| !e.log_only && matches!(e.kind, Kind::Delete { .. }))
        .map(|e| e.name)
        .collect();
    let created: Vec<&'static str> = expanded
        .iter()
        .filter(|e| !e.log_only && matches!(e.kind, Kind::Update { .. }) && !m.contains_key(e.name))
        .map(|e| e.name)
        .collect();
    for n in &created {
        for o in m.keys() {
            if df_related(n, o) && !deleted.contains(o) {
                return Some((n, o));
            }
        }
        for o in &created {
            if dir_prefix_of(n, o) {
                return Some((n, o));
            }
        }
    }
    None
}

/// Would a filesystem directory/file conflict be in the way of one of the edits (refs or reflogs)?
pub fn df_conflict(snap: &Snapshot, expanded: &[Expanded]) -> bool {
    let is_file = |p: &str| snap.files.contains_key(p);
    let is_dir = |p: &str| snap.dirs.contains(p);
    for e in expanded {
        let n = e.name;
        // an ancestor path exists as a file (loose ref or reflog)
        let mut idx = 0;
        while let Some(pos) = n[idx..].find('/') {
            let anc = &n[..idx + pos];
            if is_file(anc) || is_file(&format!("logs/{anc}")) {
                return true;
            }
            idx += pos + 1;
        }
        // the name itself exists as a directory
        if is_dir(n) || is_dir(&format!("logs/{n}")) {
            return true;
        }
        // another edit of the same transaction is below this one
        if expanded
            .iter()
            .any(|o| o.name.len() > n.len() && o.name.starts_with(n) && o.name.as_bytes()[n.len()] == b'/')
        {
            return true;
        }
    }
    false
}

// ---------------------------------------------------------------------------------------------
// state comparison shared by the sub-checks

/// Compare model, gitoxide (every given store) and git. `pseudo` lists non-refs/ names (and dangling symrefs) to put to git
/// individually. Returns a description of the first disagreement.
pub fn compare_state(
    repo: &Repo,
    stores: &[(&str, &gix_ref::file::Store)],
    m: &Model,
    ask_git_individually: &[&'static str],
    with_git: bool,
) -> Result<Result<(), (String, String)>, String> {
    let pool = &repo.pool;
    let want = expected_map(m, pool);
    let want_iter: Observed = want
        .iter()
        .filter(|(k, _)| k.starts_with("refs/"))
        .map(|(k, v)| (k.clone(), v.clone()))
        .collect();
    for (label, store) in stores {
        match observe_store(store) {
            Err(e) => return Ok(Err(("gix-read-error".into(), format!("{label} store: {e}")))),
            Ok((it, found)) => {
                if it != want_iter {
                    return Ok(Err((
                        "gix-iter-differs".into(),
                        format!("{label} store: iter().all() = {it:?}, model = {want_iter:?}"),
                    )));
                }
                let want = findable(&repo.git_dir, &want);
                if found != want {
                    return Ok(Err((
                        "gix-find-differs".into(),
                        format!("{label} store: try_find over all names = {found:?}, model = {want:?}"),
                    )));
                }
            }
        }
    }
    if !with_git {
        return Ok(Ok(()));
    }
    // git
    let listed = git_for_each_ref(repo.git())?;
    let mut want_git = BTreeMap::new();
    let mut skip = BTreeSet::new();
    let mut dangling = Vec::new();
    for (n, v) in m.iter() {
        if !n.starts_with("refs/") {
            continue;
        }
        match resolve(m, n) {
            Resolved::Obj(i, last) => {
                // %(symref) is the fully resolved name (git resolves recursively), empty for direct refs
                let sym = match v {
                    Val::Sym(_) => last,
                    _ => String::new(),
                };
                want_git.insert(n.to_string(), (pool.hex(i), sym));
            }
            Resolved::Dangling => dangling.push(*n),
            Resolved::TooDeep => {
                skip.insert(n.to_string());
            }
        }
    }
    let listed: BTreeMap<_, _> = listed.into_iter().filter(|(k, _)| !skip.contains(k)).collect();
    if listed != want_git {
        return Ok(Err((
            "git-for-each-ref-differs".into(),
            format!("git for-each-ref = {listed:?}, model = {want_git:?}"),
        )));
    }
    for n in ask_git_individually {
        // for-each-ref already decided direct refs and one-level symbolic refs
        let chained = matches!(m.get(n), Some(Val::Sym(t)) if matches!(m.get(t), Some(Val::Sym(_))));
        if !(is_pseudo(n) || dangling.contains(n) || !m.contains_key(n) || chained) {
            continue;
        }
        let got = git_read(repo.git(), n)?;
        let want = m.get(n).map(|v| show_val(v, pool));
        // a symbolic pseudo ref chain that git cannot resolve is reported by symbolic-ref all the same
        if got != want {
            return Ok(Err((
                "git-read-differs".into(),
                format!("git reads {n} as {got:?}, model = {want:?}"),
            )));
        }
    }
    Ok(Ok(()))
}

// ---------------------------------------------------------------------------------------------
// C16 history check

#[derive(Clone, Debug, PartialEq, Eq, Hash)]
enum Step {
    Tx(Tx),
    GitUpdateRef(&'static str, usize),
    GitDeleteRef(&'static str),
    GitSymRef(&'static str, &'static str),
    GitPackRefs { prune: bool },
}

fn gen_ext(t: &mut Tape) -> Step {
    match t.weighted(&[4, 2, 2, 5]) {
        0 => {
            let name: &'static str = *t.pick(&NAMES[1..]);
            let obj = if name == "refs/tags/t" { t.below(N_OBJECTS) } else { t.below(N_COMMITS) };
            Step::GitUpdateRef(name, obj)
        }
        1 => Step::GitDeleteRef(*t.pick(&NAMES[1..])),
        2 => Step::GitSymRef(*t.pick(&NAMES[..8]), *t.pick(SYM_TARGETS)),
        _ => Step::GitPackRefs { prune: t.chance(176) },
    }
}

#[derive(Clone, Copy, PartialEq)]
enum Loc {
    None,
    Loose,
    PackedOnly,
}

macro_rules! bail {
    ($c:expr, $steps:expr, $sig:expr, $($arg:tt)*) => {{
        $c.fail_sig($sig, format!("{} | history: {:?}", format!($($arg)*), $steps));
        return;
    }};
}

fn history(t: &mut Tape, c: &mut Case) {
    let repo = infra!(c, Repo::new("c16"), "scratch repository");
    let pool = &repo.pool;
    let mut m: Model = Model::new();
    m.insert("HEAD", Val::Sym("refs/heads/main"));
    let mut store = repo.store();
    let mut steps: Vec<Step> = Vec::new();
    let mut last_loc: BTreeMap<&'static str, Loc> = BTreeMap::new();
    let mut moved: BTreeSet<&'static str> = BTreeSet::new();
    let mut pending: Option<(&'static str, String)> = None;
    let nsteps = t.range(1, 25);
    for _ in 0..nsteps {
        let before = infra!(c, snapshot(&repo.git_dir), "snapshot");
        // storage locations (for the non-trivial rule)
        let packed = before.packed_names();
        for n in NAMES {
            let loc = if before.files.contains_key(*n) {
                Loc::Loose
            } else if packed.contains(*n) {
                Loc::PackedOnly
            } else {
                Loc::None
            };
            if loc != Loc::None {
                if let Some(prev) = last_loc.get(n) {
                    if *prev != loc {
                        moved.insert(n);
                    }
                }
                last_loc.insert(n, loc);
            }
        }
        if t.chance(64) {
            // ---- external git step
            let step = gen_ext(t);
            steps.push(step.clone());
            let git = repo.git();
            let mut touched: Vec<&'static str> = Vec::new();
            match &step {
                Step::GitUpdateRef(n, o) => {
                    c.label("ext-update-ref");
                    let (ok, _, _) = infra!(c, git.try_run(["update-ref", "--no-deref", n, &pool.hex(*o)], None), "git");
                    if ok {
                        m.insert(n, Val::Obj(*o));
                    }
                    touched.push(n);
                }
                Step::GitDeleteRef(n) => {
                    c.label("ext-delete-ref");
                    let (ok, _, _) = infra!(c, git.try_run(["update-ref", "--no-deref", "-d", n], None), "git");
                    if ok {
                        m.remove(n);
                    }
                    touched.push(n);
                }
                Step::GitSymRef(n, target) => {
                    c.label("ext-symbolic-ref");
                    let (ok, _, _) = infra!(c, git.try_run(["symbolic-ref", n, target], None), "git");
                    if ok {
                        m.insert(n, Val::Sym(target));
                    }
                    touched.push(n);
                }
                Step::GitPackRefs { prune } => {
                    c.label("ext-pack-refs");
                    let flag = if *prune { "--prune" } else { "--no-prune" };
                    infra!(c, git.run(["pack-refs", "--all", flag]), "git pack-refs");
                }
                Step::Tx(_) => {}
            }
            // the packed buffer of a long-lived store is only refreshed by modification time (documented): reopen
            store = repo.store();
            match infra!(c, compare_state(&repo, &[("fresh", &store)], &m, &touched, true), "git oracle") {
                Ok(()) => {}
                Err((sig, msg)) => bail!(c, steps, &format!("after-git-step:{sig}"), "after an external git step: {msg}"),
            }
            continue;
        }
        // ---- gitoxide transaction
        let tx = gen_tx(t, &m);
        steps.push(Step::Tx(tx.clone()));
        let pred = predict(&m, &tx);
        let mdf = if pred.result.is_ok() {
            model_df_conflict(&m, &pred.expanded)
        } else {
            None
        };
        let df = df_conflict(&before, &pred.expanded) || mdf.is_some();
        c.label(match tx.mode {
            Mode::DeletionsOnly => "mode-deletions-only",
            Mode::Updates => "mode-updates",
            Mode::UpdatesRemoveLoose => "mode-updates-remove-loose",
        });
        c.label_if(pred.split, "deref-split");
        c.label_if(df, "df-conflict");
        c.label_if(mdf.is_some(), "df-conflict-with-existing-ref");
        c.label_if(tx.edits.len() > 1, "multi-edit");
        let expects_on_moved = pred.expanded.iter().any(|e| {
            let exp = match &e.kind {
                Kind::Update { exp, .. } | Kind::Delete { exp } => exp,
            };
            *exp != Exp::Any && moved.contains(e.name)
        });
        c.label_if(expects_on_moved, "expectation-on-moved-ref");
        c.nontrivial(expects_on_moved || pred.split);
        let touched: Vec<&'static str> = pred.expanded.iter().map(|e| e.name).collect();

        let outcome = run_tx(&store, &tx, pool, Fail::Immediately, Fail::Immediately);
        let after = infra!(c, snapshot(&repo.git_dir), "snapshot");
        if !after.dirs.contains("refs") {
            // known class: record it, repair the directory and keep exploring; reported at the end of the history
            if pending.is_none() {
                pending = Some((
                    "refs-dir-removed",
                    format!(
                        "the refs/ directory is gone after transaction #{} (outcome {}): git no longer recognises the repository",
                        steps.len(),
                        outcome_name(&outcome)
                    ),
                ));
            }
            infra!(c, std::fs::create_dir(repo.git_dir.join("refs")), "re-create refs/");
        }
        if let (Mode::UpdatesRemoveLoose, Ok(Ok(_))) = (tx.mode, &outcome) {
            for e in &pred.expanded {
                if is_pseudo(e.name)
                    && !e.log_only
                    && matches!(e.kind, Kind::Update { new: Val::Obj(_), .. })
                    && !after.files.contains_key(e.name)
                {
                    bail!(
                        c,
                        steps,
                        "remove-loose-mode-loses-unpackable-ref",
                        "{} cannot be stored in packed-refs, but its update to an object id in mode DeletionsAndNonSymbolicUpdatesRemoveLooseSourceReference wrote nothing and removed the loose file",
                        e.name
                    );
                }
            }
        }
        let locks = after.lock_files();
        if !locks.is_empty() {
            bail!(c, steps, "lock-files-left", "lock files remain after the transaction returned: {locks:?}");
        }
        match (&outcome, &pred.result) {
            (Err(e), Err(_)) => {
                c.label("rejected-as-predicted");
                if before.files != after.files {
                    bail!(
                        c,
                        steps,
                        "prepare-error-changed-files",
                        "prepare failed ({e}) but files changed: {}",
                        before.diff(&after)
                    );
                }
            }
            (Err(e), Ok(_)) => {
                if !df {
                    bail!(
                        c,
                        steps,
                        "unexpected-prepare-error",
                        "prepare failed with {e:?} although every expectation holds in the model {m:?}"
                    );
                }
                c.label("df-rejected-in-prepare");
                if before.files != after.files {
                    bail!(
                        c,
                        steps,
                        "prepare-error-changed-files",
                        "prepare failed ({e}) but files changed: {}",
                        before.diff(&after)
                    );
                }
            }
            (Ok(_), Err(r)) => {
                bail!(
                    c,
                    steps,
                    &format!("accepted-but-model-rejects:{}", reject_class(r)),
                    "the transaction succeeded, but the model rejects it ({r:?}); model before = {m:?}"
                );
            }
            (Ok(Ok(_)), Ok(_)) if mdf.is_some() => {
                let (n, o) = mdf.unwrap_or(("", ""));
                bail!(
                    c,
                    steps,
                    "df-conflict-accepted",
                    "the transaction created {n} although {o} exists (directory/file conflict, git refuses this: the refs are no longer readable together); model before = {m:?}"
                );
            }
            (Ok(Ok(_)), Ok(m2)) => {
                c.label("committed");
                m = m2.clone();
            }
            (Ok(Err(e)), Ok(m2)) => {
                if !df {
                    bail!(
                        c,
                        steps,
                        "commit-error",
                        "commit failed without a directory/file conflict or I/O cause: {e:?}; model before = {m:?}"
                    );
                }
                // documented: a failing commit may be partial. Every ref must read as its old or its new value.
                c.label("df-commit-error");
                let (it, found) = match observe_store(&repo.store()) {
                    Ok(v) => v,
                    Err(e) => bail!(c, steps, "gix-read-error", "after a failed commit: {e}"),
                };
                // what the store holds: lookups plus iteration (a packed ref below a loose file is only seen by iteration)
                let mut found = found;
                for (k, v) in it {
                    match found.get(&k) {
                        Some(f) if *f != v => bail!(
                            c,
                            steps,
                            "gix-iter-find-disagree",
                            "after a failed commit iteration yields {k} = {v} but try_find yields {f}"
                        ),
                        Some(_) => {}
                        None => {
                            found.insert(k, v);
                        }
                    }
                }
                // Known finding `df-conflict-accepted` surfacing through a commit error: the transaction created a name in
                // directory/file conflict with another ref (prepare should have refused it), failed half way in commit, and
                // BOTH conflicting refs exist now (e.g. loose refs/heads/a next to packed refs/heads/a/b). The observers cannot
                // agree on such a store; the history ends here under the known signature. Only this exact situation qualifies.
                if mdf.is_some() {
                    let keys: Vec<&String> = found.keys().collect();
                    if let Some((x, y)) = keys
                        .iter()
                        .flat_map(|x| keys.iter().map(move |y| (*x, *y)))
                        .find(|(x, y)| dir_prefix_of(x, y))
                    {
                        bail!(
                            c,
                            steps,
                            "df-conflict-accepted",
                            "prepare accepted a transaction that creates a directory/file conflict ({:?}); commit then failed half way ({e}) and left both {x} and {y} in the store",
                            mdf
                        );
                    }
                }
                let mut synced = Model::new();
                for n in NAMES {
                    let old = m.get(n).map(|v| show_val(v, pool));
                    let new = m2.get(n).map(|v| show_val(v, pool));
                    let got = found.get(*n).cloned();
                    if got == new {
                        if let Some(v) = m2.get(n) {
                            synced.insert(n, v.clone());
                        }
                    } else if got == old {
                        if let Some(v) = m.get(n) {
                            synced.insert(n, v.clone());
                        }
                    } else {
                        bail!(
                            c,
                            steps,
                            "partial-commit-neither-old-nor-new",
                            "after a failed commit {n} reads {got:?}, old = {old:?}, new = {new:?}"
                        );
                    }
                }
                m = synced;
            }
        }
        // git reads the same files as before when nothing changed on disk: ask it only after a change
        let files_changed = before.files != after.files;
        let fresh = repo.store();
        match infra!(
            c,
            compare_state(&repo, &[("long-lived", &store), ("fresh", &fresh)], &m, &touched, files_changed),
            "git oracle"
        ) {
            Ok(()) => {}
            Err((sig, msg)) => {
                let sig = classify(&sig, &tx, &pred);
                bail!(c, steps, &sig, "after the last transaction ({}): {msg}", outcome_name(&outcome));
            }
        }
    }
    // final: every name individually through git as well
    match infra!(c, compare_state(&repo, &[("fresh", &repo.store())], &m, NAMES, true), "git oracle") {
        Ok(()) => {}
        Err((sig, msg)) => bail!(c, steps, &format!("final:{sig}"), "at the end of the history: {msg}"),
    }
    if let Some((sig, msg)) = pending {
        bail!(c, steps, sig, "{msg}");
    }
    c.key(&steps);
    c.sample_with(|| format!("{steps:?}"));
}

fn outcome_name(o: &Result<Result<Vec<RefEdit>, CommitError>, PrepareError>) -> String {
    match o {
        Ok(Ok(_)) => "committed".into(),
        Ok(Err(e)) => format!("commit error: {e}"),
        Err(e) => format!("prepare error: {e}"),
    }
}

fn reject_class(r: &Reject) -> &'static str {
    match r {
        Reject::Cycle => "cycle",
        Reject::Duplicate(_) => "duplicate",
        Reject::Expectation(_, what) => what,
    }
}

/// narrow signatures for state mismatches after a transaction
fn classify(sig: &str, _tx: &Tx, _pred: &Pred) -> String {
    sig.to_string()
}

pub fn main() {
    if std::env::args().any(|a| a == "--worker") {
        // a worker process runs transactions in-process: a runaway transaction must not eat the machine's memory before
        // the runner's deadline kills the worker, and the worker must not outlive the runner
        unsafe {
            libc::prctl(libc::PR_SET_PDEATHSIG, libc::SIGKILL as libc::c_ulong);
            let mem = libc::rlimit {
                rlim_cur: 2 << 30,
                rlim_max: 2 << 30,
            };
            libc::setrlimit(libc::RLIMIT_AS, &mem);
        }
    }
    let mut ck = Check::new("C16", "exploration");
    ck.rule("Histories of 1..25 steps over 9 names (HEAD, nested refs/heads/a vs a/b, tags, remotes incl. a symbolic o/HEAD, a pseudo ref); 75% gitoxide transactions (1..4 edits: update to object|symbolic / delete, every PreviousValue variant with matching values preferred, deref, log-only, force-create-reflog, all three PackedRefs modes), 25% external `git update-ref|symbolic-ref|pack-refs --all [--prune]`. Non-trivial: a transaction whose edit carries an expectation on a ref that earlier moved loose<->packed, or a deref edit that was split through a symbolic ref. Distinct by hash of the decoded history.");
    ck.assume(&format!("{} reads the resulting repository (for-each-ref, symbolic-ref, rev-parse --verify)", Git::version()));
    ck.assume("model = documented semantics: deref edits split along symbolic refs (symbolic ref keeps its value), duplicate names rejected, each expectation checked against the current value, MustNotExist tolerates an equal existing value, all-or-nothing; a transaction that creates a name in directory/file conflict with an existing ref it does not delete (refs/heads/a vs refs/heads/a/b, loose or packed) must not succeed (git's refname-availability rule); transactions that run into a directory/file conflict on disk (ref or reflog) may fail in prepare (nothing changes) or in commit (documented as possibly partial: each ref old or new); Delete with deref only uses Any/MustExist; log-only edits only use Any");
    ck.sub("history", SubCfg::new(600, 12_000)
            .max_len(1600)
            .max_shrink(30)
            // worker processes: a transaction that never returns must not hang the check (termination itself is C17's matter)
            .isolated(600_000, false), history);
    ck.finish();
}
