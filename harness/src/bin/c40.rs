//! C40 — path names git refuses to write are refused (one-directional; real git is the arbiter).
//!
//! Sub-checks
//! * `git-arbiter`: batches of generated components; `git -c core.protectHFS=h -c core.protectNTFS=n update-index --add
//!   --replace -z --index-info` decides for the paths `c`, `c/x`, `x/c` (mode of the case) and `y/c/x` (regular file)
//!   ("Ignoring path ..." on stderr = refused by `verify_path`). Whenever git refuses, three gitoxide observers must refuse too,
//!   for protect_windows in {false,true}: `gix_validate::path::component`, `gix_index::State::from_tree` (in-memory
//!   trees) and the checkout path stack `gix_worktree::Stack::at_entry` (state `for_checkout`).
//! * `win-devices` (oracle: model-only): Windows reserved device names cannot be observed with a Linux git; a transcription of
//!   the reserved-name rule of `is_valid_win32_path` is asserted for canonical forms with protect_windows = protect_ntfs = true.
use gix_hash::ObjectId;
use gix_object::bstr::{BStr, BString, ByteSlice};
use gix_object::WriteTo;
use gix_validate::path::component::{Mode as CMode, Options};
use std::collections::HashMap;
use vp::*;

const EMPTY_BLOB: &str = "e69de29bb2d1d6434b8b29ae775ad8c2e48c5391";

const IGNORABLE: [u32; 16] = [
    0x200c, 0x200d, 0x200e, 0x200f, 0x202a, 0x202b, 0x202c, 0x202d, 0x202e, 0x206a, 0x206b, 0x206c, 0x206d, 0x206e, 0x206f,
    0xfeff,
];
/// neighbours of the ignorable ranges which HFS+ does NOT ignore
const NOT_IGNORABLE: [u32; 10] = [0x200b, 0x2010, 0x2029, 0x202f, 0x2060, 0x2069, 0x2070, 0xfefe, 0xfffe, 0x00ad];

#[derive(Clone, Debug, Hash, PartialEq)]
struct Comp {
    bytes: Vec<u8>,
    symlink: bool,
    /// number of transformations applied to the seed
    ntrans: u8,
    seed: &'static str,
}

fn utf8(cp: u32) -> Vec<u8> {
    char::from_u32(cp).map(|c| c.to_string().into_bytes()).unwrap_or_default()
}

fn flip_case(t: &mut Tape, v: &mut [u8]) -> bool {
    let mut changed = false;
    for b in v.iter_mut() {
        if b.is_ascii_alphabetic() && t.chance(110) {
            *b ^= 0x20;
            changed = true;
        }
    }
    changed
}

fn insert_codepoints(t: &mut Tape, v: &mut Vec<u8>, labels: &mut Vec<&'static str>) -> u8 {
    let n = t.weighted(&[0, 5, 3, 2]);
    let mut applied = 0;
    for _ in 0..n {
        // positions are byte positions of the current string, but only on char boundaries of what we built so far
        let s = String::from_utf8_lossy(v).to_string();
        let boundaries: Vec<usize> = if s.as_bytes() == v.as_slice() {
            (0..=v.len()).filter(|i| s.is_char_boundary(*i)).collect()
        } else {
            (0..=v.len()).collect()
        };
        let at = boundaries[t.below(boundaries.len())];
        let ins: Vec<u8> = match t.weighted(&[7, 2, 1]) {
            0 => {
                labels.push("hfs-ignorable");
                utf8(*t.pick(&IGNORABLE))
            }
            1 => {
                labels.push("hfs-not-ignorable-neighbour");
                utf8(*t.pick(&NOT_IGNORABLE))
            }
            _ => {
                labels.push("malformed-utf8");
                t.pick(&[
                    &b"\xe2\x80"[..],
                    &b"\x8c"[..],
                    &b"\xe2\x80\x8c\x8c"[..],
                    &b"\xc0\x80"[..],
                    &b"\xe0\x80\x8c"[..],
                    &b"\xed\xa0\x8c"[..],
                    &b"\xef\xbb"[..],
                    &b"\xff"[..],
                ])
                .to_vec()
            }
        };
        for (i, b) in ins.into_iter().enumerate() {
            v.insert(at + i, b);
        }
        applied += 1;
    }
    applied
}

fn ntfs_tail(t: &mut Tape) -> Vec<u8> {
    const TAILS: [&[u8]; 20] = [
        b" ",
        b".",
        b". .",
        b"  ",
        b"..",
        b" . ",
        b":stream",
        b"::$INDEX_ALLOCATION",
        b":",
        b" :x",
        b". :$DATA",
        b"\\x",
        b"\\",
        b" \\x",
        b".\\",
        b" x",
        b".x",
        b"x",
        b"\t",
        b" .:",
    ];
    if t.chance(56) {
        t.string_of(b" .:\\x", 1, 5)
    } else {
        t.pick(&TAILS).to_vec()
    }
}

fn near_miss(t: &mut Tape, v: &mut Vec<u8>) {
    if v.is_empty() {
        return;
    }
    let at = t.below(v.len());
    match t.below(5) {
        0 => {
            v.remove(at);
        }
        1 => {
            let b = v[at];
            v.insert(at, b);
        }
        2 => v[at] = *t.pick(b"\xff\x80\xc4\xb1IiKk1l~"),
        3 => {
            // a look-alike multi-byte letter (dotless i, dotted I, kelvin sign, long s)
            let rep: &[u8] = *t.pick(&[&b"\xc4\xb1"[..], &b"\xc4\xb0"[..], &b"\xe2\x84\xaa"[..], &b"\xc5\xbf"[..]]);
            v.splice(at..=at, rep.iter().copied());
        }
        _ => v.insert(at, *t.pick(b". ~:\\")),
    }
}

fn gen_comp(t: &mut Tape, labels: &mut Vec<&'static str>) -> Comp {
    let symlink = t.chance(120);
    let mut ntrans = 0u8;
    let kind = t.weighted(&[6, 6, 3, 3, 4, 4, 1]);
    let (mut v, seed): (Vec<u8>, &'static str) = match kind {
        0 => (b".git".to_vec(), "seed:.git"),
        1 => (b".gitmodules".to_vec(), "seed:.gitmodules"),
        2 => (b"git~1".to_vec(), "seed:git~1"),
        3 => {
            let d = *t.pick(b"1234105");
            if d != b'1' {
                ntrans += 1;
            }
            (format!("gitmod~{}", d as char).into_bytes(), "seed:gitmod~N")
        }
        4 => {
            // NTFS fall-back short name: leading part of "gi7eba", '~', digits; 8 characters in all
            let k = *t.pick(&[6usize, 6, 6, 5, 4, 3, 0]);
            let mut s = b"gi7eba"[..k].to_vec();
            s.push(b'~');
            s.push(*t.pick(b"1234567890"));
            while s.len() < 8 {
                s.push(*t.pick(b"0123456789"));
            }
            if t.chance(40) {
                // wrong length
                if t.bool() {
                    s.push(b'0');
                } else {
                    s.pop();
                }
            }
            if s != b"gi7eba~1" {
                ntrans += 1;
            }
            (s, "seed:gi7eba~N")
        }
        5 => {
            labels.push("random-component");
            let mut s = if t.bool() {
                t.string_of(b".gitmodulesGITMODULES~1234 :\\7eba\xe2\x80\x8c\x8d\xef\xbb\xbf", 1, 14)
            } else {
                let n = t.range(1, 12);
                t.take(n)
            };
            for b in s.iter_mut() {
                if *b == 0 || *b == b'/' || *b == b'\n' {
                    *b = b'-';
                }
            }
            return Comp {
                bytes: s,
                symlink,
                ntrans: 0,
                seed: "random",
            };
        }
        _ => {
            labels.push("dot-or-dotdot");
            return Comp {
                bytes: t.pick(&[&b"."[..], &b".."[..]]).to_vec(),
                symlink,
                ntrans: 0,
                seed: "dots",
            };
        }
    };
    labels.push(seed);
    if t.chance(150) && flip_case(t, &mut v) {
        labels.push("case-flip");
        ntrans += 1;
    }
    if t.chance(110) {
        ntrans += insert_codepoints(t, &mut v, labels);
    }
    if t.chance(120) {
        v.extend(ntfs_tail(t));
        labels.push("ntfs-tail");
        ntrans += 1;
    }
    if t.chance(40) {
        // a backslash separated leading part: git's NTFS protection treats '\' like '/'
        let mut p = t.pick(&[&b"a\\"[..], &b"\\"[..], &b"a\\b\\"[..], &b".git\\"[..]]).to_vec();
        p.extend(v);
        v = p;
        labels.push("backslash-prefix");
        ntrans += 1;
    }
    if t.chance(45) {
        near_miss(t, &mut v);
        labels.push("near-miss");
        ntrans += 1;
    }
    for b in v.iter_mut() {
        if *b == 0 || *b == b'/' || *b == b'\n' {
            *b = b'-';
        }
    }
    Comp {
        bytes: v,
        symlink,
        ntrans,
        seed,
    }
}

// ---------------------------------------------------------------------------------------------
// the arbiter

/// Returns for every path whether git refused it ("Ignoring path").
fn git_refusals(git: &Git, index_file: &std::path::Path, hfs: bool, ntfs: bool, items: &[(Vec<u8>, bool)]) -> Result<Vec<bool>, String> {
    let mut stdin = Vec::new();
    for (path, symlink) in items {
        stdin.extend_from_slice(if *symlink { b"120000 " } else { b"100644 " });
        stdin.extend_from_slice(EMPTY_BLOB.as_bytes());
        stdin.push(b'\t');
        stdin.extend_from_slice(path);
        stdin.push(0);
    }
    let _ = std::fs::remove_file(index_file);
    let g = git
        .clone()
        .env("GIT_INDEX_FILE", &index_file.display().to_string())
        .cfg(&format!("core.protectHFS={hfs}"))
        .cfg(&format!("core.protectNTFS={ntfs}"));
    let (ok, _out, err) = g.try_run(["update-index", "--add", "--replace", "-z", "--index-info"], Some(&stdin))?;
    if !ok {
        return Err(format!("git update-index --index-info failed: {}", String::from_utf8_lossy(&err)));
    }
    // stderr is the concatenation of "Ignoring path <p>\n" for the refused paths, in input order
    let mut pos = 0usize;
    let mut refused = Vec::with_capacity(items.len());
    for (path, _) in items {
        let mut line = b"Ignoring path ".to_vec();
        line.extend_from_slice(path);
        line.push(b'\n');
        if err[pos..].starts_with(&line) {
            pos += line.len();
            refused.push(true);
        } else {
            refused.push(false);
        }
    }
    if pos != err.len() {
        return Err(format!("unexpected git stderr: {:?}", err[pos..].as_bstr()));
    }
    Ok(refused)
}

#[derive(Clone)]
struct Mem(HashMap<ObjectId, Vec<u8>>);

impl gix_object::Find for Mem {
    fn try_find<'a>(
        &self,
        id: &gix_hash::oid,
        buffer: &'a mut Vec<u8>,
    ) -> Result<Option<gix_object::Data<'a>>, gix_object::find::Error> {
        match self.0.get(id) {
            Some(d) => {
                buffer.clear();
                buffer.extend_from_slice(d);
                Ok(Some(gix_object::Data {
                    kind: gix_object::Kind::Tree,
                    data: buffer,
                }))
            }
            None => Ok(None),
        }
    }
}

fn put_tree(mem: &mut Mem, mut entries: Vec<gix_object::tree::Entry>) -> ObjectId {
    entries.sort_by(|a, b| vp::gen::git_tree_cmp(&a.filename, a.mode.is_tree(), &b.filename, b.mode.is_tree()));
    let tree = gix_object::Tree { entries };
    let mut buf = Vec::new();
    tree.write_to(&mut buf).expect("in-memory write");
    let id = gix_object::compute_hash(gix_hash::Kind::Sha1, gix_object::Kind::Tree, &buf);
    mem.0.insert(id, buf);
    id
}

/// root { c (mode), x/ { c (mode) }, y/ { c/ { x (blob) } } }
fn tree_for(c: &Comp) -> (Mem, ObjectId) {
    use gix_object::tree::{Entry, EntryKind};
    let blob = ObjectId::from_hex(EMPTY_BLOB.as_bytes()).unwrap();
    let leaf_kind = if c.symlink { EntryKind::Link } else { EntryKind::Blob };
    let mut mem = Mem(HashMap::new());
    let name: BString = c.bytes.clone().into();
    let e = |kind: EntryKind, name: &BString, oid: ObjectId| Entry {
        mode: kind.into(),
        filename: name.clone(),
        oid,
    };
    let x_tree = put_tree(&mut mem, vec![e(leaf_kind, &name, blob)]);
    let inner = put_tree(&mut mem, vec![e(EntryKind::Blob, &"x".into(), blob)]);
    let y_tree = put_tree(&mut mem, vec![e(EntryKind::Tree, &name, inner)]);
    let root = put_tree(
        &mut mem,
        vec![
            e(leaf_kind, &name, blob),
            e(EntryKind::Tree, &"x".into(), x_tree),
            e(EntryKind::Tree, &"y".into(), y_tree),
        ],
    );
    (mem, root)
}

fn opts(h: bool, n: bool, w: bool) -> Options {
    Options {
        protect_windows: w,
        protect_hfs: h,
        protect_ntfs: n,
    }
}

fn component_refuses(c: &[u8], symlink: bool, o: Options) -> bool {
    gix_validate::path::component(c.as_bstr(), symlink.then_some(CMode::Symlink), o).is_err()
}

/// Signature for a disagreement where gitoxide accepts although git refuses.
fn classify(c: &Comp, o: Options, via_stack_path: Option<&[u8]>) -> &'static str {
    if let Some(p) = via_stack_path {
        if p.split(|b| *b == b'/').any(|comp| comp == b".") && !p.split(|b| *b == b'/').any(|comp| comp == b"..") {
            return "dot-component-normalized-away";
        }
    }
    if o.protect_hfs {
        // git's next_hfs_char() yields 0 for malformed UTF-8, which is_hfs_dot_generic() takes for the end of the name
        // (git's decoder also rejects the non-characters U+xFFFE, U+xFFFF and U+FDD0..U+FDEF)
        let std_valid = match std::str::from_utf8(&c.bytes) {
            Ok(s) => s,
            Err(e) => std::str::from_utf8(&c.bytes[..e.valid_up_to()]).unwrap_or(""),
        };
        let n = std_valid
            .char_indices()
            .find(|(_, ch)| {
                let cp = *ch as u32;
                (cp & 0xfffe) == 0xfffe || (0xfdd0..=0xfdef).contains(&cp)
            })
            .map(|(i, _)| i)
            .unwrap_or(std_valid.len());
        if n > 0 && n < c.bytes.len() && component_refuses(&c.bytes[..n], c.symlink, opts(true, false, false)) {
            return "hfs-malformed-utf8-ends-name";
        }
    }
    if c.bytes.contains(&b'\\')
        && !o.protect_windows
        && o.protect_ntfs
        && c.bytes.split(|b| *b == b'\\').any(|piece| !piece.is_empty() && component_refuses(piece, c.symlink, o))
    {
        return "ntfs-backslash-not-a-separator";
    }
    ""
}

fn join(a: &[u8], b: &[u8]) -> Vec<u8> {
    let mut v = a.to_vec();
    v.push(b'/');
    v.extend_from_slice(b);
    v
}

// ---------------------------------------------------------------------------------------------
// Windows device names (model only)

const DEVICES: [&str; 25] = [
    "CON", "PRN", "AUX", "NUL", "COM1", "COM2", "COM3", "COM4", "COM5", "COM6", "COM7", "COM8", "COM9", "LPT0", "LPT1", "LPT2",
    "LPT3", "LPT4", "LPT5", "LPT6", "LPT7", "LPT8", "LPT9", "CONIN$", "CONOUT$",
];

/// Transcription of the reserved-name part of git's `is_valid_win32_path` (compat/mingw.c) for ONE component:
/// a device name, then any number of spaces, then the end, '.' or ':'.
fn model_is_reserved(c: &[u8]) -> bool {
    let up: Vec<u8> = c.iter().map(|b| b.to_ascii_uppercase()).collect();
    let rest = |n: usize| -> bool {
        let tail = &up[n..];
        let skip = tail.iter().take_while(|b| **b == b' ').count();
        match tail.get(skip) {
            None => true,
            Some(b'.') | Some(b':') | Some(b'\\') => true,
            _ => false,
        }
    };
    for base in ["AUX", "NUL", "PRN"] {
        if up.starts_with(base.as_bytes()) && rest(3) {
            return true;
        }
    }
    if up.starts_with(b"COM") && up.get(3).map_or(false, |d| (b'1'..=b'9').contains(d)) && rest(4) {
        return true;
    }
    if up.starts_with(b"LPT") && up.get(3).map_or(false, |d| d.is_ascii_digit()) && rest(4) {
        return true;
    }
    if up.starts_with(b"CON") {
        if up[3..].starts_with(b"IN$") {
            return rest(6);
        }
        if up[3..].starts_with(b"OUT$") {
            return rest(7);
        }
        return rest(3);
    }
    false
}

pub fn main() {
    let mut ck = Check::new("C40", "exploration");
    ck.rule("Batches of 8..24 components built from the seeds .git, .gitmodules, git~1, gitmod~N, NTFS fall-back short names (gi7eba~N family), '.'/'..' and random ones by: case flips, insertion of the 16 HFS-ignorable code points / non-ignorable neighbours / malformed UTF-8 at any position, NTFS tails (spaces, dots, :stream, backslash), backslash separated leading parts, near-miss edits; mode blob or symlink; all 4 (protectHFS, protectNTFS) git configurations x protect_windows in {false,true}. Non-trivial: the batch holds a component that differs from its seed by >= 1 transformation and that git refuses in at least one configuration. Distinct by batch content. win-devices: device name x case x tail; non-trivial when case or tail differs from the canonical upper-case name.");
    ck.assume(&format!(
        "the arbiter is {}: a path is refused iff `update-index --index-info` prints 'Ignoring path' for it (verify_path)",
        Git::version()
    ));
    ck.assume("'.' and '..' (refused by git in every configuration) are outside the domain of gix_validate::path::component and State::from_tree; for them only the checkout path stack (gix_worktree::Stack::at_entry) is required to refuse");
    ck.assume("win-devices has no git arbiter on Linux (oracle: model-only, transcribed from compat/mingw.c is_valid_win32_path); asserted only with protect_windows = protect_ntfs = true and only for canonical device-name forms");

    ck.sub(
        "git-arbiter",
        SubCfg::new(2_000, 120_000).max_len(1400).max_shrink(40),
        |t, c| {
            let n = t.range(8, 24);
            let mut batch = Vec::new();
            let mut labels = Vec::new();
            for _ in 0..n {
                let comp = gen_comp(t, &mut labels);
                if comp.bytes.is_empty() || comp.bytes.len() > 120 || comp.bytes == b"x" || comp.bytes == b"y" {
                    continue;
                }
                // one mode per name and batch: the refusals are told apart by path
                if batch.iter().any(|b: &Comp| b.bytes == comp.bytes) {
                    continue;
                }
                batch.push(comp);
            }
            if batch.is_empty() {
                c.discard();
                return;
            }
            for l in labels {
                c.label(l);
            }
            c.key(&batch);
            c.sample_with(|| {
                batch
                    .iter()
                    .map(|b| format!("{}{}", show(&b.bytes), if b.symlink { "@" } else { "" }))
                    .collect::<Vec<_>>()
                    .join(" | ")
            });

            // the arbiter: 4 git calls for the whole batch
            let scratch = infra!(c, Scratch::new("c40"), "scratch");
            let gd = scratch.join(".git");
            infra!(c, std::fs::create_dir_all(gd.join("objects")), "mkdir");
            infra!(c, std::fs::create_dir_all(gd.join("refs")), "mkdir");
            infra!(c, std::fs::write(gd.join("HEAD"), "ref: refs/heads/main\n"), "HEAD");
            let git = Git::new(&scratch.path, &scratch.path);
            let wt = scratch.join("wt");
            infra!(c, std::fs::create_dir_all(&wt), "mkdir");

            // per component: [c, c/x, x/c] with the component's mode, [y/c/x] as regular file
            let mut items: Vec<(Vec<u8>, bool)> = Vec::new();
            for comp in &batch {
                items.push((comp.bytes.clone(), comp.symlink));
                items.push((join(&comp.bytes, b"x"), comp.symlink));
                items.push((join(b"x", &comp.bytes), comp.symlink));
                items.push((join(&join(b"y", &comp.bytes), b"x"), false));
            }
            // Disagreements of a classified (possibly known) kind do not end the case: the remaining components are still
            // examined, so that the search continues behind known findings; an unclassified one is reported at once.
            let mut deferred: Option<(&'static str, String)> = None;
            let mut any_nontrivial = false;
            let mut git_refused_total = 0usize;
            let mut gix_stricter = 0usize;
            for (h, n) in [(false, false), (true, false), (false, true), (true, true)] {
                let refused = infra!(
                    c,
                    git_refusals(&git, &gd.join(format!("index-{}{}", h as u8, n as u8)), h, n, &items),
                    "git arbiter"
                );
                for (i, comp) in batch.iter().enumerate() {
                    let r = &refused[i * 4..i * 4 + 4];
                    let leaf_shapes_refused = r[0] || r[1] || r[2];
                    let any_refused = leaf_shapes_refused || r[3];
                    if any_refused {
                        git_refused_total += 1;
                        if comp.ntrans > 0 {
                            any_nontrivial = true;
                        }
                    }
                    let dots = comp.bytes == b"." || comp.bytes == b"..";
                    for w in [false, true] {
                        let o = opts(h, n, w);
                        let cfg = format!("protectHFS={h} protectNTFS={n} protect_windows={w}");
                        let shown = format!("{:?} ({})", show(&comp.bytes), if comp.symlink { "symlink" } else { "blob" });
                        // A: the validator itself
                        let comp_refuses = component_refuses(&comp.bytes, comp.symlink, o);
                        if !dots {
                            if leaf_shapes_refused && !comp_refuses {
                                let sig = classify(comp, o, None);
                                let msg = format!(
                                    "git refuses [c, c/x, x/c] = {:?} for c = {shown} under {cfg}, but gix_validate::path::component accepts it",
                                    &r[..3]
                                );
                                if sig.is_empty() {
                                    c.fail(msg);
                                    return;
                                }
                                deferred.get_or_insert((sig, msg));
                                continue;
                            }
                            if comp_refuses && !any_refused {
                                gix_stricter += 1;
                            }
                            // B: index from tree
                            if any_refused && comp.bytes.len() <= 100 {
                                let (mem, root) = tree_for(comp);
                                if gix_index::State::from_tree(&root, &mem, o).is_ok() {
                                    let sig = classify(comp, o, None);
                                    let msg = format!(
                                        "git refuses [c, c/x, x/c, y/c/x(blob)] = {r:?} for c = {shown} under {cfg}, but gix_index::State::from_tree accepts the tree {{c, x/c, y/c/x}}"
                                    );
                                    if sig.is_empty() {
                                        c.fail(msg);
                                        return;
                                    }
                                    deferred.get_or_insert((sig, msg));
                                    continue;
                                }
                            }
                        }
                        // C: the checkout path stack, per shape
                        for (shape, path) in [&items[i * 4], &items[i * 4 + 1], &items[i * 4 + 2]].iter().enumerate() {
                            if !r[shape] {
                                continue;
                            }
                            let mut stack = gix_worktree::Stack::new(
                                wt.clone(),
                                gix_worktree::stack::State::for_checkout(false, o, Default::default()),
                                gix_glob::pattern::Case::Sensitive,
                                Vec::new(),
                                Vec::new(),
                            );
                            let mode = if comp.symlink {
                                gix_index::entry::Mode::SYMLINK
                            } else {
                                gix_index::entry::Mode::FILE
                            };
                            let res = stack.at_entry(path.0.as_bstr(), Some(mode), &gix_object::find::Never);
                            if let Ok(platform) = res {
                                let dest = platform.path().to_owned();
                                let sig = classify(comp, o, Some(&path.0));
                                let msg = format!(
                                    "git refuses the path {:?} ({}) under {cfg}, but the checkout stack (gix_worktree::Stack::at_entry) accepts it and would write to {:?}",
                                    show(&path.0),
                                    if comp.symlink { "symlink" } else { "blob" },
                                    dest
                                );
                                if sig.is_empty() {
                                    c.fail(msg);
                                    return;
                                }
                                deferred.get_or_insert((sig, msg));
                            }
                        }
                    }
                }
            }
            if let Some((sig, msg)) = deferred {
                c.fail_sig(sig, msg);
                return;
            }
            c.label_if(git_refused_total > 0, "git-refuses-some");
            c.label_if(gix_stricter > 0, "gitoxide-stricter-than-git");
            c.nontrivial(any_nontrivial);
        },
    );

    ck.sub("win-devices", SubCfg::new(20_000, 500_000).max_len(40), |t, c| {
        let base = *t.pick(&DEVICES);
        let mut name = base.as_bytes().to_vec();
        let flipped = t.chance(170) && flip_case(t, &mut name);
        const TAILS: [&[u8]; 14] = [
            b"", b" ", b"  ", b".", b".x", b".txt", b":x", b":", b" .x", b" :s", b"  .tar.gz", b". ", b".. ", b" . .",
        ];
        let tail: Vec<u8> = if t.chance(40) {
            // free-form tails: spaces first, then '.' or ':' and anything without separators
            let mut v = vec![b' '; t.below(3)];
            v.push(*t.pick(b".:"));
            v.extend(t.string_of(b"ax. :$1", 0, 5));
            v
        } else {
            t.pick(&TAILS).to_vec()
        };
        name.extend_from_slice(&tail);
        let negative = t.chance(40);
        if negative {
            // not reserved: a letter directly after the name, or COM0
            match t.below(3) {
                0 => name = [base.as_bytes(), b"x"].concat(),
                1 => name = b"COM0".to_vec(),
                _ => name = [b"x", base.as_bytes()].concat(),
            }
        }
        let hfs = t.bool();
        c.key(&(&name, hfs));
        c.label(if negative { "not-reserved" } else { "reserved" });
        c.label_if(flipped, "case-flip");
        c.label_if(!tail.is_empty() && !negative, "tail");
        c.sample_with(|| show(&name));
        let reserved = model_is_reserved(&name);
        ensure!(c, reserved != negative, "harness model inconsistent for {:?}", show(&name));
        c.nontrivial(reserved && (flipped || !tail.is_empty()));
        if reserved {
            let o = opts(hfs, true, true);
            for symlink in [false, true] {
                ensure!(
                    c,
                    component_refuses(&name, symlink, o),
                    "Windows reserved device name {:?} is accepted by gix_validate::path::component with protect_windows = protect_ntfs = true (hfs={hfs}, symlink={symlink})",
                    show(&name)
                );
            }
            ensure!(
                c,
                gix_validate::path::component_is_windows_device(BStr::new(&name)),
                "component_is_windows_device({:?}) = false for a reserved device name",
                show(&name)
            );
        }
    });

    ck.finish();
}
