//! C04 — tree editing yields the same tree as building the result from scratch.
//!
//! A history of edits (upsert / remove / write / cursor{edits; write} / set_root) is generated from the tape while a
//! reference model (nested map of paths) is evolved with explicit rules. The same history is then applied to
//!   * `gix_object::tree::Editor` over an in-memory object store            (sub-check `editor-model`),
//!   * `gix_object::tree::Editor` over a real loose ODB created by git, with git computing the expected root ids
//!     from scratch (`update-index --index-info` + `write-tree`, or `mktree --batch`)  (sub-check `editor-git`),
//!   * `gix::object::tree::Editor` (`Repository::edit_tree`)                 (sub-check `gix-wrapper`).
//! Every write (root or cursor) must return the id of the model's tree; every tree handed to the `out` callback must
//! be canonical (strictly ascending in git's order, no null ids, non-empty unless it is the written root).
//!
//! Known-finding classification: besides the reference model ("what should happen"), the same model code can
//! *emulate* two defects found in the editor (see `Flags`); a deviation from the reference model that coincides with
//! the emulation carries the signature of that defect, and from then on the editor is compared with the emulation, so
//! that any *other* deviation is still reported as a plain violation.
use gix_hash::ObjectId;
use gix_object::bstr::{BStr, BString, ByteSlice};
use gix_object::tree::{Entry, EntryKind};
use gix_object::{Tree, TreeRef, WriteTo};
use std::cell::RefCell;
use std::collections::{BTreeMap, HashMap};
use vp::gen::git_tree_cmp;
use vp::*;

type Name = Vec<u8>;
type Dir = BTreeMap<Name, Node>;

#[derive(Clone, Debug, PartialEq, Eq, Hash)]
enum Node {
    /// an entry as it would be stored: non-tree kinds, or a tree known only by id ("on disk")
    Leaf(EntryKind, ObjectId),
    /// a directory whose content is held in memory
    Dir(Dir),
}

#[derive(Clone, Debug, PartialEq, Eq, Hash)]
enum SubOp {
    Upsert { path: Vec<Name>, kind: EntryKind, id: ObjectId },
    Remove { path: Vec<Name> },
}

#[derive(Clone, Debug, PartialEq, Eq, Hash)]
enum Op {
    Edit(SubOp),
    /// `Editor::write()`
    Write,
    /// `cursor_at(path)` (or `to_cursor()` for the empty path), edits through the cursor, optional `Cursor::write()`
    Cursor { path: Vec<Name>, ops: Vec<SubOp>, write: bool },
    /// `set_root(tree)`; None = the empty tree
    SetRoot(Option<ObjectId>),
}

#[derive(Clone, Debug, PartialEq, Eq)]
enum Outcome {
    Ok,
    ErrEmpty,
    ErrMissing,
    Id(ObjectId),
    /// reference model only: the documentation does not say what should happen; the op is not generated
    Ambiguous,
}

#[derive(Clone, Copy, Default, PartialEq, Eq, Debug)]
struct Flags {
    /// emulate: a directory held in memory that is overwritten or removed stays in the editor's path-keyed map and is
    /// re-adopted when a tree entry appears at that path again
    stale: bool,
    /// emulate: `cursor_at(p)` where `p` is a tree that is not held in memory starts from an empty tree
    wipe: bool,
    /// emulate: descending into a tree entry with the null id (an explicit placeholder) that is not held in memory
    /// tries to look up the null id and fails
    null_err: bool,
    /// `Editor::write` through the gix wrapper is a cursor write at the root (nothing is forgotten)
    root_write_is_cursor_write: bool,
}

#[derive(Default, Clone, Debug)]
struct Events {
    file_to_dir: bool,
    dir_to_file: bool,
    dir_removed: bool,
    dir_to_tree_leaf: bool,
    loaded_from_store: bool,
    edits_after_write: bool,
    wrote: bool,
    cursor: bool,
    cursor_write: bool,
    cursor_on_stored_tree: bool,
    set_root: bool,
}

fn null() -> ObjectId {
    ObjectId::null(gix_hash::Kind::Sha1)
}
fn empty_tree() -> ObjectId {
    ObjectId::empty_tree(gix_hash::Kind::Sha1)
}

fn mode_str(k: EntryKind) -> &'static str {
    match k {
        EntryKind::Tree => "40000",
        EntryKind::Blob => "100644",
        EntryKind::BlobExecutable => "100755",
        EntryKind::Link => "120000",
        EntryKind::Commit => "160000",
    }
}

type Listing = Vec<(Name, EntryKind, ObjectId)>;

/// canonical bytes of a tree, written by the harness (ordering: transcription of git's base_name_compare)
fn serialize(listing: &Listing) -> Vec<u8> {
    let mut l: Vec<&(Name, EntryKind, ObjectId)> = listing.iter().collect();
    l.sort_by(|a, b| git_tree_cmp(&a.0, a.1 == EntryKind::Tree, &b.0, b.1 == EntryKind::Tree));
    let mut v = Vec::new();
    for (name, kind, id) in l {
        v.extend_from_slice(mode_str(*kind).as_bytes());
        v.push(b' ');
        v.extend_from_slice(name);
        v.push(0);
        v.extend_from_slice(id.as_bytes());
    }
    v
}

fn tree_id(bytes: &[u8]) -> ObjectId {
    ObjectId::from_hex(object_sha1("tree", bytes).as_bytes()).expect("40 hex")
}

/// trees the harness knows by content
#[derive(Clone, Default)]
struct Registry {
    by_id: HashMap<ObjectId, Listing>,
    order: Vec<ObjectId>,
}

impl Registry {
    fn insert(&mut self, id: ObjectId, l: Listing) {
        if !self.by_id.contains_key(&id) {
            self.order.push(id);
            self.by_id.insert(id, l);
        }
    }
}

#[derive(Clone)]
struct Model {
    root: Dir,
    ghosts: BTreeMap<Vec<u8>, Dir>,
    reg: Registry,
    flags: Flags,
    ev: Events,
}

struct Ctx<'a> {
    ghosts: &'a mut BTreeMap<Vec<u8>, Dir>,
    reg: &'a Registry,
    flags: Flags,
    ev: &'a mut Events,
    /// reference model: refuse ambiguous steps
    strict: bool,
}

#[derive(Clone, Copy, PartialEq)]
enum Enter {
    /// on the way to an upsert target or a cursor location: everything on the way becomes a directory
    Create,
    /// on the way to a removal target: stop at anything that is not a directory
    RemoveWalk,
    /// the location of a cursor
    CursorLast,
}

fn push_comp(path: &mut Vec<u8>, name: &[u8]) -> usize {
    let l = path.len();
    if !path.is_empty() {
        path.push(b'/');
    }
    path.extend_from_slice(name);
    l
}

fn listing_to_dir(l: &Listing) -> Dir {
    l.iter().map(|(n, k, id)| (n.clone(), Node::Leaf(*k, *id))).collect()
}

/// Make `dir[name]` a directory held in memory (according to `how`) and return it. `path` already ends in `name`.
fn enter<'d>(
    dir: &'d mut Dir,
    name: &[u8],
    path: &[u8],
    ctx: &mut Ctx<'_>,
    how: Enter,
) -> Result<Option<&'d mut Dir>, Outcome> {
    let replacement: Option<Dir> = match dir.get(name) {
        Some(Node::Dir(_)) => None,
        Some(Node::Leaf(EntryKind::Tree, id)) => {
            let id = *id;
            if ctx.flags.stale && ctx.ghosts.contains_key(path) {
                Some(ctx.ghosts.remove(path).expect("present"))
            } else if how == Enter::CursorLast && ctx.flags.wipe {
                Some(Dir::new())
            } else if id.is_null() {
                if ctx.flags.null_err && how != Enter::CursorLast {
                    return Err(Outcome::ErrMissing);
                }
                Some(Dir::new())
            } else if id == empty_tree() {
                if ctx.strict && how != Enter::Create {
                    // a no-op walk through an explicitly inserted empty tree: unspecified whether the entry survives
                    return Err(Outcome::Ambiguous);
                }
                Some(Dir::new())
            } else {
                match ctx.reg.by_id.get(&id) {
                    Some(l) => {
                        ctx.ev.loaded_from_store = true;
                        if how == Enter::CursorLast {
                            ctx.ev.cursor_on_stored_tree = true;
                        }
                        Some(listing_to_dir(l))
                    }
                    None => return Err(Outcome::ErrMissing),
                }
            }
        }
        Some(Node::Leaf(_, _)) => {
            if how == Enter::RemoveWalk {
                return Ok(None);
            }
            ctx.ev.file_to_dir = true;
            Some(if ctx.flags.stale {
                ctx.ghosts.remove(path).unwrap_or_default()
            } else {
                Dir::new()
            })
        }
        None => {
            if how == Enter::RemoveWalk {
                return Ok(None);
            }
            Some(if ctx.flags.stale {
                ctx.ghosts.remove(path).unwrap_or_default()
            } else {
                Dir::new()
            })
        }
    };
    if let Some(d) = replacement {
        dir.insert(name.to_vec(), Node::Dir(d));
    }
    match dir.get_mut(name) {
        Some(Node::Dir(d)) => Ok(Some(d)),
        _ => unreachable!("just made a directory"),
    }
}

fn upsert_in(
    dir: &mut Dir,
    comps: &[Name],
    path: &mut Vec<u8>,
    ctx: &mut Ctx<'_>,
    kind: EntryKind,
    id: ObjectId,
) -> Outcome {
    let Some((name, rest)) = comps.split_first() else {
        return Outcome::Ok;
    };
    if name.is_empty() {
        return Outcome::ErrEmpty;
    }
    push_comp(path, name);
    if rest.is_empty() {
        let old = dir.insert(name.clone(), Node::Leaf(kind, id));
        if let Some(Node::Dir(d)) = old {
            if kind == EntryKind::Tree {
                ctx.ev.dir_to_tree_leaf = true;
            } else if !d.is_empty() {
                ctx.ev.dir_to_file = true;
            }
            if ctx.flags.stale {
                ctx.ghosts.insert(path.clone(), d);
            }
        }
        Outcome::Ok
    } else {
        match enter(dir, name, path, ctx, Enter::Create) {
            Ok(Some(sub)) => upsert_in(sub, rest, path, ctx, kind, id),
            Ok(None) => unreachable!("Create always enters"),
            Err(o) => o,
        }
    }
}

fn remove_in(dir: &mut Dir, comps: &[Name], path: &mut Vec<u8>, ctx: &mut Ctx<'_>) -> Outcome {
    let Some((name, rest)) = comps.split_first() else {
        return Outcome::Ok;
    };
    if name.is_empty() {
        return Outcome::ErrEmpty;
    }
    push_comp(path, name);
    if rest.is_empty() {
        if let Some(Node::Dir(d)) = dir.remove(name.as_slice()) {
            if !d.is_empty() {
                ctx.ev.dir_removed = true;
            }
            if ctx.flags.stale {
                ctx.ghosts.insert(path.clone(), d);
            }
        }
        Outcome::Ok
    } else {
        match enter(dir, name, path, ctx, Enter::RemoveWalk) {
            Ok(Some(sub)) => remove_in(sub, rest, path, ctx),
            Ok(None) => Outcome::Ok,
            Err(o) => o,
        }
    }
}

/// emulation only: a tree entry at a path for which a detached directory is still remembered *is* that directory
fn adopt_ghosts(dir: &mut Dir, path: &mut Vec<u8>, ghosts: &mut BTreeMap<Vec<u8>, Dir>) {
    if ghosts.is_empty() {
        return;
    }
    let names: Vec<Name> = dir.keys().cloned().collect();
    for name in names {
        let l = push_comp(path, &name);
        let node = dir.get_mut(&name).expect("key exists");
        if matches!(node, Node::Leaf(EntryKind::Tree, _)) {
            if let Some(g) = ghosts.remove(path.as_slice()) {
                *node = Node::Dir(g);
            }
        }
        if let Node::Dir(d) = node {
            adopt_ghosts(d, path, ghosts);
        }
        path.truncate(l);
    }
}

fn dir_listing(dir: &Dir) -> Listing {
    dir.iter()
        .filter_map(|(n, node)| match node {
            Node::Leaf(k, id) => Some((n.clone(), *k, *id)),
            Node::Dir(_) => None,
        })
        .collect()
}

/// Write all directories held in memory below `dir` (bottom-up): empty ones vanish, the others become entries
/// known by id; null-id placeholders vanish. Returns the ids of the trees written (without the top one).
/// `check_exists` (gix wrapper): every tree handed to the object database must only refer to existing objects;
/// returns false when one does not.
fn finalize(dir: &mut Dir, reg: &mut Registry, written: &mut Vec<ObjectId>, check_exists: bool) -> bool {
    let names: Vec<Name> = dir.keys().cloned().collect();
    for name in names {
        if let Some(Node::Dir(sub)) = dir.get_mut(&name) {
            if !finalize(sub, reg, written, check_exists) {
                return false;
            }
            if sub.is_empty() {
                dir.remove(&name);
            } else {
                let l = dir_listing(sub);
                if check_exists && !all_exist(&l, reg) {
                    return false;
                }
                let id = tree_id(&serialize(&l));
                reg.insert(id, l);
                written.push(id);
                dir.insert(name, Node::Leaf(EntryKind::Tree, id));
            }
        }
    }
    dir.retain(|_, n| !matches!(n, Node::Leaf(_, id) if id.is_null()));
    true
}

fn all_exist(l: &Listing, reg: &Registry) -> bool {
    l.iter()
        .all(|(_, k, id)| *k != EntryKind::Tree || *id == empty_tree() || reg.by_id.contains_key(id))
}

fn dir_at<'d>(root: &'d mut Dir, comps: &[Name]) -> Option<&'d mut Dir> {
    let mut cur = root;
    for c in comps {
        match cur.get_mut(c) {
            Some(Node::Dir(d)) => cur = d,
            _ => return None,
        }
    }
    Some(cur)
}

impl Model {
    fn new(root: Dir, reg: Registry, flags: Flags) -> Self {
        Model {
            root,
            ghosts: BTreeMap::new(),
            reg,
            flags,
            ev: Events::default(),
        }
    }
    fn strict(&self) -> bool {
        !self.flags.stale && !self.flags.wipe && !self.flags.null_err
    }

    fn after_op(&mut self) {
        if self.flags.stale {
            let mut path = Vec::new();
            adopt_ghosts(&mut self.root, &mut path, &mut self.ghosts);
        }
    }

    fn sub_op(&mut self, prefix: &[Name], op: &SubOp) -> Outcome {
        let strict = self.strict();
        let Model { root, ghosts, reg, flags, ev } = self;
        if ev.wrote {
            ev.edits_after_write = true;
        }
        let mut ctx = Ctx {
            ghosts,
            reg,
            flags: *flags,
            ev,
            strict,
        };
        let mut path: Vec<u8> = Vec::new();
        for c in prefix {
            push_comp(&mut path, c);
        }
        let Some(dir) = dir_at(root, prefix) else {
            unreachable!("cursor directory exists while the cursor lives")
        };
        let o = match op {
            SubOp::Upsert { path: p, kind, id } => upsert_in(dir, p, &mut path, &mut ctx, *kind, *id),
            SubOp::Remove { path: p } => remove_in(dir, p, &mut path, &mut ctx),
        };
        self.after_op();
        o
    }

    fn cursor_at(&mut self, comps: &[Name]) -> Outcome {
        let strict = self.strict();
        let Model { root, ghosts, reg, flags, ev } = self;
        ev.cursor = true;
        let mut ctx = Ctx {
            ghosts,
            reg,
            flags: *flags,
            ev,
            strict,
        };
        let mut path: Vec<u8> = Vec::new();
        let mut cur: &mut Dir = root;
        for (i, name) in comps.iter().enumerate() {
            if name.is_empty() {
                return Outcome::ErrEmpty;
            }
            push_comp(&mut path, name);
            let how = if i + 1 == comps.len() { Enter::CursorLast } else { Enter::Create };
            match enter(cur, name, &path, &mut ctx, how) {
                Ok(Some(d)) => cur = d,
                Ok(None) => unreachable!(),
                Err(o) => return o,
            }
        }
        self.after_op();
        Outcome::Ok
    }

    /// write the tree at `comps`; `forget`: the editor forgets everything but the written root afterwards
    fn write_at(&mut self, comps: &[Name], forget: bool, written: &mut Vec<ObjectId>) -> Outcome {
        let check_exists = self.flags.root_write_is_cursor_write;
        let Model { root, ghosts, reg, ev, .. } = &mut *self;
        let Some(dir) = dir_at(root, comps) else {
            unreachable!("written directory is held in memory")
        };
        if !finalize(dir, reg, written, check_exists) {
            return Outcome::ErrMissing;
        }
        let l = dir_listing(dir);
        if check_exists && !all_exist(&l, reg) {
            return Outcome::ErrMissing;
        }
        let id = tree_id(&serialize(&l));
        reg.insert(id, l);
        written.push(id);
        if forget {
            ghosts.clear();
        }
        ev.wrote = true;
        if !comps.is_empty() {
            ev.cursor_write = true;
        }
        Outcome::Id(id)
    }

    fn apply(&mut self, op: &Op) -> Vec<Outcome> {
        match op {
            Op::Edit(s) => vec![self.sub_op(&[], s)],
            Op::Write => {
                let forget = !self.flags.root_write_is_cursor_write;
                vec![self.write_at(&[], forget, &mut Vec::new())]
            }
            Op::Cursor { path, ops, write } => {
                let mut out = vec![self.cursor_at(path)];
                if out[0] != Outcome::Ok {
                    return out;
                }
                for s in ops {
                    let o = self.sub_op(path, s);
                    let stop = o == Outcome::ErrMissing || o == Outcome::Ambiguous;
                    out.push(o);
                    if stop {
                        return out;
                    }
                }
                if *write {
                    out.push(self.write_at(path, false, &mut Vec::new()));
                }
                out
            }
            Op::SetRoot(id) => {
                self.ev.set_root = true;
                self.root = match id {
                    None => Dir::new(),
                    Some(id) => match self.reg.by_id.get(id) {
                        Some(l) => listing_to_dir(l),
                        // only possible for an emulation that has diverged from the reference model
                        None => return vec![Outcome::ErrMissing],
                    },
                };
                self.ghosts.clear();
                vec![Outcome::Ok]
            }
        }
    }
}

fn unusable(outs: &[Outcome]) -> bool {
    outs.iter().any(|o| matches!(o, Outcome::ErrMissing | Outcome::Ambiguous))
}

// -------------------------------------------------------------------------------------------------------------
// generation

const COMPONENTS: [&[u8]; 6] = [b"a", b"b", b"a-", b"a.", b"a0", b"ab"];

fn gen_path(t: &mut Tape, min: usize) -> Vec<Name> {
    let n = (1 + t.weighted(&[5, 5, 2, 1])).max(min);
    (0..n).map(|_| t.pick(&COMPONENTS).to_vec()).collect()
}

struct Pools {
    /// ids usable for non-tree entries
    blobs: Vec<ObjectId>,
    allow_unknown_tree: bool,
}

fn gen_subop(t: &mut Tape, known_trees: &[ObjectId], pools: &Pools) -> SubOp {
    if t.chance(72) {
        let mut path = gen_path(t, 1);
        if t.chance(6) {
            path[0] = Vec::new(); // rejected before anything is touched
        }
        return SubOp::Remove { path };
    }
    let mut path = gen_path(t, 1);
    if t.chance(4) {
        path[0] = Vec::new();
    }
    let kind = [
        EntryKind::Blob,
        EntryKind::BlobExecutable,
        EntryKind::Link,
        EntryKind::Commit,
        EntryKind::Tree,
    ][t.weighted(&[6, 1, 1, 1, 4])];
    let id = if kind == EntryKind::Tree {
        match t.weighted(&[3, 1, 7, 1]) {
            0 => null(),
            1 => empty_tree(),
            2 => {
                if known_trees.is_empty() {
                    null()
                } else {
                    // prefer recent trees
                    let n = known_trees.len();
                    let back = t.below(n.min(8));
                    known_trees[n - 1 - back]
                }
            }
            _ => {
                if pools.allow_unknown_tree {
                    let mut raw = [0x77u8; 20];
                    raw[19] = t.below(4) as u8;
                    ObjectId::from_bytes_or_panic(&raw)
                } else {
                    null()
                }
            }
        }
    } else if t.chance(26) {
        null()
    } else {
        *t.pick(&pools.blobs)
    };
    SubOp::Upsert { path, kind, id }
}

/// a nested starting tree: 1..10 files at 1..3 levels, as a model directory (all in memory)
fn gen_base(t: &mut Tape, pools: &Pools) -> Dir {
    let n = t.range(1, 10);
    let mut model = Model::new(Dir::new(), Registry::default(), Flags::default());
    for _ in 0..n {
        let depth = 1 + t.weighted(&[3, 4, 2]);
        let path: Vec<Name> = (0..depth).map(|_| t.pick(&COMPONENTS).to_vec()).collect();
        let kind = [EntryKind::Blob, EntryKind::BlobExecutable, EntryKind::Link, EntryKind::Commit][t.weighted(&[6, 1, 1, 1])];
        let id = *t.pick(&pools.blobs);
        model.sub_op(&[], &SubOp::Upsert { path, kind, id });
    }
    model.root
}

struct History {
    base: Option<ObjectId>,
    ops: Vec<Op>,
    /// outcomes of the reference model
    expected: Vec<Vec<Outcome>>,
    /// reference-model state right after each root write (index into ops), for the git oracle
    snapshots: Vec<(usize, Dir, ObjectId)>,
    reference: Model,
}

fn gen_history(t: &mut Tape, base: Option<(ObjectId, Registry)>, pools: &Pools, flags: Flags, max_ops: usize) -> History {
    let (base_id, reg) = match base {
        Some((id, reg)) => (Some(id), reg),
        None => (None, Registry::default()),
    };
    let root = match base_id {
        Some(id) => listing_to_dir(&reg.by_id[&id]),
        None => Dir::new(),
    };
    let mut m = Model::new(root, reg, flags);
    let nops = t.range(1, max_ops);
    let mut ops = Vec::new();
    let mut expected = Vec::new();
    let mut snapshots = Vec::new();
    for _ in 0..nops {
        let op = match t.weighted(&[14, 2, 3, 1]) {
            0 => Op::Edit(gen_subop(t, &m.reg.order, pools)),
            1 => Op::Write,
            2 => {
                let mut path = if t.chance(40) { Vec::new() } else { gen_path(t, 1) };
                // (a single empty component is documented as "the editor itself" but rejected; not generated)
                if path.len() >= 2 && t.chance(8) {
                    path[0] = Vec::new();
                }
                let n = t.range(0, 4);
                let known = m.reg.order.clone();
                let ops = (0..n).map(|_| gen_subop(t, &known, pools)).collect();
                Op::Cursor {
                    path,
                    ops,
                    write: t.chance(150),
                }
            }
            _ => {
                if m.reg.order.is_empty() || t.chance(64) {
                    Op::SetRoot(None)
                } else {
                    Op::SetRoot(Some(*t.pick(&m.reg.order)))
                }
            }
        };
        let backup = (m.root.clone(), m.ghosts.clone(), m.ev.clone());
        let outs = m.apply(&op);
        if outs.contains(&Outcome::Ambiguous) {
            // not part of the domain: undo and skip
            m.root = backup.0;
            m.ghosts = backup.1;
            m.ev = backup.2;
            continue;
        }
        let stop = unusable(&outs);
        if let (Op::Write, Some(Outcome::Id(id))) = (&op, outs.first()) {
            snapshots.push((ops.len(), m.root.clone(), *id));
        }
        ops.push(op);
        expected.push(outs);
        if stop {
            break; // the state after a failed lookup is unspecified
        }
    }
    if !expected.last().map_or(false, |o| unusable(o)) {
        // always finish with a full write
        let op = Op::Write;
        let outs = m.apply(&op);
        if let Some(Outcome::Id(id)) = outs.first() {
            snapshots.push((ops.len(), m.root.clone(), *id));
        }
        ops.push(op);
        expected.push(outs);
    }
    History {
        base: base_id,
        ops,
        expected,
        snapshots,
        reference: m,
    }
}

fn replay(base: Option<ObjectId>, reg: &Registry, flags: Flags, ops: &[Op]) -> Vec<Vec<Outcome>> {
    let root = match base {
        Some(id) => listing_to_dir(&reg.by_id[&id]),
        None => Dir::new(),
    };
    let mut m = Model::new(root, reg.clone(), flags);
    let mut out = Vec::new();
    for op in ops {
        let o = m.apply(op);
        let stop = unusable(&o);
        out.push(o);
        if stop {
            break;
        }
    }
    out
}

fn show_path(p: &[Name]) -> String {
    if p.is_empty() {
        return "<root>".into();
    }
    p.iter().map(|c| show(c)).collect::<Vec<_>>().join("/")
}

fn short(id: &ObjectId) -> String {
    if id.is_null() {
        "NULL".into()
    } else if *id == empty_tree() {
        "EMPTYTREE".into()
    } else {
        id.to_hex_with_len(7).to_string()
    }
}

fn show_subop(s: &SubOp) -> String {
    match s {
        SubOp::Upsert { path, kind, id } => format!("upsert({}, {:?}, {})", show_path(path), kind, short(id)),
        SubOp::Remove { path } => format!("remove({})", show_path(path)),
    }
}

fn show_ops(base: &Option<ObjectId>, ops: &[Op]) -> String {
    let mut s = match base {
        Some(id) => format!("start={} ; ", short(id)),
        None => "start=empty ; ".to_string(),
    };
    if ops.len() == 1 {
        s.clear();
    }
    for op in ops {
        match op {
            Op::Edit(e) => s.push_str(&show_subop(e)),
            Op::Write => s.push_str("write"),
            Op::Cursor { path, ops, write } => {
                s.push_str(&format!("cursor_at({}){{", show_path(path)));
                s.push_str(&ops.iter().map(show_subop).collect::<Vec<_>>().join("; "));
                if *write {
                    s.push_str("; cursor.write");
                }
                s.push('}');
            }
            Op::SetRoot(id) => s.push_str(&format!("set_root({})", id.map(|i| short(&i)).unwrap_or("empty".into()))),
        }
        s.push_str(" ; ");
    }
    s
}

fn show_dir(dir: &Dir, prefix: &str, out: &mut Vec<String>) {
    for (n, node) in dir {
        let p = if prefix.is_empty() { show(n) } else { format!("{prefix}/{}", show(n)) };
        match node {
            Node::Leaf(k, id) => out.push(format!("{p}={:?}:{}", k, short(id))),
            Node::Dir(d) => {
                if d.is_empty() {
                    out.push(format!("{p}/"));
                }
                show_dir(d, &p, out)
            }
        }
    }
}

// -------------------------------------------------------------------------------------------------------------
// drivers

/// what `out` callbacks record
#[derive(Default)]
struct OutLog {
    problems: Vec<String>,
}

fn check_out_tree(tree: &Tree, log: &RefCell<OutLog>) {
    let mut problems = Vec::new();
    for w in tree.entries.windows(2) {
        let c = git_tree_cmp(&w[0].filename, w[0].mode.is_tree(), &w[1].filename, w[1].mode.is_tree());
        if c != std::cmp::Ordering::Less || w[0].filename == w[1].filename {
            problems.push(format!(
                "tree handed to `out` is not strictly ascending in git's order: {:?} before {:?}",
                show(&w[0].filename),
                show(&w[1].filename)
            ));
        }
    }
    for e in &tree.entries {
        if e.oid.is_null() {
            problems.push(format!("tree handed to `out` contains a null id at {:?}", show(&e.filename)));
        }
        if e.filename.is_empty() || e.filename.contains(&b'/') {
            problems.push(format!("tree handed to `out` has an invalid name {:?}", show(&e.filename)));
        }
    }
    if !problems.is_empty() {
        log.borrow_mut().problems.extend(problems);
    }
}

/// in-memory object store (trees only)
#[derive(Default)]
struct MemStore {
    objs: RefCell<HashMap<ObjectId, Vec<u8>>>,
}

impl gix_object::Find for MemStore {
    fn try_find<'a>(
        &self,
        id: &gix_hash::oid,
        buffer: &'a mut Vec<u8>,
    ) -> Result<Option<gix_object::Data<'a>>, gix_object::find::Error> {
        match self.objs.borrow().get(id) {
            Some(b) => {
                buffer.clear();
                buffer.extend_from_slice(b);
                Ok(Some(gix_object::Data {
                    kind: gix_object::Kind::Tree,
                    data: buffer.as_slice(),
                }))
            }
            None => Ok(None),
        }
    }
}

/// real ODB for what git created, memory for what the editor writes
struct Overlay {
    odb: gix_odb::Handle,
    mem: MemStore,
}

impl gix_object::Find for Overlay {
    fn try_find<'a>(
        &self,
        id: &gix_hash::oid,
        buffer: &'a mut Vec<u8>,
    ) -> Result<Option<gix_object::Data<'a>>, gix_object::find::Error> {
        if self.mem.objs.borrow().contains_key(id) {
            return self.mem.try_find(id, buffer);
        }
        self.odb.try_find(id, buffer)
    }
}

fn to_err(e: &gix_object::tree::editor::Error) -> Outcome {
    match e {
        gix_object::tree::editor::Error::EmptyPathComponent => Outcome::ErrEmpty,
        gix_object::tree::editor::Error::FindExistingObject(_) => Outcome::ErrMissing,
    }
}

fn comps(p: &[Name]) -> Vec<&BStr> {
    p.iter().map(|c| c.as_bstr()).collect()
}

/// Apply the history to `gix_object::tree::Editor`. `tree_of(id)` decodes a stored tree for `Editor::new`/`set_root`.
fn drive_object_editor(
    find: &dyn gix_object::FindExt,
    sink: &MemStore,
    base: Option<ObjectId>,
    ops: &[Op],
    log: &RefCell<OutLog>,
) -> Result<Vec<Vec<Outcome>>, String> {
    let load = |id: &ObjectId| -> Result<Tree, String> {
        let mut buf = Vec::new();
        let t = find
            .find_tree(id, &mut buf)
            .map_err(|e| format!("harness: start tree {id} not readable: {e}"))?;
        Ok(t.into())
    };
    let root = match base {
        Some(id) => load(&id)?,
        None => Tree::empty(),
    };
    let mut editor = gix_object::tree::Editor::new(root, find, gix_hash::Kind::Sha1);
    let mut out_fn = |tree: &Tree| -> Result<ObjectId, std::convert::Infallible> {
        check_out_tree(tree, log);
        let mut buf = Vec::new();
        tree.write_to(&mut buf).expect("write to memory");
        let id = gix_object::compute_hash(gix_hash::Kind::Sha1, gix_object::Kind::Tree, &buf);
        sink.objs.borrow_mut().insert(id, buf);
        Ok(id)
    };
    let mut results = Vec::new();
    for op in ops {
        let mut outs = Vec::new();
        match op {
            Op::Edit(SubOp::Upsert { path, kind, id }) => outs.push(match editor.upsert(comps(path), *kind, *id) {
                Ok(_) => Outcome::Ok,
                Err(e) => to_err(&e),
            }),
            Op::Edit(SubOp::Remove { path }) => outs.push(match editor.remove(comps(path)) {
                Ok(_) => Outcome::Ok,
                Err(e) => to_err(&e),
            }),
            Op::Write => {
                let before = log.borrow().problems.len();
                let id = editor.write(&mut out_fn).expect("infallible");
                let _ = before;
                outs.push(Outcome::Id(id));
            }
            Op::Cursor { path, ops, write } => {
                let cursor = if path.is_empty() {
                    Ok(editor.to_cursor())
                } else {
                    editor.cursor_at(comps(path))
                };
                match cursor {
                    Err(e) => outs.push(to_err(&e)),
                    Ok(mut cursor) => {
                        outs.push(Outcome::Ok);
                        let mut stop = false;
                        for s in ops {
                            let o = match s {
                                SubOp::Upsert { path, kind, id } => match cursor.upsert(comps(path), *kind, *id) {
                                    Ok(_) => Outcome::Ok,
                                    Err(e) => to_err(&e),
                                },
                                SubOp::Remove { path } => match cursor.remove(comps(path)) {
                                    Ok(_) => Outcome::Ok,
                                    Err(e) => to_err(&e),
                                },
                            };
                            stop = o == Outcome::ErrMissing;
                            outs.push(o);
                            if stop {
                                break;
                            }
                        }
                        if *write && !stop {
                            let id = cursor.write(&mut out_fn).expect("infallible");
                            outs.push(Outcome::Id(id));
                        }
                    }
                }
            }
            Op::SetRoot(id) => {
                let tree = match id {
                    Some(id) => load(id).ok(),
                    None => Some(Tree::empty()),
                };
                match tree {
                    Some(tree) => {
                        editor.set_root(tree);
                        outs.push(Outcome::Ok);
                    }
                    // the tree was never written by the editor (it diverged earlier)
                    None => outs.push(Outcome::ErrMissing),
                }
            }
        }
        let stop = unusable(&outs);
        results.push(outs);
        if stop {
            break;
        }
    }
    Ok(results)
}

fn join(p: &[Name]) -> BString {
    let mut v: Vec<u8> = Vec::new();
    for (i, c) in p.iter().enumerate() {
        if i > 0 {
            v.push(b'/');
        }
        v.extend_from_slice(c);
    }
    v.into()
}

/// Apply the history through `gix::Repository::edit_tree`. Errors other than the two editor errors are reported as text.
fn drive_gix_editor(repo: &gix::Repository, base: Option<ObjectId>, ops: &[Op]) -> Result<Vec<Vec<Outcome>>, String> {
    let base_id = base.unwrap_or_else(empty_tree);
    let mut editor = repo.edit_tree(base_id).map_err(|e| format!("edit_tree({base_id}): {e}"))?;
    let mut results = Vec::new();
    for op in ops {
        let mut outs = Vec::new();
        match op {
            Op::Edit(SubOp::Upsert { path, kind, id }) => outs.push(match editor.upsert(join(path), *kind, *id) {
                Ok(_) => Outcome::Ok,
                Err(e) => to_err(&e),
            }),
            Op::Edit(SubOp::Remove { path }) => outs.push(match editor.remove(join(path)) {
                Ok(_) => Outcome::Ok,
                Err(e) => to_err(&e),
            }),
            Op::Write => match editor.write() {
                Ok(id) => outs.push(Outcome::Id(id.detach())),
                Err(gix::object::tree::editor::write::Error::MissingObject { .. }) => outs.push(Outcome::ErrMissing),
                Err(e) => return Err(format!("Editor::write failed: {e}")),
            },
            Op::Cursor { path, ops, write } => {
                let cursor = if path.is_empty() {
                    Ok(editor.to_cursor())
                } else {
                    editor.cursor_at(join(path))
                };
                match cursor {
                    Err(e) => outs.push(to_err(&e)),
                    Ok(mut cursor) => {
                        outs.push(Outcome::Ok);
                        let mut stop = false;
                        for s in ops {
                            let o = match s {
                                SubOp::Upsert { path, kind, id } => match cursor.upsert(join(path), *kind, *id) {
                                    Ok(_) => Outcome::Ok,
                                    Err(e) => to_err(&e),
                                },
                                SubOp::Remove { path } => match cursor.remove(join(path)) {
                                    Ok(_) => Outcome::Ok,
                                    Err(e) => to_err(&e),
                                },
                            };
                            stop = o == Outcome::ErrMissing;
                            outs.push(o);
                            if stop {
                                break;
                            }
                        }
                        if *write && !stop {
                            match cursor.write() {
                                Ok(id) => outs.push(Outcome::Id(id.detach())),
                                Err(gix::object::tree::editor::write::Error::MissingObject { .. }) => {
                                    outs.push(Outcome::ErrMissing)
                                }
                                Err(e) => return Err(format!("Cursor::write failed: {e}")),
                            }
                        }
                    }
                }
            }
            Op::SetRoot(id) => match repo.find_tree(id.unwrap_or_else(empty_tree)) {
                Ok(tree) => {
                    editor.set_root(&tree).map_err(|e| format!("set_root: {e}"))?;
                    outs.push(Outcome::Ok);
                }
                Err(_) => outs.push(Outcome::ErrMissing),
            },
        }
        let stop = unusable(&outs);
        results.push(outs);
        if stop {
            break;
        }
    }
    Ok(results)
}

// -------------------------------------------------------------------------------------------------------------
// verdict

const SIG_STALE: &str = "stale-subtree-readopted";
const SIG_WIPE: &str = "cursor-at-discards-stored-tree";
const SIG_NULL: &str = "descend-into-null-placeholder-tree-fails";
const SIG_COMBINED: &str = "combination-of-known-editor-defects";

fn first_diff(a: &[Vec<Outcome>], b: &[Vec<Outcome>]) -> Option<usize> {
    let n = a.len().max(b.len());
    (0..n).find(|&i| a.get(i) != b.get(i))
}

/// Compare what the editor did with the reference model; classify known defects through the emulations.
fn judge(c: &mut Case, h: &History, flags: Flags, got: &[Vec<Outcome>], what: &str) {
    let Some(i) = first_diff(got, &h.expected) else {
        return;
    };
    let reg0 = base_registry(h);
    let emu = |stale: bool, wipe: bool, null_err: bool| {
        replay(
            h.base,
            &reg0,
            Flags {
                stale,
                wipe,
                null_err,
                root_write_is_cursor_write: flags.root_write_is_cursor_write,
            },
            &h.ops,
        )
    };
    let describe = |j: usize| {
        format!(
            "{what}: step {j} ({}) gave {:?}, the reference model expects {:?}; history: {}{}",
            h.ops
                .get(j)
                .map(|o| show_ops(&None, std::slice::from_ref(o)))
                .unwrap_or_default(),
            got.get(j),
            h.expected.get(j),
            show_ops(&h.base, &h.ops),
            show_base(h)
        )
    };
    let all = emu(true, true, true);
    if std::env::var_os("C04_DEBUG").is_some() {
        eprintln!("history: {}", show_ops(&h.base, &h.ops));
        eprintln!("got      {got:?}\nexpected {:?}\nall      {all:?}\nstale    {:?}\nwipe     {:?}\nnull     {:?}", h.expected, emu(true, false, false), emu(false, true, false), emu(false, false, true));
    }
    match first_diff(got, &all) {
        None => {
            // exactly the behaviour of the known defects; which single one explains the first deviation?
            let explains = |e: Vec<Vec<Outcome>>| (0..=i).all(|k| e.get(k) == got.get(k));
            let sig = if explains(emu(true, false, false)) {
                SIG_STALE
            } else if explains(emu(false, true, false)) {
                SIG_WIPE
            } else if explains(emu(false, false, true)) {
                SIG_NULL
            } else {
                SIG_COMBINED
            };
            c.fail_sig(sig, describe(i));
        }
        Some(j) => {
            c.fail(format!(
                "{} [emulation of the known defects predicts {:?} at step {j} where the editor gave {:?}]",
                describe(i),
                all.get(j),
                got.get(j)
            ));
        }
    }
}

/// the files of the start tree
fn show_base(h: &History) -> String {
    let Some(id) = &h.base else { return String::new() };
    let mut files = Vec::new();
    let dir = listing_to_dir(&h.reference.reg.by_id[id]);
    flatten(&dir, &h.reference.reg, &mut Vec::new(), &mut files);
    format!(
        " [start tree {}: {}]",
        short(id),
        files
            .iter()
            .map(|(k, _, p)| format!("{}:{:?}", show(p), k))
            .collect::<Vec<_>>()
            .join(" ")
    )
}

/// the registry the history started with (base trees only): recomputed from the reference registry by keeping the
/// trees reachable from the base id
fn base_registry(h: &History) -> Registry {
    let mut reg = Registry::default();
    fn add(id: &ObjectId, from: &Registry, to: &mut Registry) {
        if let Some(l) = from.by_id.get(id) {
            for (_, k, cid) in l {
                if *k == EntryKind::Tree {
                    add(cid, from, to);
                }
            }
            to.insert(*id, l.clone());
        }
    }
    if let Some(id) = &h.base {
        add(id, &h.reference.reg, &mut reg);
    }
    reg
}

fn label_case(c: &mut Case, h: &History) {
    let ev = &h.reference.ev;
    c.label_if(h.base.is_some(), "start-from-existing-tree");
    c.label_if(h.base.is_none(), "start-from-empty");
    c.label_if(ev.file_to_dir, "file-to-dir");
    c.label_if(ev.dir_to_file, "loaded-dir-with-children-to-file");
    c.label_if(ev.dir_removed, "loaded-dir-with-children-removed");
    c.label_if(ev.dir_to_tree_leaf, "loaded-dir-to-tree-by-id");
    c.label_if(ev.loaded_from_store, "descend-into-stored-tree");
    c.label_if(ev.edits_after_write, "edits-after-write");
    c.label_if(ev.cursor, "cursor");
    c.label_if(ev.cursor_write, "cursor-write");
    c.label_if(ev.cursor_on_stored_tree, "cursor-at-stored-tree");
    c.label_if(ev.set_root, "set-root");
    c.label_if(h.expected.iter().any(|o| o.contains(&Outcome::ErrEmpty)), "empty-component-rejected");
    c.label_if(h.expected.iter().any(|o| o.contains(&Outcome::ErrMissing)), "lookup-of-unknown-tree-fails");
    c.label_if(h.ops.len() > 20, "more-than-20-ops");
    c.nontrivial(ev.file_to_dir || ev.dir_to_file || ev.edits_after_write);
    c.key(&(&h.base, &h.ops));
}

fn base_to_store(reg: &Registry, store: &MemStore) {
    for (id, l) in &reg.by_id {
        store.objs.borrow_mut().insert(*id, serialize(l));
    }
}

/// Turn a fully in-memory directory into registry trees; returns the root id
fn register_base(mut dir: Dir, reg: &mut Registry) -> ObjectId {
    let mut written = Vec::new();
    finalize(&mut dir, reg, &mut written, false);
    let l = dir_listing(&dir);
    let id = tree_id(&serialize(&l));
    reg.insert(id, l);
    id
}

fn flatten(dir: &Dir, reg: &Registry, prefix: &mut Vec<u8>, out: &mut Vec<(EntryKind, ObjectId, Vec<u8>)>) -> bool {
    for (n, node) in dir {
        let l = push_comp(prefix, n);
        let ok = match node {
            Node::Dir(d) => flatten(d, reg, prefix, out),
            Node::Leaf(_, id) if id.is_null() => true,
            Node::Leaf(EntryKind::Tree, id) => {
                if *id == empty_tree() {
                    false
                } else {
                    match reg.by_id.get(id) {
                        Some(l) => flatten(&listing_to_dir(l), reg, prefix, out),
                        None => false,
                    }
                }
            }
            Node::Leaf(k, id) => {
                out.push((*k, *id, prefix.clone()));
                true
            }
        };
        prefix.truncate(l);
        if !ok {
            return false;
        }
    }
    true
}

/// all trees of a model state in post-order (children first) for `git mktree --batch`
fn post_order(dir: &Dir, out: &mut Vec<Listing>) -> Option<ObjectId> {
    let mut l: Listing = Vec::new();
    for (n, node) in dir {
        match node {
            Node::Leaf(_, id) if id.is_null() => {}
            Node::Leaf(k, id) => l.push((n.clone(), *k, *id)),
            Node::Dir(d) => {
                if let Some(id) = post_order(d, out) {
                    l.push((n.clone(), EntryKind::Tree, id));
                }
            }
        }
    }
    if l.is_empty() {
        return None;
    }
    let id = tree_id(&serialize(&l));
    out.push(l);
    Some(id)
}

/// The id git computes for the set of paths of `state`, building from scratch.
fn git_root_id(world: &FastWorld, state: &Dir, reg: &Registry, n: usize) -> Result<(String, &'static str), String> {
    let mut files = Vec::new();
    if flatten(state, reg, &mut Vec::new(), &mut files) {
        let idx = world.scratch.join(format!("index-{n}"));
        let git = world.git.clone().env("GIT_INDEX_FILE", idx.to_str().unwrap());
        let mut input = Vec::new();
        for (k, id, path) in &files {
            input.extend_from_slice(format!("{} {}\t", mode_str(*k), id.to_hex()).as_bytes());
            input.extend_from_slice(path);
            input.push(0);
        }
        if !files.is_empty() {
            git.run_in(["update-index", "-z", "--index-info"], Some(&input))?;
        }
        let out = git.run_str(["write-tree", "--missing-ok"])?;
        Ok((out, "git-index-oracle"))
    } else {
        let mut trees = Vec::new();
        let root = post_order(state, &mut trees);
        if root.is_none() {
            return Ok((empty_tree().to_hex().to_string(), "git-mktree-oracle"));
        }
        let mut input = Vec::new();
        for l in &trees {
            for (n, k, id) in l {
                let ty = match k {
                    EntryKind::Tree => "tree",
                    EntryKind::Commit => "commit",
                    _ => "blob",
                };
                input.extend_from_slice(format!("{} {} {}\t", mode_str(*k), ty, id.to_hex()).as_bytes());
                input.extend_from_slice(n);
                input.push(0);
            }
            input.push(0);
        }
        let out = world.git.run_in(["mktree", "-z", "--missing", "--batch"], Some(&input))?;
        let text = String::from_utf8_lossy(&out).to_string();
        let lines: Vec<&str> = text.lines().collect();
        if lines.len() != trees.len() {
            return Err(format!("mktree printed {} ids for {} trees", lines.len(), trees.len()));
        }
        for (l, line) in trees.iter().zip(&lines) {
            let ours = tree_id(&serialize(l)).to_hex().to_string();
            if ours != *line {
                return Err(format!("MODEL-BUG: harness tree id {ours} != git mktree {line} for {l:?}"));
            }
        }
        Ok((lines.last().unwrap().to_string(), "git-mktree-oracle"))
    }
}

/// Create the starting tree with git (`update-index --index-info`, `write-tree`); returns git's root id.
fn git_create_base(world: &FastWorld, base: &Dir) -> Result<String, String> {
    let mut files = Vec::new();
    let reg = Registry::default();
    if !flatten(base, &reg, &mut Vec::new(), &mut files) {
        return Err("harness: base tree not flat".into());
    }
    let idx = world.scratch.join("index-base");
    let git = world.git.clone().env("GIT_INDEX_FILE", idx.to_str().unwrap());
    let mut input = Vec::new();
    for (k, id, path) in &files {
        input.extend_from_slice(format!("{} {}\t", mode_str(*k), id.to_hex()).as_bytes());
        input.extend_from_slice(path);
        input.push(0);
    }
    git.run_in(["update-index", "-z", "--index-info"], Some(&input))?;
    git.run_str(["write-tree", "--missing-ok"])
}

fn blob_pool() -> Vec<ObjectId> {
    ["e69de29bb2d1d6434b8b29ae775ad8c2e48c5391", "bbbbbbbbbbbbbbbbbbbbbbbbbbbbbbbbbbbbbbbb", "0123456789abcdef0123456789abcdef01234567"]
        .iter()
        .map(|h| ObjectId::from_hex(h.as_bytes()).unwrap())
        .collect()
}

/// one case of the `editor-model` sub-check
fn case_editor_model(t: &mut Tape, c: &mut Case) {
        let pools = Pools {
            blobs: blob_pool(),
            allow_unknown_tree: true,
        };
        let flags = Flags::default();
        let base = if t.chance(128) {
            let dir = gen_base(t, &pools);
            let mut reg = Registry::default();
            let id = register_base(dir, &mut reg);
            Some((id, reg))
        } else {
            None
        };
        let store = MemStore::default();
        if let Some((_, reg)) = &base {
            base_to_store(reg, &store);
        }
        let h = gen_history(t, base, &pools, flags, 40);
        label_case(c, &h);
        c.sample_with(|| {
            let mut fin = Vec::new();
            show_dir(&h.reference.root, "", &mut fin);
            format!("{} => [{}]", show_ops(&h.base, &h.ops), fin.join(" "))
        });
        let log = RefCell::new(OutLog::default());
        let got = match drive_object_editor(&store, &store, h.base, &h.ops, &log) {
            Ok(g) => g,
            Err(e) => {
                c.infra(e);
                return;
            }
        };
        judge(c, &h, flags, &got, "gix_object::tree::Editor");
        if !c.failed() {
            if let Some(p) = log.borrow().problems.first() {
                c.fail(format!("{p}; history: {}", show_ops(&h.base, &h.ops)));
            }
        }
    }

/// Development aid (`C04_MINIMIZE=<signature> c04`): random search over short tapes for the smallest case with that
/// failure signature; prints its tape as hex. Not used by any registered command.
fn minimize(sig: &str) {
    let mut x: u64 = 0x9e3779b97f4a7c15;
    let mut next = move || {
        x ^= x << 13;
        x ^= x >> 7;
        x ^= x << 17;
        x
    };
    let mut best: Option<(usize, Vec<u8>, String)> = None;
    for len in 6..44usize {
        for _ in 0..400_000 {
            let tape: Vec<u8> = (0..len).map(|_| if next() % 3 == 0 { 0 } else { (next() >> 24) as u8 }).collect();
            let case = vp::runner::run_case(&case_editor_model, &tape, false);
            if let Verdict::Fail { sig: s, msg } = &case.verdict {
                let wanted = std::env::var("C04_MINIMIZE_NOT").map_or(true, |n| n.split(',').all(|n| !msg.contains(n)));
                if s == sig && wanted && best.as_ref().map_or(true, |b| msg.len() < b.0) {
                    best = Some((msg.len(), tape, msg.clone()));
                }
            }
        }
    }
    if let Some((_, tape, msg)) = best {
        println!("{}\n{}", hex(&tape), msg);
    }
}

/// A bare repository made by hand (HEAD, config, objects/, refs/): `git init` copies its template directory, which
/// dominates the cost of a case on a busy machine.
struct FastWorld {
    scratch: Scratch,
    git: Git,
}

impl FastWorld {
    fn new(tag: &str) -> Result<FastWorld, String> {
        let scratch = Scratch::new(tag).map_err(|e| format!("scratch: {e}"))?;
        let home = scratch.join("home");
        let repo = scratch.join("repo");
        let mk = |p: std::path::PathBuf| std::fs::create_dir_all(&p).map_err(|e| format!("mkdir {}: {e}", p.display()));
        mk(home.clone())?;
        mk(repo.join("objects").join("info"))?;
        mk(repo.join("objects").join("pack"))?;
        mk(repo.join("refs").join("heads"))?;
        mk(repo.join("refs").join("tags"))?;
        std::fs::write(repo.join("HEAD"), "ref: refs/heads/main\n").map_err(|e| e.to_string())?;
        std::fs::write(
            repo.join("config"),
            "[core]\n\trepositoryformatversion = 0\n\tfilemode = true\n\tbare = true\n",
        )
        .map_err(|e| e.to_string())?;
        let git = Git::new(&repo, &home);
        Ok(FastWorld { scratch, git })
    }
    fn repo(&self) -> std::path::PathBuf {
        self.git.dir.clone()
    }
    fn git_dir(&self) -> std::path::PathBuf {
        self.git.dir.clone()
    }
}

pub fn main() {
    if let Ok(sig) = std::env::var("C04_MINIMIZE") {
        minimize(&sig);
        return;
    }
    let mut ck = Check::new("C04", "exploration");
    ck.rule("Histories of 1..40 operations over paths of 1..4 components from {a, b, a-, a., a0, ab}: upsert(path, kind in 5, id from a small pool incl. null, empty tree, ids of trees of the start tree or written earlier, unknown tree ids), remove(path), write, cursor_at(path | root){1..4 edits; optional cursor write}, set_root(known tree | empty); start from an empty tree or a nested tree of 1..10 files; a final write is always appended. Non-trivial: the history contains a file->directory change, a directory with in-memory children replaced by a file, or edits after a write. Distinct by the hash of (start tree, operation list).");
    ck.assume(&format!("{}: `update-index --index-info` + `write-tree --missing-ok` (or `mktree --missing --batch` when tree entries given by id are present) computes the root id of a set of paths from scratch", Git::version()));
    ck.assume("reference-model rules: upsert makes every proper prefix a directory (a file on the way is replaced, a tree known by id is loaded, null/empty-tree ids load as empty) and replaces whatever is at the path; remove deletes the entry if the path leads to it; cursor_at(p) makes p a directory keeping an existing tree's content; at write null-id entries and directories without entries vanish, an explicitly upserted empty-tree entry that was never descended into stays; descending into an unknown tree id is an error after which the history ends. No-op walks (remove / cursor_at) through an explicit empty-tree entry are not generated (unspecified whether the entry survives).");

    // ---------------------------------------------------------------------------------------------------------
    ck.sub("editor-model", SubCfg::new(30_000, 1_000_000).max_len(1400).max_shrink(6000), case_editor_model);

    // ---------------------------------------------------------------------------------------------------------
    ck.sub("editor-git", SubCfg::new(240, 6_000).max_len(1400).max_shrink(20), |t, c| {
        let pools = Pools {
            blobs: blob_pool(),
            allow_unknown_tree: false,
        };
        let flags = Flags::default();
        let base_dir = if t.chance(170) { Some(gen_base(t, &pools)) } else { None };
        let world = infra!(c, FastWorld::new("c04"), "world");
        let base = match &base_dir {
            Some(dir) => {
                let git_id = infra!(c, git_create_base(&world, dir), "create start tree with git");
                let mut reg = Registry::default();
                let id = register_base(dir.clone(), &mut reg);
                if id.to_hex().to_string() != git_id {
                    c.infra(format!("MODEL-BUG: harness id {id} of the start tree differs from git write-tree {git_id}"));
                    return;
                }
                Some((id, reg))
            }
            None => None,
        };
        let h = gen_history(t, base, &pools, flags, 30);
        label_case(c, &h);
        c.sample_with(|| show_ops(&h.base, &h.ops));
        let odb = infra!(c, gix_odb::at(world.git_dir().join("objects")), "open odb");
        let overlay = Overlay {
            odb,
            mem: MemStore::default(),
        };
        let log = RefCell::new(OutLog::default());
        let got = match drive_object_editor(&overlay, &overlay.mem, h.base, &h.ops, &log) {
            Ok(g) => g,
            Err(e) => {
                c.infra(e);
                return;
            }
        };
        // git decides the expected ids of (up to 3) root writes, the last one always
        let picks: Vec<usize> = {
            let n = h.snapshots.len();
            let mut v: Vec<usize> = (0..n.min(2)).collect();
            if n > 0 && !v.contains(&(n - 1)) {
                v.push(n - 1);
            }
            v
        };
        for (k, si) in picks.iter().enumerate() {
            let (op_idx, state, model_id) = &h.snapshots[*si];
            let (git_id, oracle) = infra!(c, git_root_id(&world, state, &h.reference.reg, k), "git builds the tree from scratch");
            c.label(oracle);
            if git_id != model_id.to_hex().to_string() {
                c.infra(format!(
                    "MODEL-BUG: reference model id {model_id} != git {git_id} for the state after step {op_idx}; history {}",
                    show_ops(&h.base, &h.ops)
                ));
                return;
            }
        }
        judge(c, &h, flags, &got, "gix_object::tree::Editor over a git-created ODB");
        if !c.failed() {
            if let Some(p) = log.borrow().problems.first() {
                c.fail(format!("{p}; history: {}", show_ops(&h.base, &h.ops)));
            }
        }
    });

    // ---------------------------------------------------------------------------------------------------------
    ck.sub("gix-wrapper", SubCfg::new(160, 4_000).max_len(1400).max_shrink(20), |t, c| {
        let flags = Flags {
            root_write_is_cursor_write: true,
            ..Default::default()
        };
        let world = infra!(c, FastWorld::new("c04w"), "world");
        let repo = infra!(c, gix::open_opts(world.repo(), gix::open::Options::isolated()), "open repository");
        // all non-tree ids must exist
        let mut blobs = Vec::new();
        for content in ["", "one\n", "two\n"] {
            blobs.push(infra!(c, repo.write_blob(content), "write blob").detach());
        }
        let pools = Pools {
            blobs,
            allow_unknown_tree: false,
        };
        let base_dir = if t.chance(170) { Some(gen_base(t, &pools)) } else { None };
        let base = match &base_dir {
            Some(dir) => {
                let git_id = infra!(c, git_create_base(&world, dir), "create start tree with git");
                let mut reg = Registry::default();
                let id = register_base(dir.clone(), &mut reg);
                if id.to_hex().to_string() != git_id {
                    c.infra(format!("MODEL-BUG: harness id {id} of the start tree differs from git write-tree {git_id}"));
                    return;
                }
                Some((id, reg))
            }
            None => None,
        };
        let h = gen_history(t, base, &pools, flags, 30);
        label_case(c, &h);
        c.sample_with(|| show_ops(&h.base, &h.ops));
        let got = match drive_gix_editor(&repo, h.base, &h.ops) {
            Ok(g) => g,
            Err(e) => {
                // the wrapper refuses e.g. missing objects; with this generator every object exists
                c.fail(format!("gix tree editor failed: {e}; history: {}", show_ops(&h.base, &h.ops)));
                return;
            }
        };
        // the final tree must be readable by git and list exactly the model's files
        if let (Some((_, state, model_id)), Some(Some(Outcome::Id(got_id)))) =
            (h.snapshots.last(), got.last().map(|o| o.first().cloned()))
        {
            if got_id == *model_id {
                let mut files = Vec::new();
                if flatten(state, &h.reference.reg, &mut Vec::new(), &mut files) {
                    let out = infra!(
                        c,
                        world.git.run(["ls-tree", "-r", "-z", &got_id.to_hex().to_string()]),
                        "git ls-tree of the written tree"
                    );
                    let mut listed: Vec<Vec<u8>> = out.split(|b| *b == 0).filter(|l| !l.is_empty()).map(|l| l.to_vec()).collect();
                    listed.sort();
                    let mut want: Vec<Vec<u8>> = files
                        .iter()
                        .map(|(k, id, p)| {
                            let ty = if *k == EntryKind::Commit { "commit" } else { "blob" };
                            let mut v = format!("{:0>6} {} {}\t", mode_str(*k), ty, id.to_hex()).into_bytes();
                            v.extend_from_slice(p);
                            v
                        })
                        .collect();
                    want.sort();
                    ensure!(
                        c,
                        listed == want,
                        "git ls-tree -r of the written root lists {:?}, the model has {:?}",
                        listed.iter().map(|l| show(l)).collect::<Vec<_>>(),
                        want.iter().map(|l| show(l)).collect::<Vec<_>>()
                    );
                    c.label("git-ls-tree-confirms");
                }
            }
        }
        judge(c, &h, flags, &got, "gix::object::tree::Editor");
    });

    let _ = (Entry {
        mode: EntryKind::Blob.into(),
        filename: BString::default(),
        oid: null(),
    },);
    let _ = TreeRef::empty();
    ck.finish();
}
