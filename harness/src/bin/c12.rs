//! C12 — object lookups stay correct while the object directory is repacked.
//!
//! One case = one world: a repository of 100..400 reachable objects (commits, nested trees, similar blobs so that
//! packs contain deltas, a tag) in a generated initial layout (loose / packs / multi-pack index), K reader threads,
//! each with its own `gix_odb::Handle` onto ONE shared `Store` (generated slot count, refresh mode, stable pack
//! ids, pack/object caches, multi-pack-index use), and a mutator that runs a generated history of git's own
//! maintenance commands (`repack -d`, `repack -a -d`, `repack -A -d`, `--write-midx`, `--geometric`,
//! `prune-packed`, `multi-pack-index write/repack/expire`, `gc`, new commits as loose objects or as a pack)
//! concurrently with the readers. Schedules are SAMPLED: real OS threads plus generated perturbation
//! (spin/yield/sleep before every reader operation, generated coupling of mutator steps to reader progress).
//!
//! Sub-checks: `repack` (threads), `sequential` and `slot-reuse` (one script interpreter, two generators; the second is
//! built to reach slot reuse in the store with packs of identical layout).
//!
//! Oracle: (safety, self-certifying) whatever `try_find` returns for id X hashes to X (SHA-1 computed by the
//! harness), `try_header` agrees with the truth table from `git cat-file --batch-check`, `lookup_prefix` never
//! returns an id without that prefix or outside the repository, pack locations handed out to handles with stable
//! pack ids keep denoting the same bytes; (completeness) with automatic refresh every object that exists since
//! before the lookup started (all initial objects - git maintenance never drops reachable objects - and new
//! objects once git has finished creating them) is found by every kind of lookup; with `RefreshMode::Never` a
//! miss is legal, a wrong answer is not; ids that are not in the repository are never found; no panic.
use std::collections::{BTreeMap, BTreeSet, HashMap};
use std::io::Read as _;
use std::path::{Path, PathBuf};
use std::sync::atomic::{AtomicBool, AtomicU64, AtomicUsize, Ordering};
use std::sync::{Mutex, RwLock};
use std::time::{Duration, Instant};

use gix_hash::ObjectId;
use gix_object::{Exists, FindHeader};
use gix_odb::store::init::{Options, Slots};
use gix_pack::Find as PackFind;
use vp::*;

// ------------------------------------------------------------------------------------------------------------
// decoded case

#[derive(Debug, Clone, Hash, PartialEq, Eq)]
enum Step {
    RepackIncremental { midx: bool },
    RepackAll { loosen_unreachable: bool, midx: bool },
    Geometric { midx: bool },
    PrunePacked,
    MidxWrite,
    MidxRepackExpire,
    Gc,
    NewCommits { count: u8, as_pack: bool },
    /// a new history that is isomorphic to the initial one of an `iso` world (same paths, same object sizes, other
    /// content), stored in a pack of its own which is written without compression: its layout equals the layout of
    /// the initial pack, offset by offset
    NewIsoHistory { salt: u8, commits: u8 },
}

impl Step {
    /// does the step remove files that lookups may be using?
    fn destructive(&self) -> bool {
        !matches!(self, Step::MidxWrite | Step::NewCommits { .. } | Step::NewIsoHistory { .. })
    }
    /// upper bound of the number of index files (pack indices, multi-pack indices) the step creates
    fn index_creations(&self) -> usize {
        match self {
            Step::RepackIncremental { midx } | Step::Geometric { midx } | Step::RepackAll { midx, .. } => 1 + *midx as usize,
            Step::PrunePacked => 0,
            Step::MidxWrite => 1,
            Step::MidxRepackExpire => 2,
            Step::Gc => 2,
            Step::NewCommits { as_pack, .. } => *as_pack as usize,
            Step::NewIsoHistory { .. } => 1,
        }
    }
    fn name(&self) -> String {
        match self {
            Step::RepackIncremental { midx } => format!("repack -d{}", if *midx { " --write-midx" } else { "" }),
            Step::RepackAll { loosen_unreachable, midx } => format!(
                "repack -{} -d{}",
                if *loosen_unreachable { "A" } else { "a" },
                if *midx { " --write-midx" } else { "" }
            ),
            Step::Geometric { midx } => format!("repack --geometric=2 -d{}", if *midx { " --write-midx" } else { "" }),
            Step::PrunePacked => "prune-packed".into(),
            Step::MidxWrite => "multi-pack-index write".into(),
            Step::MidxRepackExpire => "multi-pack-index repack+expire".into(),
            Step::Gc => "gc".into(),
            Step::NewCommits { count, as_pack } => format!("{count} new commits as {}", if *as_pack { "pack" } else { "loose objects" }),
            Step::NewIsoHistory { salt, commits } => format!("isomorphic history #{salt} of {commits} commits as uncompressed pack"),
        }
    }
}

#[derive(Debug, Clone, Hash)]
struct ReaderSpec {
    auto_refresh: bool,
    stable_pack_ids: bool,
    /// 0 none, 1 static LRU, 2 memory capped hashmap
    pack_cache: u8,
    object_cache: bool,
    seed: u64,
    /// weights of: find, header, contains, prefix, iter, clone-and-use, location, location-verify, metrics
    mix: [u8; 9],
    /// 0 none, 1 yield, 2 spin, 3 sleep, 4 mixed
    perturb: u8,
    /// out of 256: how often an id that is not in the repository is asked for
    absent: u8,
    /// not generated: set by the script interpreter to direct one operation at one object (sweeps over all objects)
    force: Option<u32>,
}

#[derive(Debug, Clone, Hash)]
struct WorldSpec {
    commits_a: u8,
    commits_b: u8,
    files: u8,
    a_as_pack: bool,
    b_as_pack: bool,
    pre_a: Vec<Step>,
    pre_b: Vec<Step>,
    steps: Vec<(Step, u16)>,
    slots: u16,
    use_midx: bool,
    readers: Vec<ReaderSpec>,
    /// the initial world is ONE history of `commits_a` commits in ONE pack written without compression (see
    /// `Step::NewIsoHistory`); `commits_b` and the pre-steps are not used
    iso: bool,
}

fn gen_step(t: &mut Tape) -> Step {
    match t.weighted(&[5, 5, 2, 3, 3, 1, 2, 5]) {
        0 => Step::RepackIncremental { midx: t.chance(80) },
        1 => Step::RepackAll {
            loosen_unreachable: t.chance(64),
            midx: t.chance(80),
        },
        2 => Step::Geometric { midx: t.chance(100) },
        3 => Step::PrunePacked,
        4 => Step::MidxWrite,
        5 => Step::MidxRepackExpire,
        6 => Step::Gc,
        _ => Step::NewCommits {
            count: t.range(1, 6) as u8,
            as_pack: t.bool(),
        },
    }
}

fn gen_world(t: &mut Tape) -> WorldSpec {
    let nreaders = t.range(1, 6);
    let mut readers = Vec::new();
    for _ in 0..nreaders {
        let mut mix = [0u8; 9];
        // find, header, contains, prefix, iter, clone, location, location-verify, metrics
        let base = [10u8, 5, 5, 3, 1, 2, 3, 3, 1];
        for (m, b) in mix.iter_mut().zip(base) {
            *m = b + (t.u8() >> 5);
        }
        readers.push(ReaderSpec {
            auto_refresh: !t.chance(56),
            stable_pack_ids: t.chance(96),
            pack_cache: t.weighted(&[3, 3, 2]) as u8,
            object_cache: t.chance(48),
            seed: t.u64() | 1,
            mix,
            perturb: t.below(5) as u8,
            absent: [8u8, 32, 64, 128][t.below(4)],
            force: None,
        });
    }
    let nsteps = t.range(4, 12);
    let mut steps = Vec::new();
    for _ in 0..nsteps {
        let s = gen_step(t);
        // how many reader operations (all readers together) must have happened before the next step starts
        let gap = [0u16, 50, 300, 1500][t.below(4)];
        steps.push((s, gap));
    }
    let pre = |t: &mut Tape| -> Vec<Step> {
        let n = t.weighted(&[3, 3, 2]);
        (0..n)
            .map(|_| loop {
                let s = gen_step(t);
                if !matches!(s, Step::NewCommits { .. }) {
                    break s;
                }
            })
            .collect()
    };
    WorldSpec {
        commits_a: t.range(10, 40) as u8,
        commits_b: t.range(5, 30) as u8,
        files: t.range(3, 7) as u8,
        a_as_pack: t.bool(),
        b_as_pack: t.bool(),
        pre_a: pre(t),
        pre_b: pre(t),
        steps,
        slots: [6u16, 8, 12, 32][t.weighted(&[2, 2, 3, 3])],
        use_midx: !t.chance(64),
        readers,
        iso: false,
    }
}

// ------------------------------------------------------------------------------------------------------------
// world construction and the mutator

#[derive(Debug, Clone)]
struct Obj {
    id: ObjectId,
    hex: String,
    kind: gix_object::Kind,
    size: u64,
    /// loose at the time it became known to the readers (so it may be deleted by prune-packed later)
    was_loose: bool,
}

fn kind_of(s: &str) -> Option<gix_object::Kind> {
    Some(match s {
        "commit" => gix_object::Kind::Commit,
        "tree" => gix_object::Kind::Tree,
        "blob" => gix_object::Kind::Blob,
        "tag" => gix_object::Kind::Tag,
        _ => return None,
    })
}

fn kind_name(k: gix_object::Kind) -> &'static str {
    match k {
        gix_object::Kind::Commit => "commit",
        gix_object::Kind::Tree => "tree",
        gix_object::Kind::Blob => "blob",
        gix_object::Kind::Tag => "tag",
    }
}

fn blob_content(file: usize, version: usize) -> String {
    blob_content_salted(file, version, 0)
}

/// words of equal length: histories that differ only in the salt have objects of pairwise equal sizes
const ISO_WORDS: [&str; 8] = ["stays", "holds", "keeps", "rests", "lives", "abide", "dwell", "reads"];

fn blob_content_salted(file: usize, version: usize, salt: usize) -> String {
    // ~600 bytes, mostly shared between versions of the same file so that git stores deltas
    let word = ISO_WORDS[salt % ISO_WORDS.len()];
    let mut s = String::new();
    for line in 0..24 {
        if line == version % 24 {
            s.push_str(&format!("line {line} of file {file} changed in version {version}\n"));
        } else {
            s.push_str(&format!("line {line} of file {file} {word} the same\n"));
        }
    }
    s
}

/// fast-import stream adding `count` commits (numbered from `first`) to refs/heads/<branch>
fn commits_stream(branch: &str, first: usize, count: usize, files: usize, from: Option<&str>, tag: bool) -> Vec<u8> {
    commits_stream_salted(branch, first, count, files, from, tag, 0)
}

fn commits_stream_salted(branch: &str, first: usize, count: usize, files: usize, from: Option<&str>, tag: bool, salt: usize) -> Vec<u8> {
    let mut s = String::new();
    for k in 0..count {
        let i = first + k;
        s.push_str(&format!("commit refs/heads/{branch}\nmark :{}\n", i + 1));
        s.push_str(&format!("committer C O Mitter <committer@example.com> {} +0000\n", 1_112_911_993 + i * 60));
        let msg = format!("commit {i}\n");
        s.push_str(&format!("data {}\n{}", msg.len(), msg));
        if k == 0 {
            if let Some(f) = from {
                s.push_str(&format!("from {f}\n"));
            }
        }
        for j in 0..1 + i % 2 {
            let f = (i * 7 + j * 3) % files;
            let content = blob_content_salted(f, i, salt);
            s.push_str(&format!("M 100644 inline d{}/s{}/f{f}\ndata {}\n{}\n", f % 3, f % 2, content.len(), content));
        }
        s.push('\n');
    }
    if tag && count > 0 {
        let msg = "an annotated tag\n";
        s.push_str(&format!(
            "tag v{first}\nfrom :{}\ntagger T A Gger <tagger@example.com> 1112911993 +0000\ndata {}\n{}\n",
            first + count,
            msg.len(),
            msg
        ));
    }
    s.into_bytes()
}

fn run_step(git: &Git, step: &Step) -> Result<(), String> {
    let run = |args: &[&str]| -> Result<(), String> { git.run(args.iter().copied()).map(|_| ()) };
    match step {
        Step::RepackIncremental { midx } => {
            if *midx {
                run(&["repack", "-d", "-q", "--write-midx"])
            } else {
                run(&["repack", "-d", "-q"])
            }
        }
        Step::RepackAll { loosen_unreachable, midx } => {
            let mut a = vec!["repack", if *loosen_unreachable { "-A" } else { "-a" }, "-d", "-q"];
            if *midx {
                a.push("--write-midx");
            }
            run(&a)
        }
        Step::Geometric { midx } => {
            let mut a = vec!["repack", "--geometric=2", "-d", "-q"];
            if *midx {
                a.push("--write-midx");
            }
            run(&a)
        }
        Step::PrunePacked => run(&["prune-packed", "-q"]),
        Step::MidxWrite => {
            // fails harmlessly when there is no pack at all
            let _ = git.try_run(["multi-pack-index", "write"], None)?;
            Ok(())
        }
        Step::MidxRepackExpire => {
            // both need an existing multi-pack index; without one they fail harmlessly
            let _ = git.try_run(["multi-pack-index", "repack", "--batch-size=0"], None)?;
            let _ = git.try_run(["multi-pack-index", "expire"], None)?;
            Ok(())
        }
        Step::Gc => run(&["gc", "-q"]),
        Step::NewCommits { .. } | Step::NewIsoHistory { .. } => Err("new histories are handled by the caller".into()),
    }
}

/// `git cat-file --batch-check --batch-all-objects` (or for the given ids) -> truth table
fn batch_check(git: &Git, ids: Option<&[String]>) -> Result<Vec<(ObjectId, String, gix_object::Kind, u64)>, String> {
    let out = match ids {
        None => git.run(["cat-file", "--batch-check", "--batch-all-objects", "--unordered"])?,
        Some(ids) => {
            let stdin: Vec<u8> = ids.iter().flat_map(|i| format!("{i}\n").into_bytes()).collect();
            git.run_in(["cat-file", "--batch-check"], Some(&stdin))?
        }
    };
    let mut v = Vec::new();
    for l in String::from_utf8_lossy(&out).lines() {
        let p: Vec<&str> = l.split(' ').collect();
        if p.len() != 3 {
            return Err(format!("unexpected batch-check line {l:?}"));
        }
        let id = ObjectId::from_hex(p[0].as_bytes()).map_err(|e| e.to_string())?;
        let kind = kind_of(p[1]).ok_or_else(|| format!("kind in {l:?}"))?;
        let size = p[2].parse::<u64>().map_err(|e| e.to_string())?;
        v.push((id, p[0].to_string(), kind, size));
    }
    Ok(v)
}

fn loose_ids(objects: &Path) -> BTreeSet<String> {
    let mut s = BTreeSet::new();
    if let Ok(rd) = std::fs::read_dir(objects) {
        for e in rd.flatten() {
            let name = e.file_name().to_string_lossy().to_string();
            if name.len() == 2 && name.chars().all(|c| c.is_ascii_hexdigit()) {
                if let Ok(rd2) = std::fs::read_dir(e.path()) {
                    for f in rd2.flatten() {
                        let n = f.file_name().to_string_lossy().to_string();
                        if n.len() == 38 {
                            s.insert(format!("{name}{n}"));
                        }
                    }
                }
            }
        }
    }
    s
}

// ------------------------------------------------------------------------------------------------------------
// panic capture for reader threads (the engine's capture is thread-local to the case thread)

static THREAD_PANICS: Mutex<Vec<(std::thread::ThreadId, String, String)>> = Mutex::new(Vec::new());

fn install_thread_panic_recorder() {
    let prev = std::panic::take_hook();
    std::panic::set_hook(Box::new(move |info| {
        let loc = info
            .location()
            .map(|l| {
                let f = l.file();
                let f = match f.find("/gix") {
                    Some(i) if !f.contains("/.cargo/") => &f[i + 1..],
                    _ => f,
                };
                format!("{}:{}", f, l.line())
            })
            .unwrap_or_else(|| "unknown".into());
        let msg = if let Some(s) = info.payload().downcast_ref::<&str>() {
            s.to_string()
        } else if let Some(s) = info.payload().downcast_ref::<String>() {
            s.clone()
        } else {
            "non-string panic".to_string()
        };
        if let Ok(mut g) = THREAD_PANICS.lock() {
            g.push((std::thread::current().id(), loc, msg));
        }
        prev(info);
    }));
}

// ------------------------------------------------------------------------------------------------------------
// readers

struct Rng(u64);
impl Rng {
    fn next(&mut self) -> u64 {
        // splitmix64: a pure function of the tape-provided seed
        self.0 = self.0.wrapping_add(0x9e37_79b9_7f4a_7c15);
        let mut z = self.0;
        z = (z ^ (z >> 30)).wrapping_mul(0xbf58_476d_1ce4_e5b9);
        z = (z ^ (z >> 27)).wrapping_mul(0x94d0_49bb_1331_11eb);
        z ^ (z >> 31)
    }
    fn below(&mut self, n: usize) -> usize {
        if n == 0 {
            0
        } else {
            (self.next() % n as u64) as usize
        }
    }
}

struct Shared {
    always: Vec<Obj>,
    by_id: RwLock<HashMap<ObjectId, usize>>,
    /// objects created while the readers run, visible to them only after git has finished creating them
    published: RwLock<Vec<Obj>>,
    done: AtomicBool,
    total_ops: AtomicU64,
    /// 0 = no step running, otherwise 1 + step index; bit 16 set when the step is destructive
    phase: AtomicUsize,
}

#[derive(Default)]
struct ReaderOut {
    ops: u64,
    found: u64,
    legal_misses: u64,
    ops_during_destructive: u64,
    transient_errors: Vec<String>,
    insufficient_slots: u64,
    violations: Vec<(String, String)>,
    /// (prefix hex, result) for post-hoc checks against the final set of objects
    prefix_results: Vec<(String, ObjectId, Option<Result<ObjectId, ()>>, bool)>,
    iter_ids: Vec<ObjectId>,
    distinct_pack_ids: BTreeMap<usize, BTreeSet<u32>>,
    locations_verified: u64,
    panic: Option<(String, String)>,
    /// wrong content that is explained by the handle's pack cache alone (see `wrong_content`): counted, the first one
    /// described; the case is reported under the signature of that cause once nothing else is wrong with it
    stale_pack_cache: u64,
    stale_pack_cache_note: Option<String>,
}

#[derive(PartialEq)]
enum ErrClass {
    NotFoundIo,
    InsufficientSlots,
    Other,
}

fn classify(err: &(dyn std::error::Error + 'static)) -> ErrClass {
    let mut cur: Option<&(dyn std::error::Error + 'static)> = Some(err);
    while let Some(e) = cur {
        if let Some(io) = e.downcast_ref::<std::io::Error>() {
            if io.kind() == std::io::ErrorKind::NotFound {
                return ErrClass::NotFoundIo;
            }
        }
        if e.to_string().contains("slotmap turned out to be too small") {
            return ErrClass::InsufficientSlots;
        }
        cur = e.source();
    }
    ErrClass::Other
}

fn err_chain(err: &(dyn std::error::Error + 'static)) -> String {
    let mut s = err.to_string();
    let mut cur = err.source();
    while let Some(e) = cur {
        s.push_str(" <- ");
        s.push_str(&e.to_string());
        cur = e.source();
    }
    s
}

fn push_bounded(v: &mut Vec<String>, s: String) {
    if v.len() < 50 {
        v.push(s);
    }
}

fn perturb(spec: &ReaderSpec, rng: &mut Rng) {
    let mode = if spec.perturb == 4 { rng.below(4) as u8 } else { spec.perturb };
    match mode {
        1 => std::thread::yield_now(),
        2 => {
            let n = rng.below(3000);
            for i in 0..n {
                std::hint::black_box(i);
            }
        }
        3 => {
            if rng.below(8) == 0 {
                std::thread::sleep(Duration::from_micros(rng.below(300) as u64));
            }
        }
        _ => {}
    }
}

/// A lookup on an auto-refreshing handle did not find an object that exists. Classify the miss so that different
/// causes get different signatures: ask the SAME handle again (a transient race heals), then a FRESH handle of the same
/// store (if only that one sees the object, the first handle is persistently stale although it may refresh).
fn classify_miss(h: &OdbHandle, o: &Obj, op: &str) -> (String, String) {
    let where_was = if o.was_loose { "was-loose" } else { "packed" };
    let again = FindHeader::try_header(h, &o.id);
    match &again {
        Err(e) if classify(e.as_ref()) == ErrClass::InsufficientSlots => return ("insufficient-slots".into(), String::new()),
        _ => {}
    }
    let same_handle_finds = matches!(again, Ok(Some(_)));
    let fresh = h.clone();
    let fresh_result = FindHeader::try_header(&fresh, &o.id);
    if let Err(e) = &fresh_result {
        if classify(e.as_ref()) == ErrClass::InsufficientSlots {
            return ("insufficient-slots".into(), String::new());
        }
    }
    let fresh_finds = matches!(fresh_result, Ok(Some(_)));
    let sig = if same_handle_finds {
        format!("miss:{op}:{where_was}")
    } else if fresh_finds {
        format!("stale-handle-miss:{op}")
    } else {
        format!("store-miss:{op}:{where_was}")
    };
    let note = format!(
        "asking the same handle again (try_header): {}; a fresh handle of the same store: {}",
        if same_handle_finds { "found" } else { "still not found" },
        if fresh_finds { "found" } else { "not found" }
    );
    (sig, note)
}

type OdbHandle = gix_odb::Handle;

/// `try_find` handed out bytes that are not the requested object. If the handle has a pack cache and the very same
/// handle returns the right bytes once the caches of the `gix_odb::Cache` wrapper are bypassed (the store handle
/// beneath, asked with `gix_pack::cache::Never`), the cause is the pack cache: it is keyed by (pack id, offset), pack ids
/// denote slots of the store, and the entries of a pack that used to live in a slot survive the slot being handed to
/// another pack. That is one root cause with its own signature; everything else stays `wrong-content`.
fn wrong_content(h: &OdbHandle, spec: &ReaderSpec, o: &Obj, out: &mut ReaderOut, msg: String) {
    if spec.pack_cache != 0 {
        let mut buf = Vec::new();
        let uncached = PackFind::try_find_cached(&**h, &o.id, &mut buf, &mut gix_pack::cache::Never);
        if let Ok(Some((data, _))) = uncached {
            if data.kind == o.kind && object_sha1(kind_name(data.kind), data.data) == o.hex {
                out.stale_pack_cache += 1;
                if out.stale_pack_cache_note.is_none() {
                    out.stale_pack_cache_note = Some(format!("{msg}; the same handle returns the right bytes when its pack cache is bypassed"));
                }
                return;
            }
        }
    }
    out.violations.push(("wrong-content".into(), msg));
}

struct StoredLocation {
    obj: usize,
    location: gix_pack::data::entry::Location,
    decompressed: Vec<u8>,
}

/// One lookup-style operation on `h`; pushes violations into `out`.
#[allow(clippy::too_many_arguments)]
fn one_op(
    h: &OdbHandle,
    auto_refresh: bool,
    stable: bool,
    op: usize,
    shared: &Shared,
    rng: &mut Rng,
    spec: &ReaderSpec,
    out: &mut ReaderOut,
    buf: &mut Vec<u8>,
    locations: &mut Vec<StoredLocation>,
) {
    // choose the id
    enum Target {
        Known(Obj, usize),
        Absent(ObjectId),
    }
    let target = if let Some(k) = spec.force {
        let k = k as usize;
        if k < shared.always.len() {
            Target::Known(shared.always[k].clone(), k)
        } else {
            match shared.published.read().unwrap().get(k - shared.always.len()) {
                Some(o) => Target::Known(o.clone(), k),
                None => return,
            }
        }
    } else if (rng.below(256) as u8) < spec.absent {
        let id = if rng.below(2) == 0 {
            let mut b = [0u8; 20];
            for c in b.chunks_mut(8) {
                let v = rng.next().to_le_bytes();
                c.copy_from_slice(&v[..c.len()]);
            }
            ObjectId::from_bytes_or_panic(&b)
        } else {
            // a neighbour of a real id
            let o = &shared.always[rng.below(shared.always.len())];
            let mut b = o.id.as_bytes().to_vec();
            b[19] ^= 1;
            ObjectId::from_bytes_or_panic(&b)
        };
        if shared.by_id.read().unwrap().contains_key(&id) {
            return;
        }
        Target::Absent(id)
    } else {
        let published = shared.published.read().unwrap();
        if !published.is_empty() && rng.below(5) == 0 {
            let k = rng.below(published.len());
            Target::Known(published[k].clone(), shared.always.len() + k)
        } else {
            let k = rng.below(shared.always.len());
            Target::Known(shared.always[k].clone(), k)
        }
    };
    let mode = if auto_refresh { "auto-refresh" } else { "refresh-never" };
    match op {
        // ---- try_find
        0 => match &target {
            Target::Known(o, idx) => {
                let mut attempt = 0;
                loop {
                    attempt += 1;
                    match PackFind::try_find(h, &o.id, buf) {
                        Ok(Some((data, location))) => {
                            let got = object_sha1(kind_name(data.kind), data.data);
                            let wrong = (got != o.hex || data.kind != o.kind).then(|| {
                                format!(
                                    "try_find({}) [{mode}] returned a {} of {} bytes hashing to {got} (location {:?}); expected a {} of {} bytes",
                                    o.hex,
                                    kind_name(data.kind),
                                    data.data.len(),
                                    location,
                                    kind_name(o.kind),
                                    o.size
                                )
                            });
                            if let Some(msg) = wrong {
                                wrong_content(h, spec, o, out, msg);
                            }
                            if let Some(l) = location {
                                out.distinct_pack_ids.entry(*idx).or_default().insert(l.pack_id);
                            }
                            out.found += 1;
                        }
                        Ok(None) => {
                            if auto_refresh {
                                let (sig, note) = classify_miss(h, o, "try_find");
                                if sig == "insufficient-slots" {
                                    out.insufficient_slots += 1;
                                } else {
                                    out.violations.push((
                                        sig,
                                        format!("try_find({}) [{mode}] = None, but the {} exists since before the lookup started ({note})", o.hex, kind_name(o.kind)),
                                    ));
                                }
                            } else {
                                out.legal_misses += 1;
                            }
                        }
                        Err(e) => {
                            let class = classify(e.as_ref());
                            let text = err_chain(e.as_ref());
                            if class == ErrClass::InsufficientSlots {
                                out.insufficient_slots += 1;
                            } else if class == ErrClass::NotFoundIo && attempt == 1 {
                                // a file the mutator has just deleted: re-query once, counts only if that fails too
                                push_bounded(&mut out.transient_errors, format!("try_find({}): {text}", o.hex));
                                continue;
                            } else if auto_refresh || class == ErrClass::Other {
                                out.violations.push((
                                    format!("error:try_find:{}", if class == ErrClass::NotFoundIo { "not-found-twice" } else { "other" }),
                                    format!("try_find({}) [{mode}] failed (attempt {attempt}): {text}", o.hex),
                                ));
                            } else {
                                out.legal_misses += 1;
                            }
                        }
                    }
                    break;
                }
            }
            Target::Absent(id) => match PackFind::try_find(h, id, buf) {
                Ok(None) => {}
                Ok(Some((d, _))) => out.violations.push((
                    "phantom".into(),
                    format!("try_find({id}) found a {} of {} bytes but the id is not in the repository", kind_name(d.kind), d.data.len()),
                )),
                Err(e) => {
                    let class = classify(e.as_ref());
                    if class == ErrClass::InsufficientSlots {
                        out.insufficient_slots += 1;
                    } else if class == ErrClass::NotFoundIo {
                        push_bounded(&mut out.transient_errors, format!("try_find(absent {id}): {}", err_chain(e.as_ref())));
                    } else {
                        out.violations.push(("error:try_find:other".into(), format!("try_find(absent {id}) failed: {}", err_chain(e.as_ref()))));
                    }
                }
            },
        },
        // ---- try_header
        1 => match &target {
            Target::Known(o, _) => {
                let mut attempt = 0;
                loop {
                    attempt += 1;
                    match FindHeader::try_header(h, &o.id) {
                        Ok(Some(hdr)) => {
                            if hdr.kind != o.kind || hdr.size != o.size {
                                out.violations.push((
                                    "wrong-header".into(),
                                    format!("try_header({}) [{mode}] = {:?} {} but the object is a {} of {} bytes", o.hex, hdr.kind, hdr.size, kind_name(o.kind), o.size),
                                ));
                            }
                            out.found += 1;
                        }
                        Ok(None) => {
                            if auto_refresh {
                                let (sig, note) = classify_miss(h, o, "try_header");
                                if sig == "insufficient-slots" {
                                    out.insufficient_slots += 1;
                                } else {
                                    out.violations.push((
                                        sig,
                                        format!("try_header({}) [{mode}] = None, but the object exists since before the lookup started ({note})", o.hex),
                                    ));
                                }
                            } else {
                                out.legal_misses += 1;
                            }
                        }
                        Err(e) => {
                            let class = classify(e.as_ref());
                            let text = err_chain(e.as_ref());
                            if class == ErrClass::InsufficientSlots {
                                out.insufficient_slots += 1;
                            } else if class == ErrClass::NotFoundIo && attempt == 1 {
                                push_bounded(&mut out.transient_errors, format!("try_header({}): {text}", o.hex));
                                continue;
                            } else if auto_refresh || class == ErrClass::Other {
                                out.violations.push((
                                    format!("error:try_header:{}", if class == ErrClass::NotFoundIo { "not-found-twice" } else { "other" }),
                                    format!("try_header({}) [{mode}] failed (attempt {attempt}): {text}", o.hex),
                                ));
                            } else {
                                out.legal_misses += 1;
                            }
                        }
                    }
                    break;
                }
            }
            Target::Absent(id) => {
                if let Ok(Some(hdr)) = FindHeader::try_header(h, id) {
                    out.violations.push(("phantom".into(), format!("try_header({id}) = {hdr:?} but the id is not in the repository")));
                }
            }
        },
        // ---- contains
        2 => match &target {
            Target::Known(o, _) => {
                if h.exists(&o.id) {
                    out.found += 1;
                } else if auto_refresh {
                    // `contains` cannot report errors: the classification asks the fallible header lookup
                    let (sig, note) = classify_miss(h, o, "contains");
                    if sig == "insufficient-slots" {
                        out.insufficient_slots += 1;
                    } else {
                        out.violations.push((
                            sig,
                            format!("contains({}) [{mode}] = false, but the object exists since before the lookup started ({note})", o.hex),
                        ));
                    }
                } else {
                    out.legal_misses += 1;
                }
            }
            Target::Absent(id) => {
                if h.exists(id) {
                    out.violations.push(("phantom".into(), format!("contains({id}) = true but the id is not in the repository")));
                }
            }
        },
        // ---- lookup_prefix
        3 => {
            let (id, known) = match &target {
                Target::Known(o, _) => (o.id, true),
                Target::Absent(id) => (*id, false),
            };
            let hex_len = if rng.below(4) == 0 { 4 + rng.below(4) } else { 12 + rng.below(29) };
            let Ok(prefix) = gix_hash::Prefix::new(&id, hex_len) else { return };
            match h.lookup_prefix(prefix, None) {
                Ok(None) if known && auto_refresh => {
                    if let Target::Known(o, _) = &target {
                        let (sig, note) = classify_miss(h, o, "lookup_prefix");
                        if sig == "insufficient-slots" {
                            out.insufficient_slots += 1;
                        } else {
                            out.violations.push((
                                sig,
                                format!("lookup_prefix({}) [{mode}] = None, but {} exists since before the lookup started ({note})", id.to_hex_with_len(hex_len), o.hex),
                            ));
                        }
                    }
                }
                Ok(res) => {
                    if out.prefix_results.len() < 20_000 {
                        out.prefix_results.push((id.to_hex_with_len(hex_len).to_string(), id, res, known && auto_refresh));
                    }
                    if res.is_some() {
                        out.found += 1;
                    }
                }
                Err(e) => {
                    let class = classify(&e);
                    if class == ErrClass::InsufficientSlots {
                        out.insufficient_slots += 1;
                    } else if class == ErrClass::NotFoundIo {
                        push_bounded(&mut out.transient_errors, format!("lookup_prefix({}): {}", id.to_hex_with_len(hex_len), err_chain(&e)));
                    } else {
                        out.violations.push(("error:lookup_prefix:other".into(), format!("lookup_prefix({}) failed: {}", id.to_hex_with_len(hex_len), err_chain(&e))));
                    }
                }
            }
        }
        // ---- iterate all objects (only membership of what is yielded is judged, after the run)
        4 => {
            if let Ok(iter) = h.iter() {
                for id in iter.flatten().take(5000) {
                    if out.iter_ids.len() < 20_000 {
                        out.iter_ids.push(id);
                    }
                }
            }
        }
        // ---- clone the handle (registers/unregisters handles, maybe with stable pack ids), use it, drop it
        5 => {
            let mut h2 = h.clone();
            let mut auto2 = auto_refresh;
            let mut stable2 = stable;
            match rng.below(3) {
                0 => {
                    h2.prevent_pack_unload();
                    stable2 = true;
                }
                1 => {
                    h2.refresh_never();
                    auto2 = false;
                }
                _ => {}
            }
            let n = 1 + rng.below(6);
            let mut no_locations = Vec::new();
            for _ in 0..n {
                let op2 = rng.below(4);
                one_op(&h2, auto2, stable2, op2, shared, rng, spec, out, buf, &mut no_locations);
            }
            drop(h2);
        }
        // ---- stable pack ids: remember a location ...
        6 => {
            if !stable {
                return;
            }
            if let Target::Known(o, idx) = &target {
                let mut ebuf = Vec::new();
                if let Some(location) = h.location_by_oid(&o.id, &mut ebuf) {
                    if locations.len() >= 32 {
                        let k = rng.below(locations.len());
                        locations.swap_remove(k);
                    }
                    locations.push(StoredLocation {
                        obj: *idx,
                        location,
                        decompressed: ebuf,
                    });
                }
            }
        }
        // ---- ... and verify later that it still denotes the same bytes
        7 => {
            if !stable || locations.is_empty() {
                return;
            }
            let k = rng.below(locations.len());
            let l = &locations[k];
            match h.entry_by_location(&l.location) {
                Some(entry) => {
                    let ok = match gix_pack::data::Entry::from_bytes(&entry.data, 0, 20) {
                        Ok(e) => {
                            let mut dec = Vec::new();
                            let start = (e.data_offset as usize).min(entry.data.len());
                            let res = flate2::read::ZlibDecoder::new(&entry.data[start..]).read_to_end(&mut dec);
                            res.is_ok() && dec == l.decompressed
                        }
                        Err(_) => false,
                    };
                    if ok {
                        out.locations_verified += 1;
                    } else {
                        out.violations.push((
                            "stable-location-changed".into(),
                            format!("entry_by_location({:?}) for object #{} no longer yields the entry that location_by_oid described", l.location, l.obj),
                        ));
                    }
                }
                None => out.violations.push((
                    "stable-location-lost".into(),
                    format!("entry_by_location({:?}) = None on a handle with stable pack ids (object #{})", l.location, l.obj),
                )),
            }
        }
        // ---- racy metrics: must not panic
        _ => {
            let m = h.store_ref().metrics();
            std::hint::black_box(m);
        }
    }
}

fn reader_main(mut h: OdbHandle, spec: &ReaderSpec, shared: &Shared, min_tail_ops: u64, max_ops: u64) -> ReaderOut {
    let mut out = ReaderOut::default();
    let mut rng = Rng(spec.seed);
    let mut buf = Vec::new();
    let mut locations: Vec<StoredLocation> = Vec::new();
    if spec.stable_pack_ids {
        h.prevent_pack_unload();
    }
    if !spec.auto_refresh {
        h.refresh_never();
    }
    let total: u32 = spec.mix.iter().map(|m| *m as u32).sum();
    let mut tail = 0u64;
    loop {
        if shared.done.load(Ordering::Acquire) {
            tail += 1;
            if tail > min_tail_ops {
                break;
            }
        }
        if out.ops >= max_ops {
            break;
        }
        perturb(spec, &mut rng);
        let mut x = rng.below(total as usize) as u32;
        let mut op = 0;
        for (i, m) in spec.mix.iter().enumerate() {
            if x < *m as u32 {
                op = i;
                break;
            }
            x -= *m as u32;
        }
        let phase = shared.phase.load(Ordering::Relaxed);
        one_op(&h, spec.auto_refresh, spec.stable_pack_ids, op, shared, &mut rng, spec, &mut out, &mut buf, &mut locations);
        out.ops += 1;
        if phase & (1 << 16) != 0 && shared.phase.load(Ordering::Relaxed) == phase {
            out.ops_during_destructive += 1;
        }
        shared.total_ops.fetch_add(1, Ordering::Relaxed);
        if out.violations.len() > 8 {
            break;
        }
    }
    out
}

fn render(w: &WorldSpec) -> String {
    let mut s = format!(
        "{}+{} commits over {} files ({} / {}), pre-steps {:?} / {:?}; slots {}, midx {}; history: ",
        w.commits_a,
        w.commits_b,
        w.files,
        if w.a_as_pack { "pack" } else { "loose" },
        if w.b_as_pack { "pack" } else { "loose" },
        w.pre_a.iter().map(Step::name).collect::<Vec<_>>(),
        w.pre_b.iter().map(Step::name).collect::<Vec<_>>(),
        w.slots,
        w.use_midx
    );
    for (st, gap) in &w.steps {
        s.push_str(&format!("[{} after {gap} ops] ", st.name()));
    }
    s.push_str("readers: ");
    for r in &w.readers {
        s.push_str(&format!(
            "({}{}{}{} perturb {} absent {}/256 mix {:?}) ",
            if r.auto_refresh { "auto" } else { "never" },
            if r.stable_pack_ids { ",stable" } else { "" },
            match r.pack_cache {
                0 => "",
                1 => ",lru",
                _ => ",hashmap",
            },
            if r.object_cache { ",objcache" } else { "" },
            r.perturb,
            r.absent,
            r.mix
        ));
    }
    s
}

// ------------------------------------------------------------------------------------------------------------
// shared between the concurrent and the sequential sub-check

/// Verdicts of failed cases, by fingerprint of the decoded case. The engine evaluates a failing tape a second time to
/// obtain the final message; with sampled schedules (and with address-dependent behaviour of the code under test) that
/// second evaluation can end differently, which would replace the signature of the failure that was actually seen.
/// Handing back the first verdict for the very same case keeps the report faithful. Passing cases are never cached.
static FAILED: Mutex<Vec<(u64, String, String)>> = Mutex::new(Vec::new());

fn fingerprint<T: std::hash::Hash>(t: &T) -> u64 {
    use std::hash::Hasher;
    let mut h = std::collections::hash_map::DefaultHasher::new();
    t.hash(&mut h);
    h.finish()
}

fn cached_failure(c: &mut Case, fp: u64) -> bool {
    if let Ok(g) = FAILED.lock() {
        if let Some((_, sig, msg)) = g.iter().find(|(f, _, _)| *f == fp) {
            c.fail_sig(sig, msg.clone());
            return true;
        }
    }
    false
}

fn remember_failure(c: &Case, fp: u64) {
    if let Verdict::Fail { sig, msg } = &c.verdict {
        if let Ok(mut g) = FAILED.lock() {
            if g.len() < 256 && !g.iter().any(|(f, _, _)| *f == fp) {
                g.push((fp, sig.clone(), msg.clone()));
            }
        }
    }
}

struct Built {
    _world: World,
    git: Git,
    shared: Shared,
    first: OdbHandle,
    handles: Vec<OdbHandle>,
    wrap_possible: bool,
    refreshes_before: usize,
}

fn unpack_cfg(as_pack: bool) -> &'static str {
    if as_pack {
        "fastimport.unpackLimit=1"
    } else {
        "fastimport.unpackLimit=100000"
    }
}

macro_rules! infra_opt {
    ($c:expr, $e:expr, $what:expr) => {
        match $e {
            Ok(v) => v,
            Err(err) => {
                $c.infra(format!("{}: {}", $what, err));
                return None;
            }
        }
    };
}

fn world_labels(c: &mut Case, w: &WorldSpec, steps: &[&Step]) {
    c.label(match w.slots {
        2 => "slots-2",
        3 => "slots-3",
        4 => "slots-4",
        6 => "slots-6",
        8 => "slots-8",
        12 => "slots-12",
        _ => "slots-32",
    });
    c.label_if(w.readers.iter().any(|r| r.stable_pack_ids), "reader-stable-pack-ids");
    c.label_if(w.readers.iter().any(|r| !r.auto_refresh), "reader-refresh-never");
    c.label_if(w.readers.iter().any(|r| r.pack_cache != 0), "reader-pack-cache");
    c.label_if(w.readers.iter().any(|r| r.object_cache), "reader-object-cache");
    c.label_if(w.readers.len() >= 4, "readers>=4");
    c.label_if(!w.use_midx, "multi-pack-index-ignored");
    for s in steps {
        c.label(match s {
            Step::RepackIncremental { .. } => "step-repack-d",
            Step::RepackAll { .. } => "step-repack-a-d",
            Step::Geometric { .. } => "step-geometric",
            Step::PrunePacked => "step-prune-packed",
            Step::MidxWrite => "step-midx-write",
            Step::MidxRepackExpire => "step-midx-repack-expire",
            Step::Gc => "step-gc",
            Step::NewCommits { as_pack: true, .. } => "step-new-pack",
            Step::NewCommits { as_pack: false, .. } => "step-new-loose",
            Step::NewIsoHistory { .. } => "step-new-isomorphic-pack",
        });
        if let Step::RepackIncremental { midx: true } | Step::RepackAll { midx: true, .. } | Step::Geometric { midx: true } = s {
            c.label("step-write-midx");
        }
    }
}

/// repository, truth table, the store and one handle per reader spec
fn build_world(c: &mut Case, w: &WorldSpec, steps: &[&Step], tag: &str) -> Option<Built> {
    let world = infra_opt!(c, World::new(tag, true), "world");
    let git = world.git.clone().cfg("pack.threads=1").cfg("gc.writeCommitGraph=false");
    let objects_dir: PathBuf = world.git_dir().join("objects");
    if w.iso {
        infra_opt!(c, iso_history(&git, "main", w.commits_a as usize, w.files as usize, 0), "isomorphic history 0");
    } else {
        let stream = commits_stream("main", 0, w.commits_a as usize, w.files as usize, None, true);
        infra_opt!(c, git.clone().cfg(unpack_cfg(w.a_as_pack)).run_in(["fast-import", "--quiet"], Some(&stream)), "fast-import A");
        for s in &w.pre_a {
            infra_opt!(c, run_step(&git, s), "pre-step");
        }
        let stream = commits_stream("main", w.commits_a as usize, w.commits_b as usize, w.files as usize, Some("refs/heads/main^0"), false);
        infra_opt!(c, git.clone().cfg(unpack_cfg(w.b_as_pack)).run_in(["fast-import", "--quiet"], Some(&stream)), "fast-import B");
        for s in &w.pre_b {
            infra_opt!(c, run_step(&git, s), "pre-step");
        }
    }
    let table = infra_opt!(c, batch_check(&git, None), "batch-check all objects");
    let reachable = infra_opt!(c, git.run(["rev-list", "--objects", "--all", "--no-object-names"]), "rev-list");
    let reachable: BTreeSet<String> = String::from_utf8_lossy(&reachable).lines().map(|l| l.trim().to_string()).collect();
    let loose_at_start = loose_ids(&objects_dir);
    let mut always: Vec<Obj> = Vec::new();
    for (id, hex, kind, size) in table {
        if !reachable.contains(&hex) && kind != gix_object::Kind::Tag {
            c.infra(format!("object {hex} is not reachable; the world generator is wrong"));
            return None;
        }
        let was_loose = loose_at_start.contains(&hex);
        always.push(Obj { id, hex, kind, size, was_loose });
    }
    always.sort_by(|a, b| a.id.cmp(&b.id));
    if always.len() < 50 {
        c.infra(format!("only {} objects", always.len()));
        return None;
    }
    let by_id: HashMap<ObjectId, usize> = always.iter().enumerate().map(|(i, o)| (o.id, i)).collect();
    let shared = Shared {
        always,
        by_id: RwLock::new(by_id),
        published: RwLock::new(Vec::new()),
        done: AtomicBool::new(false),
        total_ops: AtomicU64::new(0),
        phase: AtomicUsize::new(0),
    };
    let first = match gix_odb::at_opts(
        objects_dir.clone(),
        Vec::new(),
        Options {
            slots: Slots::Given(w.slots),
            object_hash: gix_hash::Kind::Sha1,
            use_multi_pack_index: w.use_midx,
            current_dir: Some(world.scratch.path.clone()),
        },
    ) {
        Ok(h) => h,
        Err(e) => {
            c.fail_sig("store-open", format!("gix_odb::at_opts failed: {e}"));
            return None;
        }
    };
    let mut handles: Vec<OdbHandle> = Vec::new();
    for r in &w.readers {
        handles.push(new_handle(&first, r));
    }
    let refreshes_before = first.store_ref().metrics().num_refreshes;
    // Slots are handed out round-robin: once (index files at start + index files created during the run) exceeds the
    // slot count, the store has to reuse slots or report InsufficientSlots. Failures in such worlds carry a
    // `slot-wrap:` prefix in their signature so that they form their own, narrower class.
    let initial_indices = std::fs::read_dir(objects_dir.join("pack"))
        .map(|rd| {
            rd.flatten()
                .filter(|e| {
                    let n = e.file_name().to_string_lossy().to_string();
                    n.ends_with(".idx") || n == "multi-pack-index"
                })
                .count()
        })
        .unwrap_or(0);
    let creations: usize = steps.iter().map(|s| s.index_creations()).sum();
    let wrap_possible = initial_indices + creations > w.slots as usize;
    c.label_if(wrap_possible, "slot-wrap-possible");
    Some(Built {
        _world: world,
        git,
        shared,
        first,
        handles,
        wrap_possible,
        refreshes_before,
    })
}

fn new_handle(first: &OdbHandle, r: &ReaderSpec) -> OdbHandle {
    let mut h = first.clone();
    match r.pack_cache {
        1 => h.set_pack_cache(|| Box::new(gix_pack::cache::lru::StaticLinkedList::<64>::new(64 * 1024))),
        2 => h.set_pack_cache(|| Box::new(gix_pack::cache::lru::MemoryCappedHashmap::new(256 * 1024))),
        _ => {}
    }
    if r.object_cache {
        h.set_object_cache(|| Box::new(gix_pack::cache::object::MemoryCappedHashmap::new(128 * 1024)));
    }
    h
}

/// A history of `commits` commits on a new branch that shares no object with any other history, as loose objects first,
/// then in one pack of its own that is written without compression (`pack.compression=0`), so that the offset of every
/// entry depends on object sizes and order only. Returns the ids of the new objects.
fn iso_history(git: &Git, branch: &str, commits: usize, files: usize, salt: usize) -> Result<Vec<String>, String> {
    let old_tips = git.run(["for-each-ref", "--format=%(objectname)"])?;
    let stream = commits_stream_salted(branch, 0, commits, files, None, false, salt);
    git.clone().cfg(unpack_cfg(false)).run_in(["fast-import", "--quiet"], Some(&stream))?;
    let mut args: Vec<String> = vec!["rev-list".into(), "--objects".into(), format!("refs/heads/{branch}")];
    for tip in String::from_utf8_lossy(&old_tips).lines() {
        args.push(format!("^{tip}"));
    }
    let list = git.run(&args)?;
    git.clone().cfg("pack.compression=0").run_in(["pack-objects", "-q", "objects/pack/pack"], Some(&list))?;
    git.run(["prune-packed", "-q"])?;
    Ok(String::from_utf8_lossy(&list)
        .lines()
        .filter_map(|l| l.split(' ').next().map(str::to_string))
        .filter(|l| !l.is_empty())
        .collect())
}

fn publish(git: &Git, new_ids: &[String], was_loose: bool, shared: &Shared) -> Result<(), String> {
    let table = batch_check(git, Some(new_ids))?;
    let mut by_id = shared.by_id.write().unwrap();
    let mut published = shared.published.write().unwrap();
    for (id, hex, kind, size) in table {
        if by_id.contains_key(&id) {
            continue;
        }
        by_id.insert(id, shared.always.len() + published.len());
        published.push(Obj { id, hex, kind, size, was_loose });
    }
    Ok(())
}

/// run one step of the history; new objects are published to the readers once git is done creating them
fn apply_step(git: &Git, step: &Step, si: usize, next_commit: &mut usize, files: usize, shared: &Shared) -> Result<(), String> {
    if let Step::NewCommits { count, as_pack } = step {
        let branch = format!("n{si}");
        let old_tips = git.run(["for-each-ref", "--format=%(objectname)"])?;
        let stream = commits_stream(&branch, *next_commit, *count as usize, files, Some("refs/heads/main^0"), false);
        *next_commit += *count as usize;
        git.clone().cfg(unpack_cfg(*as_pack)).run_in(["fast-import", "--quiet"], Some(&stream))?;
        let mut args: Vec<String> = vec!["rev-list".into(), "--objects".into(), "--no-object-names".into(), format!("refs/heads/{branch}")];
        for tip in String::from_utf8_lossy(&old_tips).lines() {
            args.push(format!("^{tip}"));
        }
        let new_ids = git.run(&args)?;
        let new_ids: Vec<String> = String::from_utf8_lossy(&new_ids).lines().map(|l| l.trim().to_string()).filter(|l| !l.is_empty()).collect();
        publish(git, &new_ids, !*as_pack, shared)
    } else if let Step::NewIsoHistory { salt, commits } = step {
        let new_ids = iso_history(git, &format!("iso{si}"), *commits as usize, files, *salt as usize)?;
        publish(git, &new_ids, false, shared)
    } else {
        run_step(git, step)
    }
}

/// Verdicts common to both sub-checks. Returns false when the case has been decided (failure or infra).
fn judge(c: &mut Case, b: &Built, outs: &[ReaderOut], described: &str) -> bool {
    let sig_of = |sig: &str| -> String {
        if b.wrap_possible {
            format!("slot-wrap:{sig}")
        } else {
            sig.to_string()
        }
    };
    for o in outs {
        if let Some((loc, msg)) = &o.panic {
            if loc.starts_with("src/") || loc.contains("/verif/") {
                c.infra(format!("harness panic in reader at {loc}: {msg}"));
            } else {
                c.fail_sig(&sig_of(&format!("panic:{loc}")), format!("lookup panicked at {loc}: {msg}; world: {described}"));
            }
            return false;
        }
    }
    for o in outs {
        if let Some((sig, msg)) = o.violations.first() {
            c.fail_sig(&sig_of(sig), format!("{msg}; world: {described}"));
            return false;
        }
    }
    for o in outs {
        if let Some(note) = &o.stale_pack_cache_note {
            c.fail_sig(
                "stale-pack-cache:wrong-content",
                format!("{note} ({} such lookups of this handle); world: {described}", o.stale_pack_cache),
            );
            return false;
        }
    }
    // post-hoc: prefix results and iterated ids against the final set of objects
    let final_table = match batch_check(&b.git, None) {
        Ok(t) => t,
        Err(e) => {
            c.infra(format!("final batch-check: {e}"));
            return false;
        }
    };
    let universe: BTreeSet<ObjectId> = final_table.iter().map(|e| e.0).collect();
    let universe_hex: Vec<&String> = final_table.iter().map(|e| &e.1).collect();
    for o in b.shared.always.iter().chain(b.shared.published.read().unwrap().iter()) {
        if !universe.contains(&o.id) {
            c.infra(format!("git lost object {} during maintenance; the oracle's premise is void", o.hex));
            return false;
        }
    }
    for o in outs {
        for (prefix, id, res, must_find) in &o.prefix_results {
            let matching = universe_hex.iter().filter(|h| h.starts_with(prefix.as_str())).count();
            match res {
                Some(Ok(found)) => {
                    if !(found.to_string().starts_with(prefix.as_str()) && universe.contains(found)) {
                        c.fail_sig("prefix-wrong-id", format!("lookup_prefix({prefix}) = {found}, which does not have that prefix or is not an object of the repository"));
                        return false;
                    }
                    if *must_find && matching == 1 && found != id {
                        c.fail_sig("prefix-wrong-id", format!("lookup_prefix({prefix}) = {found} but the only object with that prefix is {id}"));
                        return false;
                    }
                }
                Some(Err(())) => {
                    if matching < 2 {
                        c.fail_sig("prefix-false-ambiguity", format!("lookup_prefix({prefix}) reports ambiguity but {matching} object(s) of the repository have that prefix"));
                        return false;
                    }
                }
                None => {
                    if *must_find {
                        c.fail_sig(
                            &sig_of("miss:lookup_prefix"),
                            format!("lookup_prefix({prefix}) [auto-refresh] = None, but {id} exists since before the lookup started; world: {described}"),
                        );
                        return false;
                    }
                }
            }
        }
        for id in &o.iter_ids {
            if !universe.contains(id) {
                c.fail_sig("iter-phantom", format!("iter() yielded {id}, which was never an object of the repository"));
                return false;
            }
        }
    }
    // quiescent end state: a fresh handle finds everything, with the right content
    let fresh = b.first.clone();
    let mut buf = Vec::new();
    for o in b.shared.always.iter().chain(b.shared.published.read().unwrap().iter()) {
        match PackFind::try_find(&fresh, &o.id, &mut buf) {
            Ok(Some((d, _))) => {
                let got = object_sha1(kind_name(d.kind), d.data);
                if got != o.hex {
                    c.fail_sig(&sig_of("wrong-content"), format!("after the run: try_find({}) returns content hashing to {got}", o.hex));
                    return false;
                }
            }
            Ok(None) => {
                c.fail_sig(&sig_of("miss:quiescent"), format!("after the run (no concurrent change): try_find({}) = None; world: {described}", o.hex));
                return false;
            }
            Err(e) => {
                if classify(e.as_ref()) == ErrClass::InsufficientSlots {
                    continue;
                }
                c.fail_sig("error:quiescent", format!("after the run: try_find({}) failed: {}", o.hex, err_chain(e.as_ref())));
                return false;
            }
        }
    }
    true
}

fn outcome_labels(c: &mut Case, b: &Built, outs: &[ReaderOut]) -> (usize, u64, bool) {
    let refreshes = b.first.store_ref().metrics().num_refreshes.saturating_sub(b.refreshes_before);
    let ops: u64 = outs.iter().map(|o| o.ops).sum();
    let during: u64 = outs.iter().map(|o| o.ops_during_destructive).sum();
    let moved = outs.iter().any(|o| {
        o.distinct_pack_ids
            .iter()
            .any(|(idx, ids)| ids.len() >= 2 || (*idx < b.shared.always.len() && b.shared.always[*idx].was_loose && !ids.is_empty()))
    });
    c.label_if(outs.iter().any(|o| !o.transient_errors.is_empty()), "transient-not-found-error-retried");
    c.label_if(outs.iter().any(|o| o.insufficient_slots > 0), "insufficient-slots-error");
    c.label_if(outs.iter().any(|o| o.legal_misses > 0), "legal-miss-refresh-never");
    c.label_if(outs.iter().any(|o| o.locations_verified > 0), "stable-location-verified");
    c.label_if(moved, "object-served-from-changing-packs");
    c.label_if(during > 0, "lookups-inside-destructive-step");
    c.label_if(refreshes >= 2, "refreshes>=2");
    c.label_if(refreshes >= 20, "refreshes>=20");
    c.label(match ops {
        0..=999 => "ops<1k",
        1000..=9999 => "ops-1k..10k",
        10_000..=99_999 => "ops-10k..100k",
        _ => "ops>=100k",
    });
    (refreshes, during, moved)
}

// ------------------------------------------------------------------------------------------------------------
// the sequential sub-check: no threads, a generated interleaving of handle operations and maintenance steps

#[derive(Debug, Clone, Hash)]
enum Act {
    Git(Step),
    /// `count` operations on one handle: kind 0 = by the handle's mix, 1 = contains only (touches indices, not
    /// packs), 2 = try_find of known objects, 3 = lookups of absent ids (each forces a refresh), 4 = try_header,
    /// 5 = location_by_oid (handles with stable pack ids), 6 = entry_by_location of remembered locations,
    /// 7 = try_find of every object once (`count` is ignored), 8 = contains of every object once
    Ops { handle: u8, kind: u8, count: u8, seed: u16 },
    /// drop the handle and create a new one with the same configuration
    Recreate { handle: u8 },
}

fn gen_sequential(t: &mut Tape) -> (WorldSpec, Vec<Act>) {
    let nhandles = t.range(2, 4);
    let mut readers = Vec::new();
    for _ in 0..nhandles {
        let mut mix = [0u8; 9];
        let base = [8u8, 5, 5, 3, 1, 2, 4, 4, 1];
        for (m, b) in mix.iter_mut().zip(base) {
            *m = b + (t.u8() >> 6);
        }
        readers.push(ReaderSpec {
            auto_refresh: !t.chance(64),
            stable_pack_ids: t.chance(80),
            pack_cache: t.weighted(&[3, 3, 2]) as u8,
            object_cache: t.chance(40),
            seed: 1,
            mix,
            perturb: 0,
            absent: 32,
            force: None,
        });
    }
    // each handle has a habit: 0 mixed, 1 index-only (contains), 2 finder, 3 refresher (absent ids), 4 locator
    let habits: Vec<u8> = (0..nhandles).map(|_| t.weighted(&[2, 3, 3, 3, 2]) as u8).collect();
    let mut script = Vec::new();
    if t.chance(64) {
        // template "stale handle": H0 warms up, then other handles make the store reconcile with the disk
        // 1..6 times while H0 sleeps, then H0 looks for old and new objects
        script.push(Act::Ops {
            handle: 0,
            kind: if t.bool() { 2 } else { 1 },
            count: 80,
            seed: t.u16(),
        });
        let reconciliations = t.range(1, 6);
        for _ in 0..reconciliations {
            let step = if t.chance(160) {
                Step::NewCommits {
                    count: t.range(1, 3) as u8,
                    as_pack: !t.chance(64),
                }
            } else {
                gen_step(t)
            };
            script.push(Act::Git(step));
            script.push(Act::Ops {
                handle: 1,
                kind: 3,
                count: 1,
                seed: t.u16(),
            });
        }
        script.push(Act::Ops {
            handle: 0,
            kind: 2,
            count: 80,
            seed: t.u16(),
        });
    }
    // prologue: some handles learn about all indices without loading any pack
    for h in 0..nhandles {
        if t.chance(112) {
            script.push(Act::Ops {
                handle: h as u8,
                kind: 1,
                count: 80,
                seed: t.u16(),
            });
        }
    }
    // rounds: one maintenance step, then a few bursts by generated handles
    let rounds = t.range(2, 8);
    for _ in 0..rounds {
        script.push(Act::Git(gen_step(t)));
        let bursts = t.range(1, 5);
        for _ in 0..bursts {
            if t.chance(20) {
                script.push(Act::Recreate { handle: t.below(nhandles) as u8 });
                continue;
            }
            let handle = t.below(nhandles);
            let kind = if t.chance(176) {
                match habits[handle] {
                    4 => 5 + t.below(2) as u8,
                    k => k,
                }
            } else {
                t.weighted(&[3, 3, 3, 3, 1, 2, 2]) as u8
            };
            script.push(Act::Ops {
                handle: handle as u8,
                kind,
                count: [1u8, 2, 5, 20][t.below(4)],
                seed: t.u16(),
            });
        }
    }
    let pre = |t: &mut Tape| -> Vec<Step> {
        let n = t.weighted(&[3, 3, 2]);
        (0..n)
            .map(|_| loop {
                let s = gen_step(t);
                if !matches!(s, Step::NewCommits { .. }) {
                    break s;
                }
            })
            .collect()
    };
    let w = WorldSpec {
        commits_a: t.range(8, 20) as u8,
        commits_b: t.range(4, 14) as u8,
        files: t.range(3, 6) as u8,
        a_as_pack: t.bool(),
        b_as_pack: t.bool(),
        pre_a: pre(t),
        pre_b: pre(t),
        steps: Vec::new(),
        slots: [6u16, 8, 12, 32][t.weighted(&[2, 2, 3, 3])],
        use_midx: !t.chance(64),
        readers,
        iso: false,
    };
    (w, script)
}

/// Worlds and scripts built to make the store hand out a slot for the second time while a handle still holds a snapshot
/// from before: few slots, handle 0 warms up (index-only, or reading everything so that its caches fill), then sleeps
/// while handle 1 makes the store reconcile with the disk after each of up to slots + 4 rounds of maintenance steps, most of
/// which replace every index by a new one or add a pack; at the end every handle looks for every object. In `iso`
/// worlds the packs that are added are isomorphic (see `Step::NewIsoHistory`).
fn gen_slot_reuse(t: &mut Tape) -> (WorldSpec, Vec<Act>) {
    let slots = [2u16, 3, 4, 6, 8][t.weighted(&[3, 3, 3, 2, 1])];
    let iso = t.chance(144);
    let use_midx = t.chance(80);
    let mut readers = Vec::new();
    let nhandles = t.range(2, 3);
    for i in 0..nhandles {
        let mut mix = [0u8; 9];
        let base = [8u8, 5, 5, 3, 1, 2, 4, 4, 1];
        for (m, b) in mix.iter_mut().zip(base) {
            *m = b + (t.u8() >> 6);
        }
        readers.push(if i == 1 {
            // the refresher
            ReaderSpec { auto_refresh: true, stable_pack_ids: false, pack_cache: 0, object_cache: false, seed: 1, mix, perturb: 0, absent: 32, force: None }
        } else {
            ReaderSpec {
                auto_refresh: !t.chance(40),
                stable_pack_ids: t.chance(20),
                pack_cache: t.weighted(&[3, 2, 3]) as u8,
                object_cache: t.chance(40),
                seed: 1,
                mix,
                perturb: 0,
                absent: 32,
                force: None,
            }
        });
    }
    let commits = t.range(10, 20) as u8;
    let mut script = Vec::new();
    // warm-up of the sleeper
    let warm = [8u8, 7, 2, 1][t.weighted(&[4, 4, 1, 1])];
    script.push(Act::Ops { handle: 0, kind: warm, count: 40, seed: t.u16() });
    let rounds = t.range(1, slots as usize + 4);
    let mut salt = 0u8;
    for _ in 0..rounds {
        let choice = t.weighted(&[5, 4, 1, 1]);
        let mut steps: Vec<Step> = Vec::new();
        match choice {
            0 => {
                // replace every index by a new one
                steps.push(Step::NewCommits { count: 1, as_pack: t.chance(64) });
                steps.push(Step::RepackAll { loosen_unreachable: false, midx: use_midx && t.chance(160) });
            }
            1 => {
                if iso && (salt as usize) < ISO_WORDS.len() - 1 {
                    salt += 1;
                    steps.push(Step::NewIsoHistory { salt, commits });
                } else {
                    steps.push(Step::NewCommits { count: t.range(1, 3) as u8, as_pack: true });
                }
            }
            2 => steps.push(Step::MidxWrite),
            _ => steps.push(gen_step(t)),
        }
        for s in steps {
            script.push(Act::Git(s));
        }
        if t.chance(232) {
            script.push(Act::Ops { handle: 1, kind: 3, count: 1, seed: t.u16() });
        }
        if t.chance(24) {
            let handle = if nhandles > 2 && t.bool() { 2 } else { 0 };
            script.push(Act::Ops { handle, kind: [2u8, 3, 1, 7][t.below(4)], count: [1u8, 5, 20][t.below(3)], seed: t.u16() });
        }
    }
    for h in 0..nhandles {
        script.push(Act::Ops { handle: h as u8, kind: 7, count: 0, seed: t.u16() });
    }
    let w = WorldSpec {
        commits_a: commits,
        commits_b: if iso { 0 } else { t.range(2, 8) as u8 },
        files: t.range(3, 5) as u8,
        a_as_pack: true,
        b_as_pack: t.bool(),
        pre_a: Vec::new(),
        pre_b: Vec::new(),
        steps: Vec::new(),
        slots,
        use_midx,
        readers,
        iso,
    };
    (w, script)
}

fn render_sequential(w: &WorldSpec, script: &[Act]) -> String {
    let mut s = format!(
        "{}{}+{} commits over {} files ({} / {}), pre-steps {:?} / {:?}; slots {}, midx {}; handles: ",
        if w.iso { "isomorphic uncompressed packs; " } else { "" },
        w.commits_a,
        w.commits_b,
        w.files,
        if w.a_as_pack { "pack" } else { "loose" },
        if w.b_as_pack { "pack" } else { "loose" },
        w.pre_a.iter().map(Step::name).collect::<Vec<_>>(),
        w.pre_b.iter().map(Step::name).collect::<Vec<_>>(),
        w.slots,
        w.use_midx
    );
    for (i, r) in w.readers.iter().enumerate() {
        s.push_str(&format!(
            "H{i}({}{}{}{}) ",
            if r.auto_refresh { "auto" } else { "never" },
            if r.stable_pack_ids { ",stable" } else { "" },
            match r.pack_cache {
                0 => "",
                1 => ",lru",
                _ => ",hashmap",
            },
            if r.object_cache { ",objcache" } else { "" }
        ));
    }
    s.push_str("script: ");
    for a in script {
        match a {
            Act::Git(st) => s.push_str(&format!("[git {}] ", st.name())),
            Act::Ops { handle, kind, count, seed } => s.push_str(&format!(
                "H{handle}:{}x{count}#{seed} ",
                match kind {
                    0 => "mix",
                    1 => "contains",
                    2 => "find",
                    3 => "absent",
                    4 => "header",
                    5 => "location",
                    7 => "find-every-object",
                    8 => "contains-every-object",
                    _ => "location-verify",
                }
            )),
            Act::Recreate { handle } => s.push_str(&format!("H{handle}:recreate ")),
        }
    }
    s
}

/// The interpreter of both script-driven sub-checks: no threads, one operation at a time.
fn run_script(c: &mut Case, w: &WorldSpec, script: &[Act], tag: &str, reuse_rule: bool) {
    c.key(&(w, script));
    c.sample_with(|| render_sequential(w, script));
    let fp = fingerprint(&(w, script));
    if cached_failure(c, fp) {
        return;
    }
    let steps: Vec<&Step> = script.iter().filter_map(|a| if let Act::Git(s) = a { Some(s) } else { None }).collect();
    world_labels(c, w, &steps);
    // non-trivial: ops(H) .. ops(other) .. destructive git .. ops(other)? .. ops(H), in script order
    let mut nontrivial = false;
    for (i, a) in script.iter().enumerate() {
        if let Act::Git(s) = a {
            if !s.destructive() {
                continue;
            }
            let before: BTreeSet<u8> = script[..i].iter().filter_map(|a| if let Act::Ops { handle, .. } = a { Some(*handle) } else { None }).collect();
            let after: Vec<u8> = script[i + 1..].iter().filter_map(|a| if let Act::Ops { handle, .. } = a { Some(*handle) } else { None }).collect();
            let after_set: BTreeSet<u8> = after.iter().copied().collect();
            if before.iter().any(|h| after_set.contains(h)) && after_set.len() >= 2 {
                nontrivial = true;
            }
        }
    }
    if reuse_rule {
        // the longest run of maintenance steps, each followed by a lookup of another handle that makes the store
        // reconcile with the disk, during which handle 0 does nothing although it operated before and operates after
        let mut longest = 0usize;
        let mut current = 0usize;
        let mut h0_before = false;
        let mut pending_git = false;
        for a in script {
            match a {
                Act::Ops { handle: 0, .. } => {
                    if h0_before {
                        longest = longest.max(current);
                    }
                    h0_before = true;
                    current = 0;
                    pending_git = false;
                }
                Act::Ops { .. } => {
                    if pending_git {
                        current += 1;
                        pending_git = false;
                    }
                }
                Act::Git(_) => pending_git = true,
                Act::Recreate { .. } => {}
            }
        }
        c.label_if(longest >= 2, "handle-0-asleep-for>=2-reconciliations");
        c.label_if(longest >= w.slots as usize, "handle-0-asleep-for>=slots-reconciliations");
        c.label_if(w.iso, "isomorphic-packs");
        nontrivial = longest >= 2;
    }
    let Some(mut b) = build_world(c, w, &steps, tag) else { return };
    // slot-reuse: only worlds in which the store has to hand out a slot for the second time count
    c.nontrivial(nontrivial && (!reuse_rule || b.wrap_possible));
    let described = render_sequential(w, script);
    let mut handles: Vec<Option<OdbHandle>> = Vec::new();
    for (h, r) in b.handles.drain(..).zip(w.readers.iter()) {
        let mut h = h;
        if r.stable_pack_ids {
            h.prevent_pack_unload();
        }
        if !r.auto_refresh {
            h.refresh_never();
        }
        handles.push(Some(h));
    }
    let mut outs: Vec<ReaderOut> = w.readers.iter().map(|_| ReaderOut::default()).collect();
    let mut locations: Vec<Vec<StoredLocation>> = w.readers.iter().map(|_| Vec::new()).collect();
    let mut buf = Vec::new();
    let mut next_commit = w.commits_a as usize + w.commits_b as usize;
    for (ai, a) in script.iter().enumerate() {
        match a {
            Act::Git(step) => {
                if let Err(e) = apply_step(&b.git, step, ai, &mut next_commit, w.files as usize, &b.shared) {
                    c.infra(format!("step {ai} ({}): {e}", step.name()));
                    return;
                }
            }
            Act::Recreate { handle } => {
                let k = *handle as usize;
                handles[k] = None;
                locations[k].clear();
                let r = &w.readers[k];
                let mut h = new_handle(&b.first, r);
                if r.stable_pack_ids {
                    h.prevent_pack_unload();
                }
                if !r.auto_refresh {
                    h.refresh_never();
                }
                handles[k] = Some(h);
            }
            Act::Ops { handle, kind, count, seed } => {
                let k = *handle as usize;
                let r = &w.readers[k];
                let mut spec = r.clone();
                let mut rng = Rng(*seed as u64 * 2 + 1);
                let total: u32 = r.mix.iter().map(|m| *m as u32).sum();
                let sweep = matches!(kind, 7 | 8);
                let n_objects = b.shared.always.len() + b.shared.published.read().unwrap().len();
                let iterations = if sweep { n_objects } else { *count as usize };
                for it in 0..iterations {
                    spec.force = sweep.then_some(it as u32);
                    let op = match kind {
                        0 => {
                            spec.absent = 32;
                            let mut x = rng.below(total as usize) as u32;
                            let mut op = 0;
                            for (i, m) in r.mix.iter().enumerate() {
                                if x < *m as u32 {
                                    op = i;
                                    break;
                                }
                                x -= *m as u32;
                            }
                            op
                        }
                        1 => {
                            spec.absent = 0;
                            2
                        }
                        2 => {
                            spec.absent = 0;
                            0
                        }
                        3 => {
                            spec.absent = 255;
                            [0usize, 2, 1][rng.below(3)]
                        }
                        4 => {
                            spec.absent = 0;
                            1
                        }
                        5 => {
                            spec.absent = 0;
                            6
                        }
                        7 => 0,
                        8 => 2,
                        _ => 7,
                    };
                    let h = handles[k].as_ref().expect("handle present");
                    let out = &mut outs[k];
                    let res = std::panic::catch_unwind(std::panic::AssertUnwindSafe(|| {
                        one_op(h, r.auto_refresh, r.stable_pack_ids, op, &b.shared, &mut rng, &spec, out, &mut buf, &mut locations[k]);
                    }));
                    outs[k].ops += 1;
                    if res.is_err() {
                        let tid = std::thread::current().id();
                        let rec = THREAD_PANICS
                            .lock()
                            .ok()
                            .and_then(|mut g| g.iter().rposition(|(t, _, _)| *t == tid).map(|p| g.remove(p)));
                        outs[k].panic = Some(rec.map(|(_, l, m)| (l, m)).unwrap_or_else(|| ("unknown".into(), "panic".into())));
                        break;
                    }
                }
                if outs[k].panic.is_some() || !outs[k].violations.is_empty() {
                    break;
                }
            }
        }
    }
    drop(handles);
    if !judge(c, &b, &outs, &described) {
        remember_failure(c, fp);
        return;
    }
    let _ = outcome_labels(c, &b, &outs);
}

pub fn main() {
    let mut ck = Check::new("C12", "exploration");
    install_thread_panic_recorder();
    ck.rule("repack: one case = (history x schedule): a bare repository with 100..400 reachable objects (two fast-import batches, each loose or packed, each followed by 0..2 maintenance steps), then 4..12 maintenance steps (repack -d / -a -d / -A -d / --geometric, each optionally --write-midx; prune-packed; multi-pack-index write / repack+expire; gc; 1..6 new commits as loose objects or as a pack) run by git WHILE 1..6 reader threads, each with its own handle on one shared Store (slots 6/8/12/32, multi-pack-index use on/off; per reader: auto-refresh or never, stable pack ids, no/LRU/hashmap pack cache, object cache, operation mix over try_find / try_header / contains / lookup_prefix / iter / handle clone+drop (with refresh_never or prevent_pack_unload toggles) / location_by_oid + entry_by_location / metrics, share of absent ids, perturbation none/yield/spin/sleep/mixed, all expanded from tape-provided seeds), perform lookups until the history is done; each mutator step waits for a generated number of reader operations. NON-TRIVIAL: the store reconciled with the disk at least twice during the run, at least one step that deletes packs or loose objects completed while readers were performing lookups (>= 1 reader operation began and ended inside such a step), and >= 1 object was served from >= 2 different pack ids or from a pack after having been loose. sequential: the same worlds (smaller) and handles without threads: a generated script: optional index-only warm-up per handle, then 2..8 rounds of one maintenance step followed by 1..5 bursts of operations on generated handles out of 2..4 (each handle has a habit: mixed / contains only / try_find / absent ids / location_by_oid + entry_by_location; bursts follow the habit or a generated kind incl. try_header) or a handle re-creation; deterministic and replayable. NON-TRIVIAL there: a deleting maintenance step lies between two bursts of operations of the same handle and another handle operated in between. slot-reuse: the script interpreter of `sequential` with a generator built to make the store hand out a slot for the second time: 2/3/4/6/8 slots, handle 0 warms up (contains or try_find of every object, rarely a few lookups), then up to slots + 4 rounds of [replace every index: 1 new commit + repack -a -d (--write-midx) | add a pack (in 56 % of the worlds: an isomorphic history in a pack of identical layout written with pack.compression=0) | multi-pack-index write | any other step], each usually followed by an absent-id lookup of handle 1 (forces the store to reconcile with the disk), rarely by operations of handle 0 or 2; finally every handle performs try_find of every object. NON-TRIVIAL there: handle 0 operated before and after a run of >= 2 reconciliations it slept through, and index files at the start + upper bound of index files created > slots. Distinct by hash of the decoded case.");
    ck.assume(&format!("history is applied by {}; every object of the world is reachable from a ref, so no maintenance step may drop it (checked: after the run git still has every object)", Git::version()));
    ck.assume("repack: schedules are sampled (OS threads + generated perturbation), not enumerated; a violation that needs one specific rare interleaving can be missed; verdicts do not depend on wall-clock time");
    ck.assume("an Err whose source is io::ErrorKind::NotFound (a file the mutator has just deleted) is re-queried once and counts only if the retry fails too; InsufficientSlots errors are not violations (the generated slot count may be too small for the history) and are reported as a label; `contains()` = false is attributed to InsufficientSlots when try_header right afterwards reports that error");
    ck.assume("content is judged by SHA-1 computed by the harness (sha1_smol), not by gix-hash");
    ck.assume("wrong content from a handle that has a pack cache is attributed to the known finding stale-pack-cache:wrong-content if and only if the same handle returns the right bytes when the caches of gix_odb::Cache are bypassed (store handle asked with gix_pack::cache::Never); such lookups are counted, the world keeps running, and any other violation in the same world takes precedence");

    ck.sub("sequential", SubCfg::new(120, 4000).max_len(300).max_shrink(40), |t, c| {
        let (w, script) = gen_sequential(t);
        run_script(c, &w, &script, "c12s", false);
    });

    ck.sub("slot-reuse", SubCfg::new(64, 4000).max_len(300).threads(4).max_shrink(40), |t, c| {
        let (w, script) = gen_slot_reuse(t);
        run_script(c, &w, &script, "c12r", true);
    });

    // no shrinking: a schedule-dependent failure rarely survives a changed tape, and every evaluation is expensive
    let cfg = SubCfg::new(24, 600).max_len(400).threads(2).max_shrink(0);
    ck.sub("repack", cfg, |t, c| {
        let w = gen_world(t);
        c.key(&w);
        c.sample_with(|| render(&w));
        let fp = fingerprint(&w);
        if cached_failure(c, fp) {
            return;
        }
        let steps: Vec<&Step> = w.steps.iter().map(|(s, _)| s).collect();
        world_labels(c, &w, &steps);
        let Some(mut b) = build_world(c, &w, &steps, "c12") else { return };
        let described = render(&w);

        // ---- run: readers in threads, the mutator here
        let mut outs: Vec<ReaderOut> = Vec::new();
        let mut mutator_error: Option<String> = None;
        let mut steps_overlapped = 0usize;
        let handles: Vec<OdbHandle> = b.handles.drain(..).collect();
        let shared = &b.shared;
        let git = &b.git;
        std::thread::scope(|scope| {
            let mut joins = Vec::new();
            for (h, r) in handles.into_iter().zip(w.readers.iter()) {
                joins.push(scope.spawn(move || {
                    let tid = std::thread::current().id();
                    match std::panic::catch_unwind(std::panic::AssertUnwindSafe(|| reader_main(h, r, shared, 150, 50_000_000))) {
                        Ok(out) => out,
                        Err(_) => {
                            let mut out = ReaderOut::default();
                            let rec = THREAD_PANICS
                                .lock()
                                .ok()
                                .and_then(|mut g| g.iter().position(|(t, _, _)| *t == tid).map(|p| g.remove(p)));
                            out.panic = Some(rec.map(|(_, l, m)| (l, m)).unwrap_or_else(|| ("unknown".into(), "panic".into())));
                            out
                        }
                    }
                }));
            }
            // the mutator
            let mut next_commit = w.commits_a as usize + w.commits_b as usize;
            let mut last_total = 0u64;
            for (si, (step, gap)) in w.steps.iter().enumerate() {
                // couple the step to reader progress (bounded wait; purely a scheduling aid)
                let t0 = Instant::now();
                while shared.total_ops.load(Ordering::Relaxed) < last_total + *gap as u64 && t0.elapsed() < Duration::from_secs(3) {
                    std::thread::sleep(Duration::from_micros(200));
                }
                let ops_before = shared.total_ops.load(Ordering::Relaxed);
                shared.phase.store((si + 1) | if step.destructive() { 1 << 16 } else { 0 }, Ordering::Relaxed);
                let res = apply_step(git, step, si, &mut next_commit, w.files as usize, shared);
                shared.phase.store(0, Ordering::Relaxed);
                let ops_after = shared.total_ops.load(Ordering::Relaxed);
                if step.destructive() && ops_after > ops_before {
                    steps_overlapped += 1;
                }
                last_total = ops_after;
                if let Err(e) = res {
                    mutator_error = Some(format!("step {si} ({}): {e}", step.name()));
                    break;
                }
            }
            shared.done.store(true, Ordering::Release);
            for j in joins {
                match j.join() {
                    Ok(o) => outs.push(o),
                    Err(_) => {
                        let mut o = ReaderOut::default();
                        o.panic = Some(("unknown".into(), "reader thread died".into()));
                        outs.push(o);
                    }
                }
            }
        });
        if let Some(e) = mutator_error {
            c.infra(format!("mutator failed: {e}"));
            return;
        }
        if !judge(c, &b, &outs, &described) {
            remember_failure(c, fp);
            return;
        }
        let (refreshes, during, moved) = outcome_labels(c, &b, &outs);
        c.nontrivial(refreshes >= 2 && steps_overlapped >= 1 && during >= 1 && moved);
    });

    ck.finish();
}
